"""Shared plumbing for /verif/bin/check: scratch copies, subprocesses, evidence, known findings."""
import atexit
import json
import os
import resource
import shutil
import signal
import subprocess
import sys
import time

VERIF = os.path.dirname(os.path.dirname(os.path.dirname(os.path.abspath(__file__))))
REPO = os.environ.get("KONST_REPO", "/repo")
SCRATCH_ROOT = os.environ.get("KONST_VERIF_SCRATCH", "/var/tmp")

OFFLINE_ENV = {
    "CARGO_NET_OFFLINE": "true",
    "GOPROXY": "off",
    "PIP_NO_INDEX": "1",
    "CARGO_TERM_COLOR": "never",
}

EXIT_OK, EXIT_VIOLATION, EXIT_UNDECIDED = 0, 1, 2


def log(*a):
    print(*a, file=sys.stderr, flush=True)


class Scratch:
    """A private copy of /repo's *working tree* (no target/, no .git) plus room for
    generated crates.  Removed on exit, also on SIGTERM/SIGINT."""

    def __init__(self, tag):
        self.path = os.path.join(SCRATCH_ROOT, "konst-verif.%s.%d" % (tag, os.getpid()))
        if os.path.exists(self.path):
            shutil.rmtree(self.path, ignore_errors=True)
        os.makedirs(self.path)
        self.repo = os.path.join(self.path, "repo")
        atexit.register(self.cleanup)
        for sig in (signal.SIGTERM, signal.SIGINT, signal.SIGHUP):
            signal.signal(sig, self._on_signal)
        t0 = time.time()
        subprocess.check_call(
            ["rsync", "-a", "--delete", "--exclude", "/target", "--exclude", "/.git", REPO + "/", self.repo + "/"]
        )
        self.copy_s = time.time() - t0

    def _on_signal(self, signum, frame):
        self.cleanup()
        sys.exit(EXIT_UNDECIDED)

    def cleanup(self):
        if os.environ.get("KONST_VERIF_KEEP"):
            log("[scratch kept at %s]" % self.path)
            return
        shutil.rmtree(self.path, ignore_errors=True)


def _limits(mem_gb):
    def f():
        os.setsid()
        if mem_gb:
            b = int(mem_gb * (1 << 30))
            try:
                resource.setrlimit(resource.RLIMIT_AS, (b, b))
            except Exception:
                pass
    return f


def run(cmd, cwd=None, timeout=None, env=None, mem_gb=None, stdin=None):
    """Run cmd; returns dict(rc, out, err, wall, timed_out).  The whole process group is
    killed on timeout."""
    e = dict(os.environ)
    e.update(OFFLINE_ENV)
    if env:
        e.update(env)
    t0 = time.time()
    p = subprocess.Popen(
        cmd, cwd=cwd, env=e, stdout=subprocess.PIPE, stderr=subprocess.PIPE,
        stdin=subprocess.DEVNULL if stdin is None else subprocess.PIPE,
        preexec_fn=_limits(mem_gb), text=True, errors="replace",
    )
    timed_out = False
    try:
        out, err = p.communicate(input=stdin, timeout=timeout)
    except subprocess.TimeoutExpired:
        timed_out = True
        try:
            os.killpg(p.pid, signal.SIGKILL)
        except Exception:
            pass
        out, err = p.communicate()
    return dict(rc=p.returncode, out=out, err=err, wall=time.time() - t0, timed_out=timed_out)


def load_known_findings():
    p = os.path.join(VERIF, "known_findings.json")
    if not os.path.exists(p):
        return []
    with open(p) as f:
        return json.load(f).get("findings", [])


def match_known(findings, prop, obligation, engine_fn=None):
    """An *open* finding suppresses a violation only when property and obligation match
    (and the site, when the entry names one).  `fixed` entries suppress nothing."""
    for k in findings:
        if k.get("status") != "open":
            continue
        if k.get("property") != prop:
            continue
        if k.get("obligation") != obligation:
            continue
        site = k.get("site")
        if site and engine_fn and site != engine_fn:
            continue
        return k
    return None


def write_json(path, obj):
    os.makedirs(os.path.dirname(path), exist_ok=True)
    tmp = path + ".tmp"
    with open(tmp, "w") as f:
        json.dump(obj, f, indent=1, sort_keys=False)
        f.write("\n")
    os.replace(tmp, path)


def repo_rev():
    r = run(["git", "-C", REPO, "rev-parse", "--short", "HEAD"])
    d = run(["git", "-C", REPO, "status", "--porcelain"])
    return (r["out"].strip() or "?") + ("+dirty" if d["out"].strip() else "")
