"""/verif/bin/check <Cxx> [--tier quick|thorough] | replay <file>"""
import hashlib
import json
import os
import re
import sys
import threading
import time

from . import kani as K
from . import verus as V
from .common import (EXIT_OK, EXIT_UNDECIDED, EXIT_VIOLATION, REPO, VERIF, Scratch, load_known_findings, log,
                     match_known, repo_rev, write_json)
from .props import PROPS, TB_KANI, TB_STD_SPECS, TB_VERUS

NAME_RE = re.compile(r"^(C\d\d|SPEC|LOWER)\.")


def tier_ok(h_tier, tier):
    return h_tier == "quick" or tier == "thorough"


def sanitize(s):
    return re.sub(r"[^A-Za-z0-9_.\-]+", "_", s)[:80]


def write_replay(prop, obligation, payload):
    h = hashlib.sha1(json.dumps(payload, sort_keys=True, default=str).encode()).hexdigest()[:8]
    path = os.path.join(VERIF, "replays", "%s-%s-%s.json" % (prop, sanitize(obligation), h))
    payload = dict(payload)
    payload.update(property=prop, obligation=obligation, repo_rev=repo_rev())
    write_json(path, payload)
    return path


def decide_kani(prop, kh_dir, hs, kr, tier):
    """-> (violations, undecided, units)"""
    violations, undecided, units = [], [], []
    replay_exe = None
    if kr["build_failed"]:
        undecided.append("engine K: harness crate did not build:\n" + kr["raw"][-3000:])
        return violations, undecided, units
    # counterexamples of failing harnesses are fetched up front, a few at a time (each is a separate single-harness Kani run)
    prefetch = {}
    need = []
    for h in hs:
        d = kr["results"].get(h.path)
        if d and d["status"] == "failed" and not d.get("playback") and any(
                "unwinding assertion" not in fc["desc"] and not (h.expect_fail and re.search(h.expect_fail, fc["desc"] + " in " + fc["func"]))
                for fc in d["failed_checks"]):
            need.append(h)
    if need:
        from concurrent.futures import ThreadPoolExecutor
        log("[K] %d failing harness(es); fetching counterexamples (%d at a time)" % (len(need), min(4, len(need))))
        with ThreadPoolExecutor(max_workers=4) as ex:
            for h, t in zip(need, ex.map(lambda hh: K.playback(kh_dir, hh), need)):
                prefetch[h.path] = t
    for h in hs:
        d = kr["results"].get(h.path)
        u = dict(engine="kani", harness=h.name, kind=h.kind, bound=h.bound, tier=h.tier)
        units.append(u)
        if d is None:
            u["status"] = "no-result"
            undecided.append("engine K: no result for %s (%s)" % (h.name, "timeout" if kr["timed_out"] else "crash"))
            continue
        u.update(status=d["status"], checks=d["checks"], failed=d["failed"], unreachable=d["unreachable"],
                 covers_sat=d["covers_sat"], covers_total=d["covers_total"], time_s=d["time_s"])
        if d["status"] not in ("success", "failed"):
            undecided.append("engine K: %s ended with status %s\n%s" % (h.name, d["status"], d["raw"][-1500:]))
            continue
        bad, allowed, unwinding = [], [], []
        for fc in d["failed_checks"]:
            if "unwinding assertion" in fc["desc"]:
                unwinding.append(fc)
            elif h.expect_fail and re.search(h.expect_fail, fc["desc"] + " in " + fc["func"]):
                allowed.append(fc)
            else:
                bad.append(fc)
        u["expected_failures"] = len(allowed)
        if allowed and not bad and not unwinding and d["status"] == "failed":
            u["status"] = "success (only the whitelisted expected panic fired)"
        if h.expect_fail and not allowed and not bad:
            undecided.append("engine K: %s: the expected panic (%s) was not reached - vacuous harness" % (h.name, h.expect_fail))
        if d["status"] == "failed" and not d["failed_checks"]:
            undecided.append("engine K: %s FAILED without a named check\n%s" % (h.name, d["raw"][-1500:]))
            continue
        if unwinding and not bad:
            undecided.append("engine K: %s: unwinding assertion failed (a loop ran past the harness bound) - undecided, not a verdict" % h.name)
            continue
        if not bad:
            if d["covers_sat"] != d["covers_total"]:
                undecided.append("engine K: %s: %d of %d cover witnesses unsatisfied (vacuity guard)" %
                                 (h.name, d["covers_total"] - d["covers_sat"], d["covers_total"]))
            continue
        # genuine failures: fetch a counterexample and replay it natively
        log("[K] %s: %d failing check(s); fetching counterexample" % (h.name, len(bad)))
        tests = d.get("playback") or prefetch.get(h.path) or K.playback(kh_dir, h)
        if replay_exe is None:
            ok, exe, blog = K.build_replay(kh_dir)
            replay_exe = exe if ok else False
            if not ok:
                log("[K] replay binary did not build:\n" + blog)
        seen = set()
        for fc in bad:
            ob = fc["desc"] if NAME_RE.match(fc["desc"]) else "%s:%s@%s:%d" % (h.name, fc["desc"], os.path.basename(fc["file"]), fc["line"])
            if ob in seen:
                continue
            seen.add(ob)
            vals = None
            for (kind, desc), v in tests.items():
                if desc == fc["desc"] and kind != "cover":
                    vals = v
                    break
            rep = None
            if vals is not None and replay_exe:
                rep = K.replay_native(replay_exe, h.name, vals)
            reproduced = bool(rep and (rep["outcome"] in ("failed", "panicked")) and
                              (fc["desc"] in rep["failed"] or not NAME_RE.match(fc["desc"]) or rep["outcome"] == "panicked"))
            violations.append(dict(obligation=ob, engine="kani", harness=h.name, site=fc["func"], location="%s:%d" % (fc["file"], fc["line"]),
                                   values=vals, native_replay=rep, reproduced=reproduced,
                                   verifier_output=d["raw"][-3000:], bound=h.bound, kind=h.kind))
    return violations, undecided, units


def check(prop, tier, seed):
    t0 = time.time()
    cfg = PROPS[prop]
    scratch = Scratch(prop)
    jobs = int(os.environ.get("VERIF_JOBS", "12"))
    kres = {}
    vres = {}

    def do_k():
        if not cfg.get("kani"):
            return
        mods = list(cfg["kani"])
        # compile obligations, in dependency order: module pm (a program family) must build on top of the modules it needs
        for pm, spec in (cfg.get("compile_probes") or {}).items():
            ob, needs = (spec["ob"], spec.get("needs", [])) if isinstance(spec, dict) else (spec, [m for m in mods if m != pm])
            if any(n not in mods for n in needs):
                kres.setdefault("pre_notes", []).append("module %s not built: it needs a module whose compile obligation failed" % pm)
                if pm in mods:
                    mods.remove(pm)
                continue
            ok, errs, other, plog = K.compile_probe(scratch, needs + [pm], pm)
            if ok:
                continue
            # the program family does not build: is it the family itself?  (what it needs must build without it)
            ok_deps, _, _, dlog = K.compile_probe(scratch, needs, pm + "-deps")
            errs = errs + other
            if ok_deps and errs:
                kres.setdefault("pre_violations", []).append(dict(
                    obligation=ob, engine="rustc", harness=pm, site="kani/src/%s.rs" % pm, location=errs[0].split(": error")[0],
                    values=None, native_replay=dict(outcome="does-not-compile", failed=[ob], panic=""), reproduced=True,
                    verifier_output="\n".join(errs[:20]) + "\n...\n" + plog[-2500:], bound="program family in kani/src/%s.rs" % pm, kind="compile"))
                mods.remove(pm)
            else:
                kres.setdefault("pre_undecided", []).append("engine K: compile probe for %s failed outside that module:\n%s" % (pm, plog[-2000:]))
                mods.remove(pm)
        kh_dir, hs = K.prepare(scratch, mods)
        sel = [h for h in hs if tier_ok(h.tier, tier)]
        flt = cfg.get("kani_filter_thorough" if tier == "thorough" else "kani_filter")
        if flt:
            sel = [h for h in hs if re.search(flt, h.name) and (tier == "thorough" or tier_ok(h.tier, tier) or cfg.get("kani_filter_ignores_tier"))]
        kr = K.run_harnesses(kh_dir, sel, jobs=jobs, timeout=7200 if tier == "thorough" else 2400,
                             harness_timeout=3000 if tier == "thorough" else 900)
        kres.update(kh_dir=kh_dir, hs=sel, kr=kr)

    def do_v():
        if not cfg.get("verus"):
            return
        vres.update(V.run_units(scratch, prop, cfg["verus"], tier))

    tk = threading.Thread(target=do_k)
    tv = threading.Thread(target=do_v)
    tk.start(); tv.start(); tk.join(); tv.join()

    violations, undecided, units = [], [], []
    inv = None
    if cfg.get("inventory"):
        from . import inventory as INV
        inv = INV.inventory(scratch.repo)
        if inv["unmapped"]:
            msg = "C01 inventory: %d `unsafe` site(s) without an entry in contracts/C01.sites.json: %s" % (
                len(inv["unmapped"]), "; ".join("%s:%d in %s" % (u["file"], u["line"], u["item"]) for u in inv["unmapped"][:8]))
            log(msg)
            if tier == "thorough":
                undecided.append(msg + " (new unsafe code is not covered by any contract: no verdict)")
    if kres:
        violations += kres.get("pre_violations", [])
        undecided += kres.get("pre_undecided", [])
        v, u, un = decide_kani(prop, kres["kh_dir"], kres["hs"], kres["kr"], tier)
        violations += v; undecided += u; units += un
    if vres:
        violations += vres.get("violations", [])
        undecided += vres.get("undecided", [])
        units += vres.get("units", [])

    # Verus failures without an input: look for one among the Kani violations of the same run
    known = load_known_findings()
    new_violations, known_hits = [], []
    for vi in violations:
        k = match_known(known, prop, vi["obligation"], vi.get("site"))
        if k:
            known_hits.append((k, vi))
        else:
            new_violations.append(vi)

    out_lines = []
    for k, vi in known_hits:
        out_lines.append("KNOWN-FINDING: property=%s %s [%s]" % (prop, k.get("text", ""), vi["obligation"]))
    for vi in new_violations:
        path = write_replay(prop, vi["obligation"], vi)
        vi["replay"] = path
        suffix = "" if vi.get("reproduced") else " no-failing-input-found"
        out_lines.append("VIOLATION property=%s replay=%s%s" % (prop, path, suffix))
        log("  obligation %s (%s %s)%s" % (vi["obligation"], vi["engine"], vi.get("harness") or vi.get("function"), suffix))

    wall = time.time() - t0
    ev = build_evidence(prop, cfg, tier, seed, units, kres, vres, new_violations, known_hits, undecided, wall)
    if inv is not None:
        ev["coverage"]["unsafe_inventory"] = dict(
            sites=inv["sites"], mapped=len(inv["mapped"]), unmapped=[dict(file=u["file"], line=u["line"], item=u["item"]) for u in inv["unmapped"]],
            table=[dict(file=m["file"], item=m["item"], kind=m["kind"], engine=m["engine"], unit=m["unit"], by=m["by"], obligation=m["obligation"]) for m in inv["mapped"]])
    write_json(os.path.join(VERIF, "evidence", prop + ".json"), ev)

    for l in out_lines:
        print(l)
    if new_violations:
        print("RESULT %s: %d violation(s)" % (prop, len(new_violations)))
        return EXIT_VIOLATION
    if undecided:
        for u in undecided:
            log("UNDECIDED: " + u)
        print("RESULT %s: undecided (%d reason(s)); no verdict" % (prop, len(undecided)))
        return EXIT_UNDECIDED
    print("RESULT %s: held on everything explored%s (%s tier, %.0fs)" % (prop, (" apart from %d known finding(s)" % len(known_hits)) if known_hits else "", tier, wall))
    return EXIT_OK


def build_evidence(prop, cfg, tier, seed, units, kres, vres, violations, known_hits, undecided, wall):
    k_units = [u for u in units if u["engine"] == "kani"]
    v_units = [u for u in units if u["engine"] == "verus"]
    proof_k = [u for u in k_units if u["kind"] in ("contract", "complete")]
    bounded_k = [u for u in k_units if u["kind"] == "bounded"]
    usum = (vres or {}).get("unit_summary", [])
    # Verus counts one obligation bundle per exec/proof function it checks (extracted functions + lemmas)
    v_obl = sum(u["verus_verified"] + u["verus_errors"] for u in usum) if usum else sum(1 for u in v_units)
    v_ok = sum(u["verus_verified"] for u in usum) if usum else sum(1 for u in v_units if u.get("status") == "verified")
    pk_obl = sum(u.get("checks", 0) - u.get("unreachable", 0) for u in proof_k)
    pk_ok = sum(u.get("checks", 0) - u.get("unreachable", 0) - max(0, u.get("failed", 0) - u.get("expected_failures", 0)) for u in proof_k)
    b_checks = sum(u.get("checks", 0) for u in bounded_k)
    obligations = v_obl + pk_obl
    discharged = v_ok + pk_ok
    names = sorted(K.obligation_names(cfg.get("kani", []))) if cfg.get("kani") else []
    ran_ok_names = names if not violations else [n for n in names if not any(v["obligation"] == n for v in violations)]
    level = cfg.get("level", "model_checking")
    if level == "proof" and obligations == 0:
        level = "model_checking"
    cmds = []
    if kres:
        cmds.append(kres["kr"]["cmd"])
    if vres:
        cmds += vres.get("cmds", [])
    samples = []
    for u in v_units[:6]:
        samples.append(dict(engine="verus", function=u.get("function"), status=u.get("status"), smt_ms=u.get("smt_ms"), clauses=u.get("clauses")))
    for u in k_units[:8]:
        samples.append(dict(engine="kani", harness=u["harness"], kind=u["kind"], bound=u["bound"], status=u.get("status"),
                            checks=u.get("checks"), covers="%s/%s" % (u.get("covers_sat"), u.get("covers_total"))))
    for n in names[:10]:
        samples.append(dict(obligation=n))
    tb = []
    if k_units:
        tb.append(TB_KANI)
    if v_units:
        tb += [TB_VERUS, TB_STD_SPECS]
    tb += vres.get("trusted", []) if vres else []
    cov = dict(
        obligations=obligations,
        discharged=discharged,
        checker_cmd=" ; ".join(c for c in cmds if c) or "none",
        trusted_base=tb,
        evaluations=sum(u.get("checks", 0) for u in k_units) + v_obl,
        distinct_nontrivial=len(ran_ok_names) + v_ok,
        rule=("evaluations = CBMC checks evaluated in all harnesses of this run + Verus function-level queries; "
              "distinct_nontrivial = distinct named obligations asserted by harnesses that ran to a verdict (each harness carries "
              "cover witnesses that must be SATISFIED) + Verus functions verified"),
        samples=samples,
        functions_under_contract=[dict(function=u.get("function"), engine="verus", status=u.get("status"), smt_ms=u.get("smt_ms"),
                                       clauses=u.get("clauses"), loops=u.get("loops")) for u in v_units] +
                                 [dict(function=u.get("contract_of") or u["harness"], engine="kani-" + u["kind"], status=u.get("status"),
                                       checks=u.get("checks"), time_s=u.get("time_s")) for u in proof_k],
        bounded=[dict(harness=u["harness"], bound=u["bound"], checks=u.get("checks"), failed=u.get("failed"), status=u.get("status"),
                      covers="%s/%s" % (u.get("covers_sat"), u.get("covers_total")), time_s=u.get("time_s")) for u in bounded_k],
        bounded_checks_not_counted_as_proved=b_checks,
        unchecked=cfg.get("unchecked", []),
        vacuity=dict(covers_satisfied=sum(u.get("covers_sat", 0) for u in k_units), covers_total=sum(u.get("covers_total", 0) for u in k_units),
                     verus_probes=(dict(inserted=sum((u.get("vacuity") or {}).get("probes", 0) for u in usum),
                                        failed_as_required=sum((u.get("vacuity") or {}).get("failed_as_required", 0) for u in usum),
                                        rule="`assert(false)` spliced after the preconditions of every extracted function in a second Verus run; every probe must fail")
                                   if usum else None)),
        verus_units=usum,
        k2v_selftest=(vres or {}).get("k2v_selftest"),
        assumption_scan=(vres or {}).get("assumption_scan", []),
        undecided=undecided[:10],
        known_findings=[k.get("text") for k, _ in known_hits],
        violation_obligations=[v["obligation"] for v in violations],
        solver_time_s=dict(kani=sum((u.get("time_s") or 0) for u in k_units), verus_smt_ms=sum((u.get("smt_ms") or 0) for u in v_units)),
        repo_rev=repo_rev(),
        exhaustive=False,
    )
    return dict(property_id=prop, tier=tier, seed=seed, level=level, coverage=cov,
                assumptions=cfg.get("assumptions", []) + tb, wall_s=round(wall, 1), violations=len(violations))


def replay(path):
    d = json.load(open(path))
    prop = d["property"]
    print("replay of %s / %s (recorded at repo %s)" % (prop, d["obligation"], d.get("repo_rev")))
    if d.get("engine") == "kani" and d.get("values") is not None:
        cfg = PROPS[prop]
        scratch = Scratch("replay")
        mods = list(cfg["kani"])
        # modules under a compile obligation that do not build against the current /repo are left out of the replay binary
        for pm, spec in (cfg.get("compile_probes") or {}).items():
            needs = spec.get("needs", []) if isinstance(spec, dict) else [m for m in mods if m != pm]
            if pm not in mods:
                continue
            if any(n not in mods for n in needs) or not K.compile_probe(scratch, needs + [pm], pm)[0]:
                mods.remove(pm)
        kh_dir, hs = K.prepare(scratch, mods)
        ok, exe, blog = K.build_replay(kh_dir)
        if not ok:
            print("replay binary did not build:\n" + blog)
            return EXIT_UNDECIDED
        rep = K.replay_native(exe, d["harness"], d["values"])
        print("native replay against %s: outcome=%s failed=%s panic=%s" % (REPO, rep["outcome"], ",".join(rep["failed"]), rep.get("panic")))
        print("values (one kani::any() draw per entry, little-endian bytes): %s" % d["values"])
        return EXIT_VIOLATION if rep["outcome"] in ("failed", "panicked") else EXIT_OK
    if d.get("engine") == "rustc":
        cfg = PROPS[prop]
        scratch = Scratch("replay")
        pm = d["harness"]
        spec = (cfg.get("compile_probes") or {}).get(pm)
        needs = spec.get("needs", []) if isinstance(spec, dict) else [m for m in cfg["kani"] if m != pm]
        ok, errs, other, plog = K.compile_probe(scratch, needs + [pm], pm)
        errs = errs + other
        print("native `cargo check` of the program family kani/src/%s.rs against %s: %s" % (pm, REPO, "compiles" if ok else "DOES NOT COMPILE"))
        for e in errs[:10]:
            print("  " + e)
        return EXIT_OK if ok else EXIT_VIOLATION
    print("this violation has no concrete input (no-failing-input-found); failed obligation and verifier output:")
    print(d.get("verifier_output", ""))
    print("re-run: /verif/bin/check %s" % prop)
    return EXIT_OK


def main():
    args = sys.argv[1:]
    if not args:
        print(__doc__)
        return 2
    if args[0] == "replay":
        return replay(args[1])
    prop = args[0]
    tier = os.environ.get("VERIF_TIER", "quick")
    if "--tier" in args:
        tier = args[args.index("--tier") + 1]
    if tier not in ("quick", "thorough"):
        tier = "quick"
    seed = int(os.environ.get("VERIF_SEED", "0") or 0)
    if prop not in PROPS:
        print("unknown or unclaimed property %s" % prop)
        return 2
    return check(prop, tier, seed)
