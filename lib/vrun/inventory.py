"""C01: mechanical inventory of `unsafe` tokens in the scratch copy, mapped to the contract unit or
harness that carries the safety obligation of that site (contracts/C01.sites.json)."""
import json
import os
import re

from .common import VERIF

ITEM_RE = re.compile(r"^\s*(?:pub(?:\([^)]*\))?\s+)?(?:const\s+)?(?:unsafe\s+)?(?:fn|macro_rules!)\s+(\w+)")
FN_LINE_RE = re.compile(r"\b(fn|macro_rules!)\s+(\w+)")


def strip_comment(line):
    i = line.find("//")
    return line if i < 0 else line[:i]


def scan(repo):
    sites = []
    for crate in ("konst", "konst_kernel"):
        root = os.path.join(repo, crate, "src")
        for dp, dn, fn in os.walk(root):
            for f in sorted(fn):
                if not f.endswith(".rs"):
                    continue
                p = os.path.join(dp, f)
                rel = os.path.relpath(p, repo)
                if "/tests" in rel or rel.endswith("tests.rs") or "priv_string_tests" in rel:
                    continue
                lines = open(p, errors="replace").read().splitlines()
                cur = None
                for n, raw in enumerate(lines, 1):
                    code = strip_comment(raw)
                    m = FN_LINE_RE.search(code)
                    if m:
                        cur = m.group(2)
                    for um in re.finditer(r"(?<![$\w])unsafe\b", code):
                        if "clippy::" in code or "pub mod __unsafe_utils" in code:
                            continue
                        kind = "unsafe fn" if re.search(r"unsafe\s+fn", code) else "unsafe block"
                        sites.append(dict(file=rel, line=n, item=cur, kind=kind, text=code.strip()[:120]))
    return sites


def inventory(repo):
    table = json.load(open(os.path.join(VERIF, "contracts", "C01.sites.json")))
    sites = scan(repo)
    mapped, unmapped = [], []
    for s in sites:
        ent = table.get(s["file"], {}).get(s["item"] or "")
        if ent is None:
            ent = table.get(s["file"], {}).get("*")
        if ent is None:
            unmapped.append(s)
        else:
            mapped.append(dict(s, **ent))
    return dict(sites=len(sites), mapped=mapped, unmapped=unmapped)
