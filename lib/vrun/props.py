"""Per-property configuration: which harness modules (engine K) and which contract units
(engine V) decide it, and the assumptions that go into the evidence file."""

TB_KANI = "Kani 0.68 / CBMC 6.11 / CaDiCaL; CBMC memory model (no Stacked/Tree Borrows); termination not proved by Kani"
TB_VERUS = "Verus 0.2026.09.13 + Z3; rustc macro expansion (-Zunpretty=expanded, nightly) agrees with the stable compiler; k2v lowering rules (DESIGN 4.2)"
TB_STD_SPECS = "assumed std contracts in /verif/verus/prelude.rs (raw-pointer relational axioms, overflowing_*, from_utf8_unchecked, valid_utf8 bridge)"

PROPS = {
    "C04": dict(
        title="Pattern search finds the same first / last occurrence as std",
        kani=["c04"],
        verus=["c04"],
        level="proof",
        assumptions=[
            "naive first/last-occurrence reference is str::find/rfind (bounded differential harness c04_spec_vs_std, thorough tier)",
            "reverse search with an empty pattern is not specified by the property and not checked",
        ],
    ),
}

NOT_APPLICABLE = {
    "C10": "quantifies over programs (all adapter chains of the iterator DSL); macro_rules! transcribers are not functions and carry no contract; the source iterators' next/next_back are under contract in C08/C09",
    "C17": "the observable is rustc's accept/reject verdict on a program; nothing executes, so there is no pre/postcondition to state",
    "C18": "proc-macro literal decoding (oracle = rustc's lexer, inputs are proc_macro::Literal) and per-invocation generated match arms; the run-time functions an expansion calls (Parser::skip/skip_back) are under contract in C13",
}
