"""Per-property configuration: which harness modules (engine K) and which contract units
(engine V) decide it, and the assumptions that go into the evidence file."""

TB_KANI = "Kani 0.68 / CBMC 6.11 / CaDiCaL; CBMC memory model (no Stacked/Tree Borrows); termination not proved by Kani"
TB_VERUS = "Verus 0.2026.09.13 + Z3; rustc macro expansion (-Zunpretty=expanded, nightly) agrees with the stable compiler; k2v lowering rules (DESIGN 4.2; validated on every run by the k2v self-test on representative shapes, not per extracted function)"
TB_STD_SPECS = "assumed std contracts in /verif/verus/prelude.rs, utf8.rs, pattern.rs (relational raw-pointer axioms, usize::overflowing_sub, slice-length and str invariants, from_utf8_unchecked, the PatternNorm abstraction); every assume_specification / external_body of the verified text is listed by the mechanical assumption_scan"

NOTE_K = ("Kani harnesses run against a byte-identical scratch copy of /repo built as a dependency; bounded harnesses state their bound and are never "
          "counted as proved; reference functions in the harness stand for std and are tied to the real std by SPEC.* harnesses (thorough tier)")
NOTE_V = ("Verus verifies the rustc-expanded text of the real functions after the mechanical lowering of slice patterns (k2v); assumed contracts on "
          "core (raw pointers, overflowing_*, from_utf8_unchecked) are listed in the evidence trusted_base")


def _p(title, kani=None, verus=None, level="model_checking", level_text="", technique="", assumptions=None, unchecked=None, level_note=None):
    return dict(title=title, kani=kani or [], verus=verus or [], level=level, level_text=level_text, technique=technique,
                assumptions=assumptions or [], unchecked=unchecked or [],
                level_note=level_note or (NOTE_V + "; " + NOTE_K if verus else NOTE_K))


PROPS = {
    "C02": _p(
        "Slice indexing and splitting functions agree with std slice indexing",
        kani=["c02"], verus=["c02", "c02m"], level="proof",
        level_text="Verus: slice_from/up_to/range, get, get_from/up_to/range, split_at proved against subrange specs for every slice length and every usize index, "
                   "with the safety preconditions of ptr::offset/from_raw_parts as obligations. The `_mut` twins (get_mut, slice_from/up_to/range_mut, get_from/up_to/range_mut, split_at_mut) are proved the same way against relational specs of as_mut_ptr/offset/from_raw_parts_mut (unit c02m; value-level: which elements the returned &mut slice holds). Zero-sized element types and slices up to usize::MAX long are inside the proofs. Not under Verus (Kani only, bounded in slice length): as_chunks/as_rchunks, try_into_array. Kani: every getter/clamping/_mut/chunk/array-conversion function compared with the real std call by pointer and length, "
                   "loop-free in the indices (all of usize), slice length <= 8, element types u16 and ()",
        technique="Kani harnesses vs real std (complete in indices, bounded in slice length); Verus contracts on the expanded functions when present",
    ),
    "C03": _p(
        "String slicing agrees with std str indexing, including char-boundary rules",
        kani=["c03"], verus=["c03"], level="proof",
        level_text="Verus: boundary predicates == str::is_char_boundary definition (bit-vector lemma for the `as i8 >= -0x40` trick), get_up_to/get_from/get_range == str::get, "
                   "str_up_to/str_from/str_range/split_at return std's sub-string or the clamped one and panic exactly when an in-range index is inside a character "
                   "(two-contract split), from_utf8_unchecked's precondition discharged by the proved cut lemma; for every string and index. Kani: getters == str::get, boundary predicate == str::is_char_boundary, clamping variants return std's sub-string or the clamped one; "
                   "must-panic / must-not-panic pair for indices inside a character; all valid UTF-8 strings <= 6 bytes, all usize indices",
        technique="Kani harnesses vs real std with panic whitelisting; Verus two-contract split (f__ok / f__panics) when present",
    ),
    "C04": _p(
        "Pattern search finds the same first / last occurrence as std",
        kani=["c04"], verus=["c04s"], level="proof",
        level_text="Verus: __bytes_find/__bytes_rfind/__bytes_contain/__bytes_find_skip/_keep/__bytes_rfind_skip/_keep proved to return the first/last occurrence (or absence) "
                   "for every haystack and needle, with termination; the string-level wrappers (find, rfind, contains, rcontains, find_skip/keep, rfind_skip/keep, split_once, rsplit_once) proved over an abstract pattern (L5), including the from_utf8_unchecked precondition via the proved match-cut lemma. Kani (bounded) supplies counterexamples and covers the four concrete pattern kinds: forward/reverse search, contains, skip/keep, split_once against a first/last-occurrence reference, all byte values, hay <= 5, needle <= 3; "
                   "four pattern kinds",
        technique="Kani bounded harnesses against first/last-occurrence reference (tied to str::find/rfind); Verus loop invariants when present",
        assumptions=["naive first/last-occurrence reference is str::find/rfind (SPEC harnesses c04_spec_find_vs_std and c04_spec_rfind_vs_std, thorough tier)",
                     "reverse search with an empty pattern is not specified by the property and not checked"],
    ),
    "C05": _p(
        "Prefix/suffix tests, stripping and trimming agree with std",
        kani=["c05"], verus=["c05s"], level="proof",
        level_text="Verus: __bytes_strip_prefix/suffix, start_with/end_with, bytes_trim/_start/_end (== maximal ASCII-whitespace runs, lemma-characterised), "
                   "__bytes_trim_start_matches/_end_matches/_matches (== maximal whole repetitions) proved for every input; the string-level wrappers (starts_with, ends_with, strip_prefix/suffix, trim*, trim_*matches) proved over an abstract pattern (L5) including from_utf8_unchecked preconditions. Kani (bounded) supplies counterexamples, compares with the real trim_ascii*, and covers the four concrete pattern kinds: starts/ends/strip vs prefix reference, whitespace trims vs <[u8]>::trim_ascii*, trim_*_matches vs maximal-whole-repetitions reference; all byte values, input <= 6-7 bytes",
        technique="Kani bounded harnesses vs real std trim_ascii* and reference; Verus loop invariants when present",
        assumptions=["two-sided trim_matches with an overlapping needle may remove the run from either end first; both orders are accepted"],
    ),
    "C08": _p(
        "Slice iterators behave like std's double-ended slice iterators",
        kani=["c08"], verus=["c08"], level="proof",
        level_text="Verus: one-step contracts (next/next_back/rev/copy/remainder, constructors, must-panic on size 0) of Windows, Chunks, RChunks, ChunksExact, RChunksExact, ArrayChunks and their Rev twins "
                   "against std's step functions (restated from core::slice::iter), generic in T, every length and size; induction over steps gives every interleaving. "
                   "The element iterators iter/iter_copied (Iter, IterRev, IterCopied, IterCopiedRev: next/next_back/rev/copy/as_slice) are in the same unit; the as_chunks/array_chunks pointer cast is Kani-only. Kani: lock-step walks against the real core::slice iterators, len <= 6 (thorough 8), u8 and ()",
        technique="Verus one-step contracts on the extracted iterator methods + Kani lock-step bisimulation with the real std iterators (bounded)",
        assumptions=["std's iterator step functions are restated as spec functions; the Kani lock-step harnesses tie them to the real iterators (bounded)"],
    ),
    "C12": _p(
        "Integer/bool parsing accepts std's language and returns the same value",
        kani=["c12"], verus=["c12"], level="proof",
        level_text="Verus: the 12 Parser::parse_<int> expansions, parse_bool, Parser::new/is_empty and the 13 primitive::parse_* whole-string wrappers proved against a digit-run specification "
                   "(optional '-', longest run of ASCII digits, value fits the type, nothing consumed on failure, offsets advanced by exactly the consumed bytes) for every string; "
                   "Kani compares with the real str::parse on all valid strings <= 4 bytes (8-bit types) and on MIN/MAX neighbourhoods",
        technique="Verus loop invariants (digits_val/digits_len) on the extracted parse_integer! expansions + Kani differential harnesses vs str::parse",
        assumptions=["Parser offsets are u32: start_offset + remainder length <= u32::MAX is a precondition (parser_inv)",
                     "the digit-run specification is str::parse's language minus a leading '+' (Kani SPEC harnesses against the real str::parse, bounded)"],
    ),
    "C20": dict(_p(
        "Concatenation/join macros and CStr conversions equal their std counterparts",
        kani=["c20", "c20m"], verus=["c20", "c20b", "c20s"], level="proof",
        level_text="Verus: from_bytes_until_nul(_inner)/from_bytes_with_nul succeed exactly when a nul exists / the first nul is last and discharge CStr::from_bytes_with_nul_unchecked's precondition; "
                   "slice concat kernels (concat_sum_lengths, concat_slices) equal <[&[T]]>::concat; the str_concat!/str_join! kernels (concat_sum_lengths, concat_strs, join_sum_lengths, join_strs over &[&str] / &[char] pieces and str / char separators, unit c20s) compute the total length and write exactly the concatenation / the join of the pieces' UTF-8 encodings, with the char encoder itself proved (unit c07e). CStr->bytes/str pointer walks and constant macro instances: Kani (bounded)",
        technique="Verus contracts on CStr constructors, slice-concat and string concat/join kernels; Kani bounded harnesses vs real CStr / concat / join",
        unchecked=["string::from_iter! rides on the iterator DSL (C10, not applicable) and is not covered",
                   "the macro glue (const LEN / const CONC evaluation) is rustc's const evaluation; constant instances (kani/src/c20m.rs: str_concat!/str_join!/slice_concat! incl. multi-byte char separators and empty pieces) are under a compile obligation - they are const-evaluated when the module builds, so a kernel that writes past its LEN-byte buffer or produces invalid UTF-8 stops the module from compiling, which is reported as a violation when the rest of the harness crate still builds"],
    ), compile_probes={"c20m": dict(ob="C20.macro_instances.const_evaluate_and_compile", needs=[])}),
    "C11": _p(
        "Array-building macros return fully initialised arrays equal to std's",
        kani=["c11"], level="model_checking",
        level_text="Kani (bounded, N <= 3): array::map!/map_!/from_fn!/from_fn_! with a most-general closure (symbolic value / break / break 'outer / return / continue per call): "
                   "a produced array has every element equal to the closure's value for that index (nondeterministic uninitialised memory makes an unwritten slot fail), the guard asserts fire on early exits, "
                   "equality with <[T;N]>::map / core::array::from_fn; ArrayBuilder from every reachable state (push/len/as_slice/clone/build, over- and under-filling panic); collect_const! on constant chains",
        technique="Kani bounded harnesses with a most-general client closure; expected-panic whitelisting (not a deductive proof: MaybeUninit arrays and macro-inlined closures are outside Verus)",
        assumptions=["N <= 3; element types u8/u16", "collect_const! evaluates in const items: only constant instance programs can be exercised"],
        unchecked=["panicking closures (Kani ends the path at a panic)", "the space of programs beyond control-flow exits of the closure"],
    ),
    "C15": _p(
        "By-value array and aggregate APIs move out every element exactly once",
        kani=["c15"], level="model_checking",
        level_text="Kani (bounded, N <= 3): drop ledger as ghost state over ArrayConsumer (next/next_back/as_slice/clone/early drop), ArrayBuilder (push/clone/build/drop), array::map_! and 30 destructure! pattern shapes: "
                   "every id handed over or dropped exactly once on completing paths, at most once on early exits, payloads unchanged and in order",
        technique="Kani bounded harnesses with a drop-ledger ghost state (not a deductive proof: ManuallyDrop/ptr::read code is outside Verus)",
        assumptions=["N <= 3, op sequences <= N+2", "alignment UB (read vs read_unaligned on packed fields) is invisible to Kani"],
        unchecked=["leak-on-panic paths (Kani cannot observe state after a panic)"],
    ),
    "C16": _p(
        "Comparison functions and macros agree with std equality and ordering",
        kani=["c16"], verus=["c16"], level="proof",
        level_text="Verus: eq_str/cmp_str, eq_bytes/cmp_bytes and the typed eq_slice_*/cmp_slice_* (12 integer types, char; eq only for bool) proved equal to sequence equality / lexicographic order "
                   "(first differing element, then length) for every pair of slices; the nested comparisons eq_slice_str/cmp_slice_str/eq_slice_bytes/cmp_slice_bytes against the two-level lexicographic order (lex_cmp2). Kani complete harnesses (loop-free, full domain): cmp_<int> x12, bool, char, Ordering, Option, NonZero x12, ranges, impl_cmp!, "
                   "const_eq!/const_cmp! dispatch; Kani bounded: nested slices (also under Verus), const_eq_for!/const_cmp_for!, assertc_* (panic side on concrete pairs)",
        technique="Verus loop invariants against a lexicographic spec (common-prefix length) + Kani complete harnesses for scalars/Option/NonZero/ranges + bounded harnesses for nested slices and macros",
        assumptions=["lex_cmp (first differing element decides, then length) is <[T] as Ord>::cmp (Kani SPEC harnesses c16_spec_* against the real std, bounded)",
                     "Kani 0.68 mis-encodes < and > on symbolic bool operands: bool inputs are enumerated concretely"],
        unchecked=["assertc_eq!/assertc_ne! panic side with symbolic operands (message formatting does not terminate in CBMC): 4 concrete pairs per macro",
                   "cmp_slice_bool under Verus (internal error on `l > r` for bools): Kani only"],
    ),
    "C07": _p(
        "Char iteration and char<->UTF-8/u32 conversions agree with std",
        kani=["c07"], verus=["c07", "c07e"], level="proof",
        level_text="Kani function contracts (proof_for_contract, full domain): chr::from_u32 == char::from_u32 for every u32, chr::encode_utf8 == char::encode_utf8 for every char; complete harness: decode(encode(c)) == c through all four char iterators for every char. "
                   "Verus (unit c07e): encode_utf8 writes the standard encoding (Unicode Table 3-6 in div/mod form, bit-vector lemmas) which is well-formed (Table 3-7), so Utf8Encoded::as_str's from_utf8_unchecked is allowed; the decoder string_to_usv/string_to_char returns, for every single well-formed sequence, the scalar value whose encoding is that sequence (so the transmute to char is allowed); from_u32 succeeds exactly on scalar values. Verus (unit c07): __find_next/prev_char_boundary and one-step contracts of Chars/RChars/CharIndices/RCharIndices next/next_back (remaining string, byte offsets, split on char boundaries) for every valid string; "
                   "Kani bounded: lock-step with core::str::Chars/CharIndices, strings <= 5 bytes, 4 symbolic front/back steps",
        technique="Kani function contracts + complete harnesses (all chars / all u32) for conversions; Verus one-step contracts for iteration; bounded Kani lock-step vs real std iterators",
        assumptions=["char_bytes (Table 3-6 in arithmetic form) is char::encode_utf8: tied to the real std for every char by the Kani contract harness on encode_utf8 (complete)", "from_u32_unchecked (transmute) is assumed with its safety contract"],
    ),
    "C09": _p(
        "Range iteration yields exactly the values std ranges yield",
        kani=["c09"], level="proof",
        level_text="Kani complete harnesses (loop-free, full domain of start/end): for each of the 13 Step types (6 quick, 7 thorough) and each of start..end, start..=end, start.. (owned and borrowed, forward and .rev()): "
                   "one step of symbolic direction yields std's item and a successor state that behaves like std's successor under both next and next_back - an inductive bisimulation covering every history; "
                   "char ranges cross the surrogate gap (cover witnesses). Bounded: 4-step mixed walks; konst::for_range! against std for the first six iterations of every (start,end) pair (u8, i8, usize, i128); thorough: whole for_each! iteration over all u8/i8 pairs",
        technique="Kani complete (loop-free, full-domain) one-step bisimulation harnesses against core::ops::Range* (typewit Step dispatch is outside Verus)",
        assumptions=["RangeFrom is checked under start < MAX (konst and std both overflow there)",
                     "iterator fields are private: successor states are compared by behaviour (next and next_back on copies), which determines a range state up to emptiness"],
    ),
    "C13": _p(
        "Parser positions always describe where its remainder sits in the original string",
        kani=["c13"], verus=["c13"], level="proof",
        level_text="Verus: every Parser operation (new/with_start_offset, trim*, trim_*matches, strip_prefix/suffix, find_skip/rfind_skip, skip/skip_back, split/rsplit/split_terminator/rsplit_terminator/split_keep, "
                   "parse_<int> x12, parse_bool) satisfies the one-step relational invariant `narrowed`: the new remainder is the old remainder cut to [a,b), start_offset moved by exactly a, a and b char boundaries; "
                   "errors carry the start (from-start ops) or end (from-end ops) offset and the matching direction, and ParseError::offset/error_direction/kind report them. The induction over operation sequences is machine-checked: every operation's contract implies `parser_step`, and lemma_anchored_history proves that along ANY sequence of steps from Parser::new/with_start_offset the remainder is original[start_offset-base .. end_offset-base] with both ends on char boundaries of the original. "
                   "Kani: the same invariant by pointer arithmetic from an arbitrary base offset, strings <= 5-6 bytes",
        technique="Verus one-step relational contracts on the extracted Parser methods + a proved induction lemma over histories + Kani bounded pointer-offset harnesses",
        assumptions=["Parser offsets are u32: start_offset + remainder length <= u32::MAX is a precondition of every method (parser_inv)",
                     "patterns are abstract (L5): pattern_bytes(p) is the valid UTF-8 encoding of the pattern"],
    ),
    "C14": _p(
        "Parser operations transform the remainder exactly like the string functions",
        kani=["c14"], verus=["c13"], level="proof",
        level_text="Verus: each Parser operation's postcondition states the remainder in the vocabulary of the string functions it mirrors (is_prefix/is_suffix, ws_start/ws_end/trim_ws, reps_start/reps_end/trim_reps, "
                   "first/last occurrence, digit-run parse) and succeeds exactly when that function finds something; the split protocol is a state machine over yielded_last_split "
                   "(piece before the first delimiter and flag cleared / whole remainder and flag set / SplitExhausted); lemma_split_protocol / lemma_rsplit_protocol prove by induction that ANY run of successful split (rsplit) calls yields a prefix of str::split's (str::rsplit's) sequence and that the flag is set exactly when the whole sequence has been yielded. Kani: one-step equivalence with the free functions and whole split sequences, bounded",
        technique="Verus one-step contracts tying Parser methods to the string-function specs + Kani bounded equivalence and split-protocol harnesses",
        assumptions=["split_seq / rsplit_seq (piece before the first / after the last occurrence, then recursively) are str::split / str::rsplit for a non-empty pattern; Kani checks whole sequences against the real std for bounded strings", "term_seq / rterm_seq (each piece followed / preceded by a delimiter) state the terminator protocols; lemma_term_protocol / lemma_rterm_protocol are the proved inductions, lemma_term_seq_empty ties exhaustion to the Err branch of the contract"],
    ),
    "C01": dict(_p(
        "Safe API never triggers UB; results stay inside the input and are valid UTF-8",
        kani=["c01", "c02", "c07", "c11", "c15", "c20"], verus=["c04s", "c05s", "c20", "c07", "c02m", "c20s"], level="proof",
        level_text="Every `unsafe` token of konst/konst_kernel is inventoried on each run (66 today) and mapped to the contract unit or harness that carries its safety obligation (contracts/C01.sites.json, copied into the evidence). "
                   "Verus (unbounded): preconditions of ptr::offset / slice::from_raw_parts(_mut) (results inside the argument's allocation) for the shared slice kernel and its `_mut` twins; the encoder/decoder pair behind Utf8Encoded::as_str and string_to_char (from_utf8_unchecked / transmute to char); precondition of from_utf8_unchecked at all 20 string sites "
                   "via the proved cut / match-cut / ascii-prefix / repetition lemmas, with postconditions `result bytes == sub-range of the argument` on char boundaries; CStr::from_bytes_with_nul_unchecked's precondition. "
                   "Kani complete: char transmutes and from_u32_unchecked (all u32 / all chars), ManuallyDrop/MaybeUninit/NonNull casts. Kani bounded: _mut slice variants, as_chunks, try_into_array, MaybeUninit arrays, "
                   "ArrayBuilder/ArrayConsumer, destructure!, the CStr pointer walk",
        technique="unsafe-site inventory + Verus safety preconditions on assumed std contracts (relational raw-pointer axioms, from_utf8_unchecked) + Kani pointer/validity checks for the sites outside Verus",
        assumptions=["aliasing models (Stacked/Tree Borrows) are not checked by either engine", "const-evaluation-only restrictions are not modelled (both engines reason about the MIR semantics shared with run time)",
                     "alignment UB is invisible to Kani", "exported `unsafe fn`s (ptr::as_ref, manually_drop::take, assume_init_mut, from_u32_unchecked, array_assume_init) are outside `safe public function`"],
        unchecked=["macro forms not enumerated by the C11/C15 harness families",
                   "panic safety: what happens while unwinding out of a panicking user closure or Clone/Drop impl (Kani ends a path at the panic and never runs the unwinding destructors; seeded change C01-3 - a Clone impl that claims its slots initialised before writing them - is therefore invisible)",
                   "build configurations other than the features rust_1_83+parsing+cmp+iter (e.g. the extra assertions of the `debug` feature)"],
    ), inventory=True,
       kani_filter="^(c01_|c02_mut_|c02_chunks_|c02_try_into_array|c02_zst|c07_contract_|c07_decode_encode_id$|c07_encode_utf8$|c07_from_u32$|c11_(?!collect_const_zip_rev_unequal_len$|collect_const_take_rev$)|c15_|c20_cstr)",
       kani_filter_thorough="^(c01_|c02_mut_|c02_chunks_|c02_try_into_array|c02_zst|c07_contract_|c07_decode_encode_id$|c07_encode_utf8$|c07_from_u32$|c11_(?!collect_const_zip_rev_unequal_len$|collect_const_take_rev$)|c15_|c20_cstr)"),
    "C19": dict(_p(
        "Option/Result, rebind and min/max macros equal their std/`?` counterparts",
        kani=["c19", "c19r"], verus=["c19"], level="proof",
        level_text="Verus: every arm of the option::/result:: macros (closure-literal and function-path forms; 30 arms), try_! and try_opt!, as functions generic in the payload types (probe wrappers expanded by rustc), "
                   "against std's method of the same name, with the call discipline expressed through closure specs (the fallback may be called only on the variant where std calls it). "
                   "Kani complete harnesses (loop-free, full u8 domains): the same macros with call counters, rebind_if_ok!/try_rebind! for arities 1..=6 (arity 1-2 all position mixes; 3: all 4^3; 4-6: uniform/one-hot rows; "
                   "compile obligations: the program families of c19r.rs (arities >= 3) and c19.rs (every macro form used by the harnesses, incl. `_`, `let x: T` and place components at arity 1-2) must compile - a form the macros stop accepting is reported as a violation, provided the rest of the harness crate still builds), min!/max!/_by/_by_key with tagged pairs incl. ties",
        technique="Verus contracts with closure specs on rustc-expanded probe wrappers + Kani complete harnesses (call counters, tagged pairs) + a compile obligation for the rebind program family",
        assumptions=["probe wrappers are one macro call each (/verif/probes/src/lib.rs)", "result::unwrap_err_or_else has no std method: the reference is the mirror of unwrap_or_else"],
    ), compile_probes={"c19": dict(ob="C19.macro_forms.arity1_2_and_option_result.compile", needs=[]),
                      "c19r": dict(ob="C19.rebind.arity3_to_6.compiles", needs=["c19"])}),
    "C06": _p(
        "String split iterators yield exactly the pieces std's split family yields",
        kani=["c06"], verus=["c06"], level="proof",
        level_text="Verus: one-step contracts of Split/RSplit (next, next_back, rev, copy, remainder, both empty-delimiter states) and SplitTerminator/RSplitTerminator (next, remainder), constructors: "
                   "each step yields the piece before the first (after the last) delimiter and continues on the rest, the last piece is the whole remainder, an exhausted remainder ends a terminator iteration, "
                   "an empty delimiter yields one character per step; the remainder accessor is the not-yet-split part; lemma_split_steps / lemma_rsplit_steps prove by induction that any run of forward (backward) steps yields a prefix of str::split's (str::rsplit's) sequence and finishes exactly at its end. "
                   "Kani: whole iterations step by step against a reference split sequence (tied to str::split with char/closure patterns), strings <= 4 bytes",
        technique="Verus one-step contracts on the extracted iterator methods (typewit pattern abstracted, L5) + Kani bounded whole-sequence harnesses",
        assumptions=["split_seq / rsplit_seq are str::split / str::rsplit for a non-empty pattern (Kani checks whole sequences against the real std for bounded strings); the terminator iterators have their own proved inductions (lemma_tsplit_steps / lemma_rtsplit_steps) and lemma_tsplit_seq / lemma_rtsplit_seq prove that their sequences are the split / rsplit sequences minus a trailing empty piece (the std definition of split_terminator and the documented mirrored rule); the empty-delimiter sequences are one-step contracts only",
                     "std's &str searcher (Two-Way) is too heavy for CBMC: the reference is tied to std through char and closure patterns"],
        unchecked=["mixing next and next_back on one Split with an empty delimiter (the statement only speaks of reversal)"],
    ),
}

NOT_APPLICABLE = {
    "C10": "quantifies over programs (all adapter chains of the iterator DSL); macro_rules! transcribers are not functions and carry no contract; the source iterators' next/next_back are under contract in C08/C09",
    "C17": "the observable is rustc's accept/reject verdict on a program; nothing executes, so there is no pre/postcondition to state",
    "C18": "proc-macro literal decoding (oracle = rustc's lexer, inputs are proc_macro::Literal) and per-invocation generated match arms; the run-time functions an expansion calls (Parser::skip/skip_back) are under contract in C13",
}

# properties whose check is not built yet (listed under not_applicable until it is)
PENDING = {
}
