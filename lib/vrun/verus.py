"""Engine V: Verus on rustc-expanded, mechanically lowered real functions.

  scratch copy of /repo --(cargo +nightly rustc -Zunpretty=expanded)--> konst.exp.rs, konst_kernel.exp.rs
  --(tools/k2v: select + lower + markers)--> items --(splice contracts/<unit>.vc at the markers)--> <unit>.rs
  --(verus --output-json --time -- --error-format=json)--> per-function verdicts
"""
import json
import os
import re
import threading

from .common import VERIF, log, run

K2V = os.path.join(VERIF, "tools", "k2v", "target", "release", "k2v")
# dev override (bin/vdev only): alternative verus/ and contracts/ directories
VERUS_DIR = os.environ.get("KONST_VERIF_VERUS_DIR", os.path.join(VERIF, "verus"))
CONTRACTS_DIR = os.environ.get("KONST_VERIF_CONTRACTS_DIR", os.path.join(VERIF, "contracts"))
PRELUDE = os.path.join(VERUS_DIR, "prelude.rs")

_expand_lock = threading.Lock()

FAIL_MSGS = (
    "postcondition not satisfied",
    "precondition not satisfied",
    "invariant not satisfied",
    "assertion failed",
    "possible arithmetic underflow/overflow",
    "possible division by zero",
    "decreases not satisfied",
    "could not prove termination",
    "possible bit shift underflow/overflow",
    "loop invariant not satisfied",
    "unreachable code might be reached",
    "cannot show invariant holds",
    "index out of bounds",
    "possible truncation",
    "fails to satisfy `callee.requires",      # precondition of a closure / fn-pointer call (closure specs, C19)
)


def ensure_k2v():
    if os.path.exists(K2V):
        return True, ""
    r = run(["cargo", "build", "--release", "--offline"], cwd=os.path.join(VERIF, "tools", "k2v"), timeout=900)
    return os.path.exists(K2V), (r["out"] + r["err"])[-2000:]


def expand(scratch):
    """rustc's own macro expansion of both crates of the scratch copy (cached per scratch)"""
    with _expand_lock:
        out = {}
        errs = []
        for crate, feats in (("konst", "rust_1_83"), ("konst_kernel", "rust_1_83,iter,__for_konst")):
            dst = os.path.join(scratch.path, crate + ".exp.rs")
            if not os.path.exists(dst):
                r = run(["cargo", "+nightly", "rustc", "-p", crate, "--lib", "--offline", "--features", feats, "--", "-Zunpretty=expanded"],
                        cwd=scratch.repo, timeout=900, env={"CARGO_TARGET_DIR": os.path.join(scratch.path, "exp-target")})
                if r["rc"] != 0 or not r["out"].strip():
                    errs.append("%s: rustc expansion failed:\n%s" % (crate, r["err"][-3000:]))
                    continue
                open(dst, "w").write(r["out"])
            out[crate] = dst
        # probe crate: thin generic wrappers around konst's user-facing macros (expanded by rustc as defined in the copy)
        psrc = os.path.join(VERIF, "probes")
        if os.path.isdir(psrc):
            import shutil
            pdst = os.path.join(scratch.path, "probes")
            dst = os.path.join(scratch.path, "probes.exp.rs")
            if not os.path.exists(dst):
                if os.path.exists(pdst):
                    shutil.rmtree(pdst)
                shutil.copytree(psrc, pdst, ignore=shutil.ignore_patterns("target", "Cargo.lock"))
                lock = os.path.join(scratch.repo, "Cargo.lock")
                if os.path.exists(lock):
                    shutil.copy(lock, os.path.join(pdst, "Cargo.lock"))
                r = run(["cargo", "+nightly", "rustc", "--lib", "--offline", "--", "-Zunpretty=expanded"], cwd=pdst, timeout=900,
                        env={"CARGO_TARGET_DIR": os.path.join(scratch.path, "exp-target")})
                if r["rc"] != 0 or not r["out"].strip():
                    # a wrapper that does not compile is reported by the unit that needs it (anchor lost), not here
                    errs_probe = r["err"][-3000:]
                    open(os.path.join(scratch.path, "probes.err"), "w").write(errs_probe)
                else:
                    open(dst, "w").write(r["out"])
            if os.path.exists(dst):
                out["probes"] = dst
        return out, errs


DIRECTIVE = re.compile(r"^%(\w+)\s*(.*)$")


def parse_vc(path, _seen=None):
    """contract unit file -> dict(req, prelude, items{name: {spec, body_start, loops{k:{spec,body_start,body_end,after}}}}, trusted, probes)"""
    _seen = _seen if _seen is not None else set()
    vc = dict(req=[], prelude=[], items={}, trusted=[], probes=[], order=[], uses=[])
    cur = None   # (list to append lines to)
    item = None
    for raw in open(path).read().splitlines():
        m = DIRECTIVE.match(raw)
        if m and m.group(1) == "rlimit":
            vc["rlimit"] = int(m.group(2).strip())
            continue
        if m and m.group(1) == "use":
            vc["uses"].append("use " + m.group(2).strip().rstrip(";") + ";")
            continue
        if m and m.group(1) == "import":
            uname = m.group(2).strip()
            if uname in _seen:
                continue
            _seen.add(uname)
            sub = parse_vc(os.path.join(CONTRACTS_DIR, uname + ".vc"), _seen)
            vc["req"] += [r for r in sub["req"] if r not in vc["req"]]
            vc["prelude"] += sub["prelude"]
            for k, v in sub["items"].items():
                v["imported_from"] = m.group(2).strip()
                vc["items"].setdefault(k, v)
            vc["trusted"] += sub["trusted"]
            vc["uses"] += [u for u in sub["uses"] if u not in vc["uses"]]
            cur = None
            continue
        if m and m.group(1) in ("req", "prelude", "fn", "method", "body_start", "body_end", "loop", "trusted", "probe", "end", "attr"):
            d, arg = m.group(1), m.group(2).strip()
            if d == "req":
                cur = vc["req"]
            elif d == "prelude":
                cur = vc["prelude"]
            elif d == "trusted":
                cur = vc["trusted"]
            elif d == "probe":
                vc["probes"].append(arg)
                cur = None
            elif d in ("fn", "method"):
                item = dict(kind=d, name=arg, spec=[], body_start=[], body_end=[], loops={}, attrs=[])
                vc["items"][arg] = item
                vc["order"].append(arg)
                cur = item["spec"]
            elif d == "attr":
                item["attrs"].append(arg)
                cur = item["spec"]
            elif d == "body_start":
                cur = item["body_start"]
            elif d == "body_end":
                cur = item["body_end"]
            elif d == "loop":
                parts = arg.split()
                k = int(parts[0])
                lp = item["loops"].setdefault(k, dict(spec=[], body_start=[], body_end=[], after=[]))
                cur = lp[parts[1]] if len(parts) > 1 else lp["spec"]
            elif d == "end":
                cur = None
            continue
        if cur is not None:
            if cur is vc["req"] or cur is vc["trusted"]:
                line = raw.split("#")[0].strip() if cur is vc["req"] else raw.strip()
                if line:
                    cur.append(line)
            else:
                cur.append(raw)
    return vc


def clause_count(lines):
    """rough count of contract clauses (for the evidence): top-level commas/keywords"""
    text = "\n".join(lines)
    return len(re.findall(r"\b(requires|ensures|invariant|decreases|assert|returns)\b", text)) + text.count(",\n")


VACUITY_TAG = "K2V_VACUITY_PROBE"


def splice_fn(text, item, name, problems, probe=False):
    """replace the markers of ONE function's text (probe: an `assert(false)` right after the preconditions — it must FAIL)"""
    loops_present = set(int(x) for x in re.findall(r"__K2V_LOOP_(\d+)_SPEC__", text))
    if item is None:
        item = dict(spec=[], body_start=[], body_end=[], loops={})
    for k in item["loops"]:
        if k not in loops_present:
            problems.append("%s: contract names loop %d but the extracted function has loops %s (anchor lost)" % (name, k, sorted(loops_present)))
    for k, lp in item["loops"].items():
        if k in loops_present:
            for part, mk in (("body_start", "__K2V_LOOP_%d_BODY_START_S__;"), ("body_end", "__K2V_LOOP_%d_BODY_END_S__;"), ("after", "__K2V_LOOP_%d_AFTER_S__;")):
                if lp[part] and (mk % k) not in text:
                    problems.append("%s: contract has a `%%loop %d %s` hint but the extracted function has no such anchor (anchor lost)" % (name, k, part))
    if item.get("body_end") and "__K2V_BODY_END_S__;" not in text:
        problems.append("%s: contract has a %%body_end hint but the extracted function has no such anchor (unit-typed tail; anchor lost)" % name)
    text = text.replace("__K2V_SPEC__", "\n" + "\n".join(item["spec"]) + "\n" if item["spec"] else "")
    if item.get("attrs"):
        text = text.replace("#[verifier ::loop_isolation(false)]", " ".join(item["attrs"]) + " #[verifier ::loop_isolation(false)]", 1)
    text = text.replace("__K2V_BODY_START_S__;", "\n".join(item["body_start"] + (["proof { assert(false); } // " + VACUITY_TAG] if probe else [])))
    text = text.replace("__K2V_BODY_END_S__;", "\n".join(item.get("body_end", [])))
    for k in loops_present:
        lp = item["loops"].get(k, dict(spec=[], body_start=[], body_end=[], after=[]))
        text = text.replace("__K2V_LOOP_%d_SPEC__" % k, ("\n" + "\n".join(lp["spec"]) + "\n") if lp["spec"] else "")
        text = text.replace("__K2V_LOOP_%d_BODY_START_S__;" % k, "\n".join(lp["body_start"]))
        text = text.replace("__K2V_LOOP_%d_BODY_END_S__;" % k, "\n".join(lp["body_end"]))
        text = text.replace("__K2V_LOOP_%d_AFTER_S__;" % k, "\n".join(lp["after"]) if lp["after"] else ";")
    return text, len(loops_present)


ITEM_RE = re.compile(r"//@@ITEM (\w+) (\S+)(?: (\S+))?\n(.*?)//@@END\n", re.S)
METHOD_TAG = re.compile(r"__K2V_METHOD_(\d+)_(\w+?)__")


def assemble(k2v_out, vc, unit, probe=False):
    """-> (file text, fn_lines: [(first_line, last_line, fn name)], problems, info per fn)"""
    problems = []
    parts = []
    info = {}
    seen = set()
    for m in ITEM_RE.finditer(k2v_out):
        kind, path, alias, body = m.group(1), m.group(2), m.group(3), m.group(4)
        if kind == "fn":
            name = alias or path.rsplit("::", 1)[-1]
            item = vc["items"].get(name)
            seen.add(name)
            text, nloops = splice_fn(body, item, name, problems, probe)
            parts.append((name, text))
            info[name] = dict(path=path, loops=nloops, clauses=clause_count(item["spec"] + sum([l["spec"] for l in item["loops"].values()], [])) if item else 0,
                              has_contract=bool(item and item["spec"]))
        elif kind == "impl":
            ty = path.rsplit("::", 1)[-1]
            ordinal = (alias or "#0").lstrip("#")
            # split the impl body at method tags
            pieces = METHOD_TAG.split(body)
            # pieces: [head, k, name, text, k, name, text, ...]
            head = pieces[0]
            out = [head]
            names = []
            for i in range(1, len(pieces), 3):
                k, mname, mtext = pieces[i], pieces[i + 1], pieces[i + 2]
                key = "%s#%s::%s" % (ty, k, mname)
                alt = "%s::%s" % (ty, mname)
                item = vc["items"].get(key) or vc["items"].get(alt)
                used = key if key in vc["items"] else alt
                seen.add(used)
                t, nloops = splice_fn(mtext, item, key, problems, probe)
                out.append("\n//@@FN %s\n" % key)
                out.append(t)
                names.append(key)
                info[key] = dict(path=path, loops=nloops, clauses=clause_count(item["spec"]) if item else 0, has_contract=bool(item and item["spec"]))
            parts.append(("impl " + ty, "".join(out)))
        else:
            parts.append(("type " + path, body))
    for name in vc["items"]:
        if name not in seen:
            problems.append("contract for `%s` has no extracted function (anchor lost: renamed or removed in /repo?)" % name)
    prelude = open(PRELUDE).read() + "\n" + open(os.path.join(VERUS_DIR, "utf8.rs")).read() + "\n" + open(os.path.join(VERUS_DIR, "pattern.rs")).read()
    lines = []
    lines += ["// generated by /verif/lib/vrun/verus.py for unit %s — do not edit" % unit,
              "#![allow(unused_imports, unused_variables, unused_mut, unused_assignments, dead_code, unused_parens, unused_braces, unreachable_code, non_snake_case)]",
              "use vstd::prelude::*;", "use vstd::slice::*;", "use vstd::string::*;"] + vc["uses"] + ["", "verus! {", ""]
    lines += prelude.splitlines()
    lines += ["", "// ---- unit prelude (" + unit + ".vc) ----"] + vc["prelude"] + [""]
    fn_lines = []
    for name, text in parts:
        start = len(lines) + 1
        tl = text.splitlines()
        # methods inside impl blocks carry //@@FN tags for line attribution
        cur_name, cur_start = name, start
        for j, l in enumerate(tl):
            mt = re.match(r"//@@FN (\S+)", l.strip())
            if mt:
                fn_lines.append((cur_start, start + j - 1, cur_name))
                cur_name, cur_start = mt.group(1), start + j
        lines += tl
        fn_lines.append((cur_start, len(lines), cur_name))
        lines.append("")
    lines += ["} // verus!", "fn main() {}", ""]
    return "\n".join(lines), fn_lines, problems, info


def fn_at(fn_lines, line):
    for a, b, n in fn_lines:
        if a <= line <= b:
            return n
    return None


def slug(s):
    return re.sub(r"[^a-z0-9]+", "_", s.lower()).strip("_")[:60]


def run_verus_file(path, workdir, timeout=900, rlimit=None, seed=None):
    cmd = ["verus", path, "--output-json", "--time", "--multiple-errors", "5"]
    if rlimit:
        cmd += ["--rlimit", str(rlimit)]
    if seed is not None:
        cmd += ["--smt-option", "smt.random_seed=%d" % seed]
    cmd += ["--", "--error-format=json"]
    r = run(cmd, cwd=workdir, timeout=timeout, mem_gb=24)
    js = None
    try:
        js = json.loads(r["out"][r["out"].index("{"):])
    except Exception:
        pass
    diags = []
    for line in r["err"].splitlines():
        line = line.strip()
        if line.startswith("{"):
            try:
                d = json.loads(line)
                if d.get("$message_type") == "diagnostic" or "message" in d:
                    diags.append(d)
            except Exception:
                pass
    return dict(cmd=" ".join(cmd), js=js, diags=diags, rc=r["rc"], raw_err=r["err"][-4000:], timed_out=r["timed_out"], wall=r["wall"])


def run_unit(scratch, prop, unit, exp, tier):
    res = dict(violations=[], undecided=[], units=[], cmds=[], trusted=[], probes=None)
    vc_path = os.path.join(CONTRACTS_DIR, unit + ".vc")
    vc = parse_vc(vc_path)
    res["trusted"] = ["[%s] %s" % (unit, t) for t in vc["trusted"]]
    wd = os.path.join(scratch.path, "verus-" + unit)
    os.makedirs(wd, exist_ok=True)
    req = os.path.join(wd, "req.txt")
    open(req, "w").write("\n".join(vc["req"]) + "\n")
    cmd = [K2V]
    for c, p in exp.items():
        cmd += ["--crate", "%s=%s" % (c, p)]
    cmd += ["--req", req]
    r = run(cmd, timeout=300)
    if r["rc"] != 0:
        res["undecided"].append("engine V [%s]: k2v exit %s (anchor lost or construct outside the lowering subset):\n%s" % (unit, r["rc"], r["err"][-2500:]))
        return res
    text, fn_lines, problems, info = assemble(r["out"], vc, unit)
    src = os.path.join(wd, unit + ".rs")
    open(src, "w").write(text)
    os.makedirs(os.path.join(VERIF, "logs"), exist_ok=True)
    open(os.path.join(VERIF, "logs", "verus-%s.rs" % unit), "w").write(text)
    # every extracted function must carry a contract: a loop-free function without one would "verify" whatever it does
    for name, inf in info.items():
        if not inf["has_contract"] and "::const_" not in name:
            problems.append("extracted function `%s` has no contract (it would verify trivially)" % name)
    if problems:
        for p in problems:
            res["undecided"].append("engine V [%s]: %s" % (unit, p))
        return res
    # vacuity probes run concurrently with the main run (same extraction, `assert(false)` after every function's preconditions)
    vac_res = dict(cmds=[], undecided=[])
    vac_out = {}
    vth = None
    if not os.environ.get("KONST_VERIF_NO_VACUITY"):
        vth = threading.Thread(target=lambda: vac_out.update(v=vacuity_run(r["out"], vc, unit, wd, vac_res)))
        vth.start()
    vr = run_verus_file(src, wd, rlimit=vc.get("rlimit"))
    if vth:
        vth.join()
    res["cmds"].append(vr["cmd"].replace(src, "<scratch>/verus-%s/%s.rs" % (unit, unit)))
    open(os.path.join(VERIF, "logs", "verus-%s.err" % unit), "w").write(vr["raw_err"])
    if vr["timed_out"] or vr["js"] is None:
        res["undecided"].append("engine V [%s]: verus %s\n%s" % (unit, "timed out" if vr["timed_out"] else "produced no JSON", vr["raw_err"][-2000:]))
        return res
    js = vr["js"]
    # per-function verdicts
    verdict = {}
    smt = {}
    try:
        for mod in js["times-ms"]["smt"]["smt-run-module-times"]:
            for fb in mod.get("function-breakdown", []):
                name = fb["function"].split("::")[-1]
                full = fb["function"]
                verdict[full] = fb.get("success", False)
                smt[full] = fb.get("time", 0)
    except Exception:
        pass
    errors = [d for d in vr["diags"] if d.get("level") == "error" and "aborting due to" not in d.get("message", "")]
    hard = []      # not verification failures: type errors, unsupported, rlimit
    failed_fns = {}
    for d in errors:
        msg = d.get("message", "")
        spans = d.get("spans", [])
        prim = [s for s in spans if s.get("is_primary")] or spans
        line = prim[0]["line_start"] if prim else 0
        fn = None
        for s in prim + spans:
            fn = fn or fn_at(fn_lines, s["line_start"])
        snippet = (prim[0]["text"][0]["text"].strip() if prim and prim[0].get("text") else "")[:160]
        if any(msg.startswith(f) or f in msg for f in FAIL_MSGS) and fn:
            failed_fns.setdefault(fn, []).append(dict(message=msg, line=line, snippet=snippet, rendered=d.get("rendered", "")[:1500]))
        elif "rlimit" in msg.lower() or "resource limit" in msg.lower():
            res["undecided"].append("engine V [%s]: %s in %s (solver resource limit; no verdict)" % (unit, msg, fn))
        else:
            hard.append("%s @%s:%d %s" % (msg, fn, line, snippet))
    if hard:
        res["undecided"].append("engine V [%s]: Verus rejected the extracted file before/outside verification (not a property verdict):\n  " % unit + "\n  ".join(hard[:8]))
    vresults = js.get("verification-results", {})
    crashed = ("verification-results" not in js) or ("panicked at" in vr["raw_err"]) or (vr["rc"] not in (0, 1)) \
        or (not vresults.get("success") and not errors)
    if crashed:
        res["undecided"].append("engine V [%s]: Verus ended abnormally (rc=%s, internal error or crash); no verdict\n%s" % (unit, vr["rc"], vr["raw_err"][-1500:]))
        for name, inf in info.items():
            res["units"].append(dict(engine="verus", kind="contract", unit=unit, function=name, path=inf["path"], status="not-checked", smt_ms=0,
                                     clauses=inf["clauses"], loops=inf["loops"], has_contract=inf["has_contract"], tier="quick", bound="unbounded"))
        return res
    for name, inf in info.items():
        short = name.split("::")[-1]
        full_candidates = [f for f in verdict if f.endswith("::" + short) or f == short]
        ok = None
        st = "verified"
        if name in failed_fns:
            st = "failed"
        elif hard:
            st = "not-checked"
        elif len(full_candidates) == 1 and not verdict.get(full_candidates[0], False):
            st = "failed"
        elif not vresults.get("success") and not full_candidates:
            st = "not-checked"
        smt_ms = sum(smt.get(f, 0) for f in full_candidates)
        res["units"].append(dict(engine="verus", kind="contract", unit=unit, function=name, path=inf["path"], status=st, smt_ms=smt_ms,
                                 clauses=inf["clauses"], loops=inf["loops"], has_contract=inf["has_contract"], tier="quick", bound="unbounded"))
    for fn, fails in failed_fns.items():
        for f in fails:
            ob = "V.%s.%s" % (fn, slug(f["message"]))
            res["violations"].append(dict(obligation=ob, engine="verus", function=fn, site=fn, location="%s:%d" % (unit + ".rs", f["line"]),
                                          values=None, reproduced=False, verifier_output=f["rendered"], snippet=f["snippet"], unit=unit))
    res["verified_count"] = vresults.get("verified", 0)
    res["error_count"] = vresults.get("errors", 0)
    # mechanical scan of the verified text for everything that is assumed rather than proved
    scan = []
    for m in re.finditer(r"assume_specification(?:<[^>]*>)?\s*\[((?:[^\[\]]|\[[^\]]*\])+)\]", text):
        scan.append("assume_specification %s" % re.sub(r"\s+", "", m.group(1)))
    for m in re.finditer(r"#\[verifier::external_body\]\s*(?:#\[[^\]]*\]\s*)*pub (?:broadcast )?(?:proof )?(?:fn|struct) (\w+)", text):
        scan.append("external_body %s" % m.group(1))
    for kw in ("admit()", "assume("):
        n = len(re.findall(r"(?<![\w_])" + re.escape(kw), text))
        if n:
            scan.append("%s x%d" % (kw, n))
    res["assumption_scan"] = ["[%s] %s" % (unit, x) for x in sorted(set(scan))]
    res["vacuity"] = vac_out.get("v")
    res["cmds"] += vac_res["cmds"]
    if not res["violations"] and not res["undecided"]:
        res["undecided"] += vac_res["undecided"]
    # thorough tier: the same file is verified again under other Z3 random seeds; a proof that only goes through for
    # some seeds is brittle: it is reported (undecided), never as a violation
    res["seed_stability"] = None
    if tier == "thorough" and not res["violations"] and not res["undecided"]:
        bad = []
        seeds = [7, 1234567]
        for sd in seeds:
            v2 = run_verus_file(src, wd, rlimit=vc.get("rlimit"), seed=sd)
            ok2 = bool(v2["js"] and v2["js"].get("verification-results", {}).get("success")) and v2["rc"] == 0
            if not ok2:
                bad.append(sd)
        res["seed_stability"] = dict(seeds=seeds, failed_seeds=bad)
        if bad:
            res["undecided"].append("engine V [%s]: the unit verifies with the default Z3 seed but not with seed(s) %s (brittle proof; no verdict)" % (unit, bad))
    res["unit_summary"] = [dict(unit=unit, vacuity=res["vacuity"], seed_stability=res["seed_stability"], verus_verified=vresults.get("verified", 0), verus_errors=vresults.get("errors", 0),
                                extracted_functions=len(info), smt_total_ms=js.get("times-ms", {}).get("smt", {}).get("total"),
                                verus_total_ms=js.get("times-ms", {}).get("total"))]
    return res


def vacuity_run(k2v_out, vc, unit, wd, res):
    """second Verus run of the same unit with `assert(false)` spliced right after every function's preconditions.
    Every probe must FAIL: a probe that verifies means the contract's `requires` (plus the assumed axioms in scope)
    is contradictory and the function's proof is vacuous.  A vacuous function makes the unit undecided, never an alarm."""
    text, fn_lines, problems, info = assemble(k2v_out, vc, unit, probe=True)
    src = os.path.join(wd, unit + "_vacuity.rs")
    open(src, "w").write(text)
    lines = text.splitlines()
    expected = {}
    for i, l in enumerate(lines):
        if VACUITY_TAG in l:
            fn = fn_at(fn_lines, i + 1)
            if fn:
                expected[i + 1] = fn
    vr = run_verus_file(src, wd, rlimit=vc.get("rlimit"))
    res["cmds"].append(vr["cmd"].replace(src, "<scratch>/verus-%s/%s_vacuity.rs" % (unit, unit)) + "   # vacuity probes: every one must fail")
    if vr["timed_out"] or vr["js"] is None or "panicked at" in vr["raw_err"] or vr["rc"] not in (0, 1):
        res["undecided"].append("engine V [%s]: vacuity run ended abnormally (rc=%s)\n%s" % (unit, vr["rc"], vr["raw_err"][-1200:]))
        return dict(probes=len(expected), failed_as_required=0, vacuous=[], status="not-run")
    hit = set()
    other = []
    for d in vr["diags"]:
        if d.get("level") != "error" or "aborting due to" in d.get("message", ""):
            continue
        prim = [s for s in d.get("spans", []) if s.get("is_primary")] or d.get("spans", [])
        ln = prim[0]["line_start"] if prim else 0
        if "assertion failed" in d.get("message", "") and ln in expected:
            hit.add(ln)
        else:
            other.append("%s @%d" % (d.get("message", "")[:100], ln))
    if any(not any(f in o for f in FAIL_MSGS) and "rlimit" not in o.lower() and "resource limit" not in o.lower() for o in other):
        res["undecided"].append("engine V [%s]: vacuity run rejected before verification: %s" % (unit, "; ".join(other[:5])))
        return dict(probes=len(expected), failed_as_required=0, vacuous=[], status="not-run")
    vac = sorted(expected[ln] for ln in expected if ln not in hit)
    # a probe can also be masked by an rlimit / other error in the same function: those are listed, and count as not established
    if vac:
        res["undecided"].append("engine V [%s]: vacuity probe did not fail in %s — the preconditions are contradictory or the probe was not reached by the solver "
                                "(other diagnostics: %s); the proofs of these functions are not counted" % (unit, ", ".join(vac), "; ".join(other[:5]) or "none"))
    return dict(probes=len(expected), failed_as_required=len(hit), vacuous=vac, other_diagnostics=other[:10], wall_s=round(vr["wall"], 1),
                status="ok" if not vac else "vacuous")


def run_units(scratch, prop, units, tier):
    have = [u for u in units if os.path.exists(os.path.join(CONTRACTS_DIR, u + ".vc"))]
    if not have:
        return {}
    ok, blog = ensure_k2v()
    out = dict(violations=[], undecided=[], units=[], cmds=[], trusted=[], probes=None, unit_summary=[], assumption_scan=[])
    if not ok:
        out["undecided"].append("engine V: k2v is not built (run bin/setup):\n" + blog)
        return out
    # translation validation of the lowering rules themselves (tools/k2v/selftest): runs beside the expansion
    st = {}

    def selftest():
        try:
            r = run(["python3", os.path.join(VERIF, "tools", "k2v", "selftest", "run.py"), os.path.join(scratch.path, "k2v-selftest")], timeout=900)
            m = re.search(r"K2V-SELFTEST cases=(\d+) evaluations=(\d+) panicking=(\d+) differences=(\d+)", r["out"])
            st.update(rc=r["rc"], cases=int(m.group(1)) if m else 0, evaluations=int(m.group(2)) if m else 0,
                      differences=int(m.group(4)) if m else None, tail=(r["out"] + r["err"])[-800:])
        except Exception as e:
            st.update(rc=2, cases=0, evaluations=0, differences=None, tail=repr(e))

    sth = threading.Thread(target=selftest)
    sth.start()
    exp, errs = expand(scratch)
    sth.join()
    out["k2v_selftest"] = dict(rc=st.get("rc"), cases=st.get("cases"), evaluations=st.get("evaluations"), differences=st.get("differences"),
                               rule="every self-test case is lowered by k2v, compiled natively next to the original and compared on an exhaustive small input domain")
    if st.get("rc") != 0:
        out["undecided"].append("engine V: k2v self-test did not pass (rc=%s): the lowering cannot be trusted, no V verdict is reported\n%s" % (st.get("rc"), st.get("tail")))
        return out
    if errs:
        out["undecided"] += ["engine V: " + e for e in errs]
        return out
    results = {}

    def work(u):
        try:
            results[u] = run_unit(scratch, prop, u, exp, tier)
        except Exception as e:  # tool crash: undecided, never an alarm
            import traceback
            results[u] = dict(violations=[], undecided=["engine V [%s]: runner exception %r\n%s" % (u, e, traceback.format_exc()[-1500:])], units=[], cmds=[], trusted=[])

    ths = [threading.Thread(target=work, args=(u,)) for u in have]
    for t in ths:
        t.start()
    for t in ths:
        t.join()
    for u in have:
        r = results[u]
        for k in ("violations", "undecided", "units", "cmds", "trusted", "unit_summary", "assumption_scan"):
            out[k] += r.get(k, [])
    return out
