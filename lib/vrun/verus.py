"""Engine V: Verus on rustc-expanded, mechanically lowered real functions (stub until k2v lands)."""
import os
from .common import VERIF

def run_units(scratch, prop, units, tier):
    have = [u for u in units if os.path.exists(os.path.join(VERIF, "contracts", u + ".toml"))]
    if not have:
        return {}
    return {}
