#![allow(unused, clippy::all)]
use konst::{option, result};

// ---- konst::option ----
pub fn opt_unwrap_or<T>(o: Option<T>, d: T) -> T { option::unwrap_or!(o, d) }
pub fn opt_unwrap_or_else_fn<T, F: FnOnce() -> T>(o: Option<T>, f: F) -> T { option::unwrap_or_else!(o, f) }
pub fn opt_unwrap_or_else_cl<T, F: FnOnce() -> T>(o: Option<T>, f: F) -> T { option::unwrap_or_else!(o, || f()) }
pub fn opt_ok_or<T, E>(o: Option<T>, e: E) -> Result<T, E> { option::ok_or!(o, e) }
pub fn opt_ok_or_else_fn<T, E, F: FnOnce() -> E>(o: Option<T>, f: F) -> Result<T, E> { option::ok_or_else!(o, f) }
pub fn opt_ok_or_else_cl<T, E, F: FnOnce() -> E>(o: Option<T>, f: F) -> Result<T, E> { option::ok_or_else!(o, || f()) }
pub fn opt_map_fn<T, U, F: FnOnce(T) -> U>(o: Option<T>, f: F) -> Option<U> { option::map!(o, f) }
pub fn opt_map_cl<T, U, F: FnOnce(T) -> U>(o: Option<T>, f: F) -> Option<U> { option::map!(o, |x| f(x)) }
pub fn opt_and_then_fn<T, U, F: FnOnce(T) -> Option<U>>(o: Option<T>, f: F) -> Option<U> { option::and_then!(o, f) }
pub fn opt_and_then_cl<T, U, F: FnOnce(T) -> Option<U>>(o: Option<T>, f: F) -> Option<U> { option::and_then!(o, |x| f(x)) }
pub fn opt_or_else_fn<T, F: FnOnce() -> Option<T>>(o: Option<T>, f: F) -> Option<T> { option::or_else!(o, f) }
pub fn opt_or_else_cl<T, F: FnOnce() -> Option<T>>(o: Option<T>, f: F) -> Option<T> { option::or_else!(o, || f()) }
pub fn opt_flatten<T>(o: Option<Option<T>>) -> Option<T> { option::flatten!(o) }
pub fn opt_filter_fn<T, F: FnOnce(&T) -> bool>(o: Option<T>, f: F) -> Option<T> { option::filter!(o, f) }
pub fn opt_filter_cl<T, F: FnOnce(&T) -> bool>(o: Option<T>, f: F) -> Option<T> { option::filter!(o, |x| f(x)) }

// ---- konst::result ----
pub fn res_unwrap_or<T, E>(r: Result<T, E>, d: T) -> T { result::unwrap_or!(r, d) }
pub fn res_unwrap_or_else_fn<T, E, F: FnOnce(E) -> T>(r: Result<T, E>, f: F) -> T { result::unwrap_or_else!(r, f) }
pub fn res_unwrap_or_else_cl<T, E, F: FnOnce(E) -> T>(r: Result<T, E>, f: F) -> T { result::unwrap_or_else!(r, |e| f(e)) }
pub fn res_unwrap_err_or_else_fn<T, E, F: FnOnce(T) -> E>(r: Result<T, E>, f: F) -> E { result::unwrap_err_or_else!(r, f) }
pub fn res_unwrap_err_or_else_cl<T, E, F: FnOnce(T) -> E>(r: Result<T, E>, f: F) -> E { result::unwrap_err_or_else!(r, |x| f(x)) }
pub fn res_ok<T, E>(r: Result<T, E>) -> Option<T> { result::ok!(r) }
pub fn res_err<T, E>(r: Result<T, E>) -> Option<E> { result::err!(r) }
pub fn res_map_fn<T, U, E, F: FnOnce(T) -> U>(r: Result<T, E>, f: F) -> Result<U, E> { result::map!(r, f) }
pub fn res_map_cl<T, U, E, F: FnOnce(T) -> U>(r: Result<T, E>, f: F) -> Result<U, E> { result::map!(r, |x| f(x)) }
pub fn res_map_err_fn<T, E, G, F: FnOnce(E) -> G>(r: Result<T, E>, f: F) -> Result<T, G> { result::map_err!(r, f) }
pub fn res_map_err_cl<T, E, G, F: FnOnce(E) -> G>(r: Result<T, E>, f: F) -> Result<T, G> { result::map_err!(r, |e| f(e)) }
pub fn res_and_then_fn<T, U, E, F: FnOnce(T) -> Result<U, E>>(r: Result<T, E>, f: F) -> Result<U, E> { result::and_then!(r, f) }
pub fn res_and_then_cl<T, U, E, F: FnOnce(T) -> Result<U, E>>(r: Result<T, E>, f: F) -> Result<U, E> { result::and_then!(r, |x| f(x)) }
pub fn res_or_else_fn<T, E, G, F: FnOnce(E) -> Result<T, G>>(r: Result<T, E>, f: F) -> Result<T, G> { result::or_else!(r, f) }
pub fn res_or_else_cl<T, E, G, F: FnOnce(E) -> Result<T, G>>(r: Result<T, E>, f: F) -> Result<T, G> { result::or_else!(r, |e| f(e)) }

// ---- `?`-like macros ----
pub fn try_res<T, E>(r: Result<T, E>, after: T) -> Result<(T, T), E> { let x = konst::try_!(r); Ok((x, after)) }
pub fn try_opt<T>(o: Option<T>, after: T) -> Option<(T, T)> { let x = konst::try_opt!(o); Some((x, after)) }
