// ---------------------------------------------------------------------------------------------
// /verif/verus/pattern.rs — L5: abstraction of konst::string::pattern::PatternNorm (typewit dispatch
// over &str / char patterns).  ASSUMED in Verus: `PatternNorm::new(p)` holds the (valid UTF-8) byte
// encoding of the pattern; the Kani harnesses c04_pattern_kinds / c05_pattern_kinds check the
// concrete pattern kinds.
// ---------------------------------------------------------------------------------------------
pub uninterp spec fn pattern_bytes<P>(p: P) -> Seq<u8>;

#[verifier::external_body]
#[verifier::reject_recursive_types(P)]
pub struct PatternNorm<'p, P> { _p: core::marker::PhantomData<&'p P> }

// PatternNorm is `#[derive(Copy, Clone)]` in konst
impl<'p, P> Clone for PatternNorm<'p, P> {
    #[verifier::external_body]
    fn clone(&self) -> (r: Self)
        ensures r == *self,
    { unimplemented!() }
}
impl<'p, P> Copy for PatternNorm<'p, P> {}

impl<'p, P> PatternNorm<'p, P> {
    pub uninterp spec fn bytes(&self) -> Seq<u8>;

    #[verifier::external_body]
    pub fn new(p: P) -> (r: PatternNorm<'p, P>)
        ensures r.bytes() == pattern_bytes(p), utf8_ok(r.bytes()),
    { unimplemented!() }

    #[verifier::external_body]
    pub fn as_bytes(&self) -> (r: &[u8])
        ensures r@ == self.bytes(),
    { unimplemented!() }

    #[verifier::external_body]
    pub fn as_str(&self) -> (r: &str)
        ensures r.spec_bytes() == self.bytes(),
    { unimplemented!() }
}

// ASSUMED (L5): the byte view of a `&str` pattern is the string's bytes
#[verifier::external_body]
pub broadcast proof fn axiom_pattern_bytes_str(s: &str)
    ensures #[trigger] pattern_bytes::<&str>(s) == s.spec_bytes(),
{
}

// ASSUMED (L5): a pattern's bytes are valid UTF-8 (same assumption as PatternNorm::new's postcondition)
#[verifier::external_body]
pub proof fn axiom_pattern_utf8<P>(p: P)
    ensures utf8_ok(pattern_bytes(p)),
{
}
