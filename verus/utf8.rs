// ---------------------------------------------------------------------------------------------
// /verif/verus/utf8.rs — UTF-8 vocabulary (Unicode Table 3-7, comparisons only) and the lemmas
// the string kernels need.  Everything here is PROVED by Verus except the two items marked
// ASSUMED (the type invariant of `str` and the contract of `from_utf8_unchecked`).
// ---------------------------------------------------------------------------------------------

/// continuation byte 10xxxxxx
pub open spec fn is_cont(b: u8) -> bool { 0x80 <= b && b < 0xC0 }

/// `str::is_char_boundary` over the bytes of the string (std: `index == len || (bytes[index] as i8) >= -0x40`)
pub open spec fn boundary(s: Seq<u8>, i: int) -> bool {
    i == s.len() || (0 <= i && i < s.len() && !is_cont(s[i]))
}

/// length of the well-formed UTF-8 sequence at the start of `s`, 0 if there is none (Table 3-7)
pub open spec fn char_len(s: Seq<u8>) -> int {
    if s.len() == 0 { 0 }
    else if s[0] < 0x80 { 1 }
    else if 0xC2 <= s[0] && s[0] <= 0xDF {
        if s.len() >= 2 && is_cont(s[1]) { 2 } else { 0 }
    } else if 0xE0 <= s[0] && s[0] <= 0xEF {
        if s.len() >= 3
            && (if s[0] == 0xE0 { 0xA0 <= s[1] && s[1] <= 0xBF } else if s[0] == 0xED { 0x80 <= s[1] && s[1] <= 0x9F } else { is_cont(s[1]) })
            && is_cont(s[2]) { 3 } else { 0 }
    } else if 0xF0 <= s[0] && s[0] <= 0xF4 {
        if s.len() >= 4
            && (if s[0] == 0xF0 { 0x90 <= s[1] && s[1] <= 0xBF } else if s[0] == 0xF4 { 0x80 <= s[1] && s[1] <= 0x8F } else { is_cont(s[1]) })
            && is_cont(s[2]) && is_cont(s[3]) { 4 } else { 0 }
    } else { 0 }
}

/// well-formed UTF-8
pub open spec fn utf8_ok(s: Seq<u8>) -> bool
    decreases s.len()
{
    s.len() == 0 || (char_len(s) > 0 && char_len(s) <= s.len() && utf8_ok(s.subrange(char_len(s), s.len() as int)))
}

// ASSUMED: the type invariant of `str` (every `&str` holds well-formed UTF-8 of at most isize::MAX bytes)
#[verifier::external_body]
pub proof fn axiom_str_invariant(s: &str)
    ensures
        utf8_ok(s.spec_bytes()),
        s.spec_bytes().len() <= isize::MAX,
{
}

// ASSUMED: safety section of `core::str::from_utf8_unchecked` (the bytes must be valid UTF-8)
pub assume_specification<'a> [core::str::from_utf8_unchecked] (b: &'a [u8]) -> (r: &'a str)
    requires utf8_ok(b@),
    ensures r.spec_bytes() == b@;

pub proof fn lemma_char_len_bounds(s: Seq<u8>)
    ensures
        0 <= char_len(s) <= 4,
        char_len(s) <= s.len(),
        char_len(s) > 0 ==> !is_cont(s[0]),
        forall|j: int| 1 <= j < char_len(s) ==> is_cont(#[trigger] s[j]),
{
}

/// char_len only looks at the first char_len bytes
pub proof fn lemma_char_len_prefix(s: Seq<u8>, t: Seq<u8>)
    requires
        char_len(s) > 0,
        t.len() >= char_len(s),
        t.subrange(0, char_len(s)) =~= s.subrange(0, char_len(s)),
    ensures char_len(t) == char_len(s),
{
    lemma_char_len_bounds(s);
    let l = char_len(s);
    assert(t[0] == t.subrange(0, l)[0]);
    assert(s[0] == s.subrange(0, l)[0]);
    if l >= 2 { assert(t[1] == t.subrange(0, l)[1]); assert(s[1] == s.subrange(0, l)[1]); }
    if l >= 3 { assert(t[2] == t.subrange(0, l)[2]); assert(s[2] == s.subrange(0, l)[2]); }
    if l >= 4 { assert(t[3] == t.subrange(0, l)[3]); assert(s[3] == s.subrange(0, l)[3]); }
}

pub proof fn lemma_first_not_cont(s: Seq<u8>)
    requires utf8_ok(s), s.len() > 0,
    ensures !is_cont(s[0]), boundary(s, 0),
{
    lemma_char_len_bounds(s);
}

/// cut: a valid string cut at a char boundary gives two valid strings
pub proof fn lemma_cut(s: Seq<u8>, i: int)
    requires utf8_ok(s), 0 <= i <= s.len(), boundary(s, i),
    ensures utf8_ok(s.subrange(0, i)), utf8_ok(s.subrange(i, s.len() as int)),
    decreases s.len()
{
    if i == 0 {
        assert(s.subrange(0, s.len() as int) =~= s);
    } else {
        let l = char_len(s);
        lemma_char_len_bounds(s);
        assert(l <= i) by {
            if i < l { assert(is_cont(s[i])); }
        }
        let t = s.subrange(l, s.len() as int);
        assert(boundary(t, i - l)) by {
            if i < s.len() { assert(t[i - l] == s[i]); }
        }
        lemma_cut(t, i - l);
        assert(t.subrange(i - l, t.len() as int) =~= s.subrange(i, s.len() as int));
        let p = s.subrange(0, i);
        lemma_char_len_prefix(s, p);
        assert(p.subrange(l, p.len() as int) =~= t.subrange(0, i - l));
    }
}

/// if a valid `n` is a prefix of a valid `t`, what follows `n` in `t` is valid
pub proof fn lemma_prefix_rest(t: Seq<u8>, n: Seq<u8>)
    requires utf8_ok(t), utf8_ok(n), n.len() <= t.len(), t.subrange(0, n.len() as int) =~= n,
    ensures utf8_ok(t.subrange(n.len() as int, t.len() as int)),
    decreases n.len()
{
    if n.len() == 0 {
        assert(t.subrange(0, t.len() as int) =~= t);
    } else {
        let l = char_len(n);
        lemma_char_len_bounds(n);
        assert(t.subrange(0, l) =~= n.subrange(0, l)) by {
            assert forall|j: int| 0 <= j < l implies t.subrange(0, l)[j] == n.subrange(0, l)[j] by {
                assert(t.subrange(0, n.len() as int)[j] == n[j]);
            }
        }
        lemma_char_len_prefix(n, t);
        let t2 = t.subrange(l, t.len() as int);
        let n2 = n.subrange(l, n.len() as int);
        assert(t2.subrange(0, n2.len() as int) =~= n2) by {
            assert forall|j: int| 0 <= j < n2.len() implies t2.subrange(0, n2.len() as int)[j] == n2[j] by {
                assert(t.subrange(0, n.len() as int)[j + l] == n[j + l]);
            }
        }
        lemma_prefix_rest(t2, n2);
        assert(t2.subrange(n2.len() as int, t2.len() as int) =~= t.subrange(n.len() as int, t.len() as int));
    }
}

/// match-cut: an occurrence of a valid non-empty needle in a valid haystack starts and ends on
/// char boundaries (the "safety comment" of konst/src/string.rs made checkable)
pub proof fn lemma_match_cut(h: Seq<u8>, n: Seq<u8>, i: int)
    requires utf8_ok(h), utf8_ok(n), n.len() > 0, 0 <= i, i + n.len() <= h.len(), h.subrange(i, i + n.len()) =~= n,
    ensures boundary(h, i), boundary(h, i + n.len()),
{
    lemma_first_not_cont(n);
    assert(h[i] == h.subrange(i, i + n.len())[0]);
    lemma_cut(h, i);
    let t = h.subrange(i, h.len() as int);
    assert(t.subrange(0, n.len() as int) =~= n);
    lemma_prefix_rest(t, n);
    let r = t.subrange(n.len() as int, t.len() as int);
    if i + n.len() < h.len() {
        lemma_first_not_cont(r);
        assert(r[0] == h[i + n.len()]);
    }
}

/// removing ASCII bytes from the front keeps validity (whitespace trims)
pub proof fn lemma_ascii_prefix(s: Seq<u8>, a: int)
    requires utf8_ok(s), 0 <= a <= s.len(), forall|j: int| 0 <= j < a ==> #[trigger] s[j] < 0x80,
    ensures utf8_ok(s.subrange(a, s.len() as int)), boundary(s, a),
    decreases a
{
    if a == 0 {
        assert(s.subrange(0, s.len() as int) =~= s);
        if s.len() > 0 { lemma_first_not_cont(s); }
    } else {
        assert(s[0] < 0x80);
        assert(char_len(s) == 1);
        let t = s.subrange(1, s.len() as int);
        assert forall|j: int| 0 <= j < a - 1 implies #[trigger] t[j] < 0x80 by { assert(t[j] == s[j + 1]); }
        lemma_ascii_prefix(t, a - 1);
        assert(t.subrange(a - 1, t.len() as int) =~= s.subrange(a, s.len() as int));
        if a < s.len() { assert(t[a - 1] == s[a]); }
    }
}

/// an index whose byte is ASCII (or the end) is a boundary - trivial, stated for readability
pub proof fn lemma_ascii_is_boundary(s: Seq<u8>, e: int)
    requires 0 <= e <= s.len(), e < s.len() ==> s[e] < 0x80,
    ensures boundary(s, e),
{
}
