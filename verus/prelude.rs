// ---------------------------------------------------------------------------------------------
// /verif/verus/prelude.rs — everything Verus is *told* (assumed, not proved) about core, plus the
// shared specification vocabulary.  Included verbatim at the top of every generated verus! block.
// Every `assume_specification` / `external_body` / `axiom` here is listed in the evidence
// trusted_base (the runner scans for them).
// ---------------------------------------------------------------------------------------------

// ---- two's-complement helpers -----------------------------------------------------------------
pub assume_specification [usize::overflowing_sub] (a: usize, b: usize) -> (r: (usize, bool))
    ensures r.1 == (a < b), r.0 as int == (if a >= b { a - b } else { a - b + usize::MAX + 1 });

// ---- raw pointers, relationally ---------------------------------------------------------------
// `ptr_within(p, seq, off)`: p points at element `off` of an allocation whose contents, viewed as
// a sequence of T, are `seq` (one-past-the-end allowed).  Functional specs would be inconsistent
// (the same address is element k of s and element 0 of s[k..]), hence a relation.
// Zero-sized T: pointer arithmetic is a no-op and every (aligned, non-null) pointer is valid for
// any number of elements, so the preconditions are vacuous there and only the length is specified.
pub uninterp spec fn ptr_within<T>(p: *const T, seq: Seq<T>, off: int) -> bool;

pub open spec fn is_zst<T>() -> bool { vstd::layout::size_of::<T>() == 0 }

pub assume_specification<T> [<[T]>::as_ptr] (s: &[T]) -> (p: *const T)
    ensures ptr_within(p, s@, 0);

// safety section of `ptr::offset`: the result must stay inside (or one past) the same allocation
pub assume_specification<T> [<*const T>::offset] (p: *const T, n: isize) -> (r: *const T)
    requires is_zst::<T>() || exists|seq: Seq<T>, off: int| #[trigger] ptr_within(p, seq, off) && 0 <= off + n <= seq.len(),
    ensures
        !is_zst::<T>() ==> forall|seq: Seq<T>, off: int| #[trigger] ptr_within(p, seq, off) && 0 <= off + n <= seq.len()
                ==> ptr_within(r, seq, off + n);

// safety section of `slice::from_raw_parts`: `len` consecutive initialised T inside one allocation
pub assume_specification<'a, T> [core::slice::from_raw_parts] (p: *const T, len: usize) -> (r: &'a [T])
    requires is_zst::<T>() || exists|seq: Seq<T>, off: int| #[trigger] ptr_within(p, seq, off) && 0 <= off && off + len <= seq.len(),
    ensures
        r@.len() == len,
        !is_zst::<T>() ==> forall|seq: Seq<T>, off: int| #[trigger] ptr_within(p, seq, off) && 0 <= off && off + len <= seq.len()
                ==> r@ == seq.subrange(off, off + len);

// ASSUMED: type invariant of slices: `len * size_of::<T>() <= isize::MAX`; for a non-zero-sized T this gives
// `len <= isize::MAX`.  Slices of zero-sized elements can be up to usize::MAX long.
pub mod k2v_axioms {
    use vstd::prelude::*;
    #[verifier::external_body]
    pub broadcast proof fn axiom_slice_len<T>(s: &[T])
        ensures vstd::layout::size_of::<T>() != 0 ==> #[trigger] s@.len() <= isize::MAX,
    {
    }
}

broadcast use k2v_axioms::axiom_slice_len;

// ASSUMED: a zero-sized type has at most one value, so two sequences of it of equal length are equal
#[verifier::external_body]
pub proof fn axiom_zst_seq_eq<T>(a: Seq<T>, b: Seq<T>)
    requires is_zst::<T>(), a.len() == b.len(),
    ensures a == b,
{
}

// ---- shared specification vocabulary ------------------------------------------------------------
pub open spec fn sub<T>(s: Seq<T>, a: int, b: int) -> Seq<T> { s.subrange(a, b) }

pub open spec fn min_int(a: int, b: int) -> int { if a <= b { a } else { b } }

/// `slice.get(a..b)` of std: Some(sub-slice) iff a <= b <= len
pub open spec fn get_range_spec<T>(s: Seq<T>, a: int, b: int) -> Option<Seq<T>> {
    if 0 <= a <= b <= s.len() { Some(s.subrange(a, b)) } else { None }
}

// ---- byte-string vocabulary (C04/C05/C06) --------------------------------------------------------
pub open spec fn is_prefix(p: Seq<u8>, s: Seq<u8>) -> bool {
    p.len() <= s.len() && s.subrange(0, p.len() as int) =~= p
}

pub open spec fn is_suffix(p: Seq<u8>, s: Seq<u8>) -> bool {
    p.len() <= s.len() && s.subrange(s.len() - p.len(), s.len() as int) =~= p
}

/// `n` occurs in `h` at offset `i`
pub open spec fn occurs_at(h: Seq<u8>, n: Seq<u8>, i: int) -> bool {
    0 <= i && i + n.len() <= h.len() && h.subrange(i, i + n.len()) =~= n
}

/// u8::is_ascii_whitespace: U+0009 TAB, U+000A LF, U+000C FF, U+000D CR, U+0020 SPACE
pub open spec fn is_ws(b: u8) -> bool {
    b == 9 || b == 10 || b == 12 || b == 13 || b == 32
}

/// `s` is the lowest offset at which `n` occurs in `h` (what `str::find` returns)
pub open spec fn is_first_occ(h: Seq<u8>, n: Seq<u8>, s: int) -> bool {
    occurs_at(h, n, s) && forall|j: int| 0 <= j < s ==> !occurs_at(h, n, j)
}

/// `s` is the highest offset at which `n` occurs in `h` (what `str::rfind` returns)
pub open spec fn is_last_occ(h: Seq<u8>, n: Seq<u8>, s: int) -> bool {
    occurs_at(h, n, s) && forall|j: int| s < j ==> !occurs_at(h, n, j)
}

pub open spec fn no_occ(h: Seq<u8>, n: Seq<u8>) -> bool {
    forall|j: int| !occurs_at(h, n, j)
}

// ---- std's split sequences (C06/C14) ----------------------------------------------------------------
/// the first occurrence is unique
pub proof fn lemma_first_occ_unique(b: Seq<u8>, pb: Seq<u8>, s: int, t: int)
    requires is_first_occ(b, pb, s), is_first_occ(b, pb, t),
    ensures s == t,
{
    if s < t { assert(!occurs_at(b, pb, s)); }
    if t < s { assert(!occurs_at(b, pb, t)); }
}
pub proof fn lemma_last_occ_unique(b: Seq<u8>, pb: Seq<u8>, s: int, t: int)
    requires is_last_occ(b, pb, s), is_last_occ(b, pb, t),
    ensures s == t,
{
    if s < t { assert(!occurs_at(b, pb, t)); }
    if t < s { assert(!occurs_at(b, pb, s)); }
}

/// `str::split(pat)` for a non-empty pattern: the piece before the first occurrence, then the split of what follows it
pub open spec fn split_seq(b: Seq<u8>, pb: Seq<u8>) -> Seq<Seq<u8>>
    decreases b.len()
{
    if pb.len() > 0 && (exists|s: int| is_first_occ(b, pb, s)) {
        let s = choose|s: int| is_first_occ(b, pb, s);
        seq![b.subrange(0, s)] + split_seq(b.subrange(s + pb.len(), b.len() as int), pb)
    } else {
        seq![b]
    }
}
/// `str::rsplit(pat)`: the piece after the last occurrence, then the rsplit of what precedes it
pub open spec fn rsplit_seq(b: Seq<u8>, pb: Seq<u8>) -> Seq<Seq<u8>>
    decreases b.len()
{
    if pb.len() > 0 && (exists|s: int| is_last_occ(b, pb, s)) {
        let s = choose|s: int| is_last_occ(b, pb, s);
        seq![b.subrange(s + pb.len(), b.len() as int)] + rsplit_seq(b.subrange(0, s), pb)
    } else {
        seq![b]
    }
}

// ---- panics -------------------------------------------------------------------------------------
// k2v rule P1 turns every call into core::panicking (the expansion of panic!/assert!/unreachable!)
// into `k2v_panic()`.  Reaching it is a failed obligation: verified functions must not panic under
// their stated preconditions.  ("must panic" copies rename it to a helper with `ensures false`.)
#[verifier::external_body]
pub fn k2v_panic() -> !
    requires false,
{ unimplemented!() }

#[verifier::external_body]
pub fn k2v_panic_expected() -> !
    ensures false,
{ unimplemented!() }
