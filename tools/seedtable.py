#!/usr/bin/env python3
"""seedtable.py — markdown table of /verif/seeded/*: what each seeded change is, what it needs to manifest, and which
obligations of which engine reported it (from result.txt of bin/seedrun).  Output is pasted into DESIGN.md §11."""
import json, os, re, sys, glob
VERIF = os.path.dirname(os.path.dirname(os.path.abspath(__file__)))
rows = []
for d in sorted(glob.glob(os.path.join(VERIF, "seeded", "C*-*"))):
    sid = os.path.basename(d)
    try:
        meta = json.load(open(os.path.join(d, "meta.json")))
    except Exception:
        meta = {}
    res = open(os.path.join(d, "result.txt")).read() if os.path.exists(os.path.join(d, "result.txt")) else ""
    m = re.search(r"SEEDRUN \S+ (\S+) exit=(\d+) wall=(\d+)s", res)
    rc = m.group(2) if m else "?"
    obs = re.findall(r"^\s+obligation (.+?) \((kani|verus|rustc) ([^)]*)\)( no-failing-input-found)?$", res, re.M)
    k = sorted(set(o for o, e, _, _ in obs if e == "kani"))
    v = sorted(set(o for o, e, _, _ in obs if e == "verus"))
    c = sorted(set(o for o, e, _, _ in obs if e == "rustc"))
    und = len(re.findall(r"^UNDECIDED|undecided:", res, re.M))
    def short(xs, n=3):
        return ", ".join("`%s`" % x for x in xs[:n]) + (" (+%d)" % (len(xs) - n) if len(xs) > n else "")
    caught = []
    if v: caught.append("V: " + short(v))
    if k: caught.append("K: " + short(k))
    if c: caught.append("rustc: " + short(c))
    summ = (meta.get("summary") or "").replace("|", "\\|").replace("\n", " ")
    summ = summ[:230] + ("…" if len(summ) > 230 else "")
    rows.append("| %s | %s | %s | %s |" % (sid, summ, {"1": "caught", "0": "MISSED", "2": "undecided"}.get(rc, rc), "; ".join(caught) or "—"))
print("| id | change (agent's summary, truncated) | quick check | reported obligations |")
print("|----|--------------------------------------|-------------|----------------------|")
print("\n".join(rows))
