//! k2v — mechanical extraction + lowering of konst functions (as expanded by rustc) into
//! text that Verus accepts.  Rules are documented in /verif/DESIGN.md §4.2.
//!
//!   k2v --crate konst=<expanded.rs> --crate konst_kernel=<expanded.rs> --req <requests> > out.rs
//!
//! Request file (one per line, `#` comments):
//!   fn <crate::mod::path::name> [as <newname>]
//!   impl <crate::mod::path::Type> <method> [<method> …]        (all inherent impl blocks of Type)
//!   struct <crate::mod::path::Name>      (also enums; fields become pub)
//!   known <name>                         (a name defined by the prelude/contract text: paths ending in it become bare)
//!
//! Output: the lowered items, flat, with marker identifiers (`__K2V_…__`) where contract text is
//! spliced by the runner, and `//@@ITEM <path>` comment lines in front of every item.
use proc_macro2::{Delimiter, Ident, Span, TokenStream, TokenTree};
use quote::{quote, ToTokens};
use std::collections::{HashMap, HashSet};
use syn::visit_mut::{self, VisitMut};
use syn::*;

fn die(msg: &str) -> ! {
    eprintln!("k2v: {}", msg);
    std::process::exit(3);
}

// ---------------------------------------------------------------------------------------------
// indexing

#[derive(Default)]
struct Index {
    fns: HashMap<String, ItemFn>,
    types: HashMap<String, Item>,
    impls: HashMap<String, Vec<ItemImpl>>,
    copy_types: HashSet<String>,
    eq_types: HashSet<String>,
}

fn type_last_ident(t: &Type) -> Option<String> {
    match t {
        Type::Path(p) => p.path.segments.last().map(|s| s.ident.to_string()),
        Type::Reference(r) => type_last_ident(&r.elem),
        Type::Paren(p) => type_last_ident(&p.elem),
        _ => None,
    }
}

fn index_items(prefix: &str, items: &[Item], idx: &mut Index) {
    for it in items {
        match it {
            Item::Mod(m) => {
                if let Some((_, inner)) = &m.content {
                    let p = format!("{}::{}", prefix, m.ident);
                    index_items(&p, inner, idx);
                }
            }
            Item::Fn(f) => {
                let p = format!("{}::{}", prefix, f.sig.ident);
                // fn items nested in a body are addressable as outer::inner
                for st in &f.block.stmts {
                    if let Stmt::Item(Item::Fn(inner)) = st {
                        idx.fns.insert(format!("{}::{}", p, inner.sig.ident), inner.clone());
                    }
                }
                idx.fns.insert(p, f.clone());
            }
            Item::Struct(s) => {
                idx.types.insert(format!("{}::{}", prefix, s.ident), it.clone());
            }
            Item::Enum(e) => {
                idx.types.insert(format!("{}::{}", prefix, e.ident), it.clone());
            }
            Item::Impl(im) => {
                if let Some((_, tr, _)) = &im.trait_ {
                    // `impl Copy for X` (what #[derive(Copy)] expands to): remembered so that the extracted
                    // struct keeps its Copy-ness
                    if tr.segments.last().map(|s| s.ident == "StructuralPartialEq").unwrap_or(false) {
                        if let Some(name) = type_last_ident(&im.self_ty) {
                            idx.eq_types.insert(format!("{}::{}", prefix, name));
                        }
                    }
                    if tr.segments.last().map(|s| s.ident == "Copy").unwrap_or(false) {
                        if let Some(name) = type_last_ident(&im.self_ty) {
                            idx.copy_types.insert(format!("{}::{}", prefix, name));
                        }
                    }
                }
                if im.trait_.is_none() {
                    if let Some(name) = type_last_ident(&im.self_ty) {
                        idx.impls.entry(format!("{}::{}", prefix, name)).or_default().push(im.clone());
                    }
                }
            }
            _ => {}
        }
    }
}

// ---------------------------------------------------------------------------------------------
// lowering

fn ident(s: &str) -> Ident {
    Ident::new(s, Span::call_site())
}

fn pat_has_slice(p: &Pat) -> bool {
    match p {
        Pat::Slice(_) => true,
        Pat::Ident(i) => i.subpat.as_ref().map(|(_, s)| pat_has_slice(s)).unwrap_or(false),
        Pat::Tuple(t) => t.elems.iter().any(pat_has_slice),
        Pat::Paren(p) => pat_has_slice(&p.pat),
        Pat::Reference(r) => pat_has_slice(&r.pat),
        Pat::Or(o) => o.cases.iter().any(pat_has_slice),
        _ => false,
    }
}

fn is_rest(p: &Pat) -> bool {
    match p {
        Pat::Rest(_) => true,
        Pat::Ident(i) => matches!(i.subpat.as_ref().map(|(_, s)| &**s), Some(Pat::Rest(_))),
        _ => false,
    }
}

#[derive(Clone)]
enum Scrut {
    /// an expression whose value is bound as is (`let x = e;`); slice patterns index it
    Val(Expr),
    /// `*base` with base a slice reference: slice patterns index `base`, elements bind by value
    Deref(Expr),
    /// an element place `base[i]`; `by_ref` = default binding mode is `ref`
    Place(Expr, bool),
    Tuple(Vec<Scrut>),
}

struct Lower {
    errors: Vec<String>,
    tmp: usize,
    n_slice_pats: usize,
    n_casts: usize,
    n_panics: usize,
}

impl Lower {
    fn err(&mut self, s: String) {
        self.errors.push(s);
    }

    fn scrut_of(&mut self, e: &Expr, pre: &mut Vec<Stmt>, allow_tmp: bool) -> Scrut {
        match e {
            Expr::Tuple(t) => Scrut::Tuple(t.elems.iter().map(|x| self.scrut_of(x, pre, allow_tmp)).collect()),
            Expr::Paren(p) => self.scrut_of(&p.expr, pre, allow_tmp),
            Expr::Path(_) => Scrut::Val(e.clone()),
            Expr::Unary(u) if matches!(u.op, UnOp::Deref(_)) => match &*u.expr {
                Expr::Path(_) => Scrut::Deref((*u.expr).clone()),
                base if allow_tmp => {
                    // `*<expr>`: the base reference is evaluated once into a temporary, then treated like `*path`
                    let name = ident(&format!("k2v_scrut_{}", self.tmp));
                    self.tmp += 1;
                    pre.push(parse_quote! { let #name = #base; });
                    Scrut::Deref(parse_quote! { #name })
                }
                _ => {
                    self.err(format!("unsupported deref scrutinee `{}`", e.to_token_stream()));
                    Scrut::Val(e.clone())
                }
            },
            _ => {
                if !allow_tmp {
                    self.err(format!("scrutinee `{}` needs a temporary in a position where none can be hoisted", e.to_token_stream()));
                    return Scrut::Val(e.clone());
                }
                let name = ident(&format!("k2v_scrut_{}", self.tmp));
                self.tmp += 1;
                pre.push(parse_quote! { let #name = #e; });
                Scrut::Val(parse_quote! { #name })
            }
        }
    }

    /// conds: tests in evaluation order; binds: `let` statements establishing the pattern's bindings
    fn lower_pat(&mut self, pat: &Pat, sc: &Scrut, conds: &mut Vec<Expr>, binds: &mut Vec<Stmt>) {
        match pat {
            Pat::Wild(_) => {}
            Pat::Paren(p) => self.lower_pat(&p.pat, sc, conds, binds),
            Pat::Ident(pi) => {
                let name = &pi.ident;
                let mutability = &pi.mutability;
                let sub_is_rest = matches!(pi.subpat.as_ref().map(|(_, s)| &**s), Some(Pat::Rest(_)));
                if sub_is_rest {
                    self.err(format!("rest binding `{}` outside a slice pattern", name));
                    return;
                }
                match sc {
                    Scrut::Val(e) => binds.push(parse_quote! { let #mutability #name = #e; }),
                    Scrut::Place(p, by_ref) => {
                        if pi.by_ref.is_some() || *by_ref {
                            binds.push(parse_quote! { let #mutability #name = &#p; })
                        } else {
                            binds.push(parse_quote! { let #mutability #name = #p; })
                        }
                    }
                    Scrut::Deref(_) | Scrut::Tuple(_) => self.err(format!("binding `{}` to an unsized place or tuple", name)),
                }
                if let Some((_, sub)) = &pi.subpat {
                    self.lower_pat(sub, sc, conds, binds);
                }
            }
            Pat::Lit(l) => match sc {
                Scrut::Place(p, _) => conds.push(parse_quote! { #p == #l }),
                Scrut::Val(e) => conds.push(parse_quote! { #e == #l }),
                _ => self.err("literal pattern on unsupported scrutinee".into()),
            },
            Pat::Range(r) => {
                let p: Expr = match sc {
                    Scrut::Place(p, _) => p.clone(),
                    Scrut::Val(e) => e.clone(),
                    _ => {
                        self.err("range pattern on unsupported scrutinee".into());
                        return;
                    }
                };
                if let Some(lo) = &r.start {
                    conds.push(parse_quote! { #lo <= #p });
                }
                if let Some(hi) = &r.end {
                    match r.limits {
                        RangeLimits::Closed(_) => conds.push(parse_quote! { #p <= #hi }),
                        RangeLimits::HalfOpen(_) => conds.push(parse_quote! { #p < #hi }),
                    }
                }
            }
            Pat::Tuple(t) => match sc {
                Scrut::Tuple(scs) if scs.len() == t.elems.len() => {
                    for (p, s) in t.elems.iter().zip(scs.iter()) {
                        self.lower_pat(p, s, conds, binds);
                    }
                }
                _ => self.err(format!("tuple pattern `{}` against a non-tuple-literal scrutinee", pat.to_token_stream())),
            },
            Pat::Slice(sl) => {
                self.n_slice_pats += 1;
                let (base, elem_by_ref) = match sc {
                    Scrut::Val(e) => (e.clone(), true),
                    Scrut::Deref(b) => (b.clone(), false),
                    _ => {
                        self.err(format!("slice pattern `{}` on an element place / tuple", pat.to_token_stream()));
                        return;
                    }
                };
                let elems: Vec<&Pat> = sl.elems.iter().collect();
                let rest_pos = elems.iter().position(|p| is_rest(p));
                if elems.iter().filter(|p| is_rest(p)).count() > 1 {
                    self.err("two rest patterns".into());
                    return;
                }
                let k = rest_pos.unwrap_or(elems.len());
                let m = match rest_pos {
                    Some(r) => elems.len() - r - 1,
                    None => 0,
                };
                let km = LitInt::new(&format!("{}", k + m), Span::call_site());
                if rest_pos.is_some() {
                    if k + m > 0 {
                        conds.push(parse_quote! { #base.len() >= #km });
                    }
                } else {
                    conds.push(parse_quote! { #base.len() == #km });
                }
                for (i, p) in elems.iter().enumerate().take(k) {
                    let il = LitInt::new(&format!("{}", i), Span::call_site());
                    let place: Expr = parse_quote! { #base[#il] };
                    self.lower_pat(p, &Scrut::Place(place, elem_by_ref), conds, binds);
                }
                if let Some(r) = rest_pos {
                    let kl = LitInt::new(&format!("{}", k), Span::call_site());
                    let ml = LitInt::new(&format!("{}", m), Span::call_site());
                    if let Pat::Ident(pi) = elems[r] {
                        let name = &pi.ident;
                        let mutability = &pi.mutability;
                        binds.push(parse_quote! { let #mutability #name = slice_subrange(#base, #kl, #base.len() - #ml); });
                    }
                    for j in 0..m {
                        let off = LitInt::new(&format!("{}", m - j), Span::call_site());
                        let place: Expr = parse_quote! { #base[#base.len() - #off] };
                        self.lower_pat(elems[r + 1 + j], &Scrut::Place(place, elem_by_ref), conds, binds);
                    }
                }
            }
            other => self.err(format!("unsupported pattern `{}` next to a slice pattern", other.to_token_stream())),
        }
    }

    fn conj(conds: &[Expr]) -> Option<Expr> {
        let mut it = conds.iter();
        let first = it.next()?.clone();
        Some(it.fold(first, |acc, c| parse_quote! { #acc && #c }))
    }

    fn lower_match(&mut self, m: &ExprMatch) -> Expr {
        let mut pre = Vec::new();
        let sc = self.scrut_of(&m.expr, &mut pre, true);
        let n = m.arms.len();
        let mut chain: Option<Expr> = None;
        let any_irrefutable = m.arms.iter().any(|a| a.guard.is_none() && matches!(a.pat, Pat::Wild(_) | Pat::Ident(_)) && !pat_has_slice(&a.pat));
        for (i, arm) in m.arms.iter().enumerate().rev() {
            let mut conds = Vec::new();
            let mut binds = Vec::new();
            self.lower_pat(&arm.pat, &sc, &mut conds, &mut binds);
            let body = &arm.body;
            let arm_block: Expr = parse_quote! { { #(#binds)* #body } };
            let mut test = Self::conj(&conds);
            if let Some((_, g)) = &arm.guard {
                let gb: Expr = if binds.is_empty() { (**g).clone() } else { parse_quote! { { #(#binds)* #g } } };
                test = Some(match test {
                    Some(t) => parse_quote! { #t && #gb },
                    None => gb,
                });
            }
            let is_last = i == n - 1;
            chain = Some(match (test, chain.take()) {
                (None, _) => arm_block,
                (Some(_), None) if is_last && !any_irrefutable && arm.guard.is_none() => arm_block, // exhaustive by patterns: last arm is the else
                (Some(t), None) => {
                    self.err("match falls off its last arm (refutable last arm with guard)".into());
                    parse_quote! { if #t #arm_block else { loop {} } }
                }
                (Some(t), Some(rest)) => match rest {
                    Expr::If(_) | Expr::Block(_) => parse_quote! { if #t #arm_block else #rest },
                    other => parse_quote! { if #t #arm_block else { #other } },
                },
            });
        }
        let chain = chain.unwrap_or_else(|| parse_quote! { {} });
        if pre.is_empty() {
            chain
        } else {
            parse_quote! { { #(#pre)* #chain } }
        }
    }

    fn lower_if_let(&mut self, i: &ExprIf, l: &ExprLet) -> Expr {
        let mut pre = Vec::new();
        let sc = self.scrut_of(&l.expr, &mut pre, true);
        let mut conds = Vec::new();
        let mut binds = Vec::new();
        self.lower_pat(&l.pat, &sc, &mut conds, &mut binds);
        let then_stmts = &i.then_branch.stmts;
        let test = Self::conj(&conds).unwrap_or_else(|| parse_quote! { true });
        let e: Expr = match &i.else_branch {
            Some((_, eb)) => parse_quote! { if #test { #(#binds)* #(#then_stmts)* } else #eb },
            None => parse_quote! { if #test { #(#binds)* #(#then_stmts)* } },
        };
        if pre.is_empty() {
            e
        } else {
            parse_quote! { { #(#pre)* #e } }
        }
    }

    fn lower_while_let(&mut self, w: &ExprWhile, l: &ExprLet) -> Expr {
        let mut pre = Vec::new();
        let sc = self.scrut_of(&l.expr, &mut pre, false);
        let mut conds = Vec::new();
        let mut binds = Vec::new();
        self.lower_pat(&l.pat, &sc, &mut conds, &mut binds);
        let stmts = &w.body.stmts;
        let label = &w.label;
        let test = Self::conj(&conds).unwrap_or_else(|| parse_quote! { true });
        parse_quote! { #label while #test { #(#binds)* #(#stmts)* } }
    }
}

const INT_TYPES: &[&str] = &["u8", "u16", "u32", "u64", "u128", "usize", "i8", "i16", "i32", "i64", "i128", "isize"];

impl VisitMut for Lower {
    fn visit_expr_mut(&mut self, e: &mut Expr) {
        // children first
        visit_mut::visit_expr_mut(self, e);
        let replaced: Option<Expr> = match e {
            Expr::Match(m) if m.arms.iter().any(|a| pat_has_slice(&a.pat)) => Some(self.lower_match(m)),
            Expr::If(i) => match &*i.cond {
                Expr::Let(l) if pat_has_slice(&l.pat) => Some(self.lower_if_let(i, l)),
                _ => None,
            },
            Expr::While(w) => match &*w.cond {
                Expr::Let(l) if pat_has_slice(&l.pat) => Some(self.lower_while_let(w, l)),
                _ => None,
            },
            Expr::Cast(c) => {
                let is_int = match &*c.ty {
                    Type::Path(p) => p.path.get_ident().map(|i| INT_TYPES.contains(&i.to_string().as_str())).unwrap_or(false),
                    _ => false,
                };
                if is_int && c.attrs.is_empty() {
                    self.n_casts += 1;
                    let inner = c.clone();
                    Some(parse_quote! { (#[verifier::truncate] (#inner)) })
                } else {
                    None
                }
            }
            // P1: a call into core::panicking (what `panic!`/`assert!` expand to) is the diverging helper
            // `k2v_panic()`, whose contract (requires false / ensures false) is chosen by the contract unit
            Expr::Call(c) if matches!(&*c.func, Expr::Path(p) if p.path.segments.iter().any(|s| s.ident == "panicking")) => {
                self.n_panics += 1;
                Some(parse_quote! { k2v_panic() })
            }
            // R1: `type Type<T> = T; Type::<X> { .. }` (konst's way of naming a type through a macro) is `X { .. }`
            Expr::Struct(es) if es.path.segments.len() == 1 && es.path.segments[0].ident == "Type" => {
                let mut out = None;
                if let PathArguments::AngleBracketed(ab) = &es.path.segments[0].arguments {
                    if ab.args.len() == 1 {
                        if let GenericArgument::Type(Type::Path(tp)) = &ab.args[0] {
                            let mut ns = es.clone();
                            let mut np = tp.path.clone();
                            // struct-literal paths need turbofish-free generic args dropped
                            for seg in np.segments.iter_mut() {
                                seg.arguments = PathArguments::None;
                            }
                            ns.path = np;
                            out = Some(Expr::Struct(ns));
                        }
                    }
                }
                out
            }
            Expr::MethodCall(mc) if mc.method == "offset" && mc.args.len() == 1 => {
                // `p.offset(n as _)`: the inferred target is isize (signature of ptr::offset)
                if let Expr::Cast(c) = &mc.args[0] {
                    if matches!(&*c.ty, Type::Infer(_)) {
                        let inner = &c.expr;
                        let recv = &mc.receiver;
                        self.n_casts += 1;
                        Some(parse_quote! { #recv.offset((#[verifier::truncate] (#inner as isize))) })
                    } else {
                        None
                    }
                } else {
                    None
                }
            }
            _ => None,
        };
        if let Some(r) = replaced {
            *e = r;
        }
    }

    fn visit_block_mut(&mut self, b: &mut Block) {
        visit_mut::visit_block_mut(self, b);
        // R2: a `const NAME: T = EXPR;` item inside a body is `let NAME: T = EXPR;` (Verus has no inner items)
        for st in b.stmts.iter_mut() {
            if let Stmt::Item(Item::Const(c)) = st {
                let (name, ty, e) = (&c.ident, &c.ty, &c.expr);
                *st = parse_quote! { let #name: #ty = #e; };
            }
        }
        // R0: `let Range { mut start, end } = a..b;`  ->  `let mut start = a; let end = b;`
        let mut out = Vec::with_capacity(b.stmts.len());
        for st in b.stmts.drain(..) {
            if let Stmt::Local(loc) = &st {
                if let (Pat::Struct(ps), Some(init)) = (&loc.pat, &loc.init) {
                    let is_range = ps.path.segments.last().map(|s| s.ident == "Range").unwrap_or(false);
                    if is_range && init.diverge.is_none() {
                        let mut ie: &Expr = &init.expr;
                        while let Expr::Paren(p) = ie {
                            ie = &p.expr;
                        }
                        if let Expr::Range(r) = ie {
                            if let (Some(a), Some(bb), RangeLimits::HalfOpen(_)) = (&r.start, &r.end, &r.limits) {
                                let mut ok = true;
                                let mut lets = Vec::new();
                                for f in ps.fields.iter() {
                                    let mem = match &f.member {
                                        Member::Named(i) => i.to_string(),
                                        _ => String::new(),
                                    };
                                    let val: &Expr = if mem == "start" { a } else if mem == "end" { bb } else { ok = false; a };
                                    let p = &f.pat;
                                    lets.push((mem, parse_quote! { let #p = #val; }));
                                }
                                if ok && lets.len() == 2 {
                                    lets.sort_by_key(|(m, _)| if m == "start" { 0 } else { 1 });
                                    for (_, l) in lets {
                                        out.push(l);
                                    }
                                    continue;
                                }
                            }
                        }
                    }
                }
            }
            out.push(st);
        }
        b.stmts = out;
    }
}

// ---------------------------------------------------------------------------------------------
// L8: `a | b` on the overflow flags returned by `overflowing_*`  ->  `a || b` (Verus rejects `|` on bool;
// both operands are plain locals, so there is no evaluation-order difference).
// D1: labels of blocks that no `break` targets are dropped.

struct BoolFlags {
    flags: HashSet<String>,
}

impl<'ast> syn::visit::Visit<'ast> for BoolFlags {
    fn visit_local(&mut self, l: &'ast Local) {
        if let (Pat::Tuple(t), Some(init)) = (&l.pat, &l.init) {
            if let Expr::MethodCall(mc) = &*init.expr {
                if mc.method.to_string().starts_with("overflowing_") && t.elems.len() == 2 {
                    if let Pat::Ident(pi) = &t.elems[1] {
                        self.flags.insert(pi.ident.to_string());
                    }
                }
            }
        }
        syn::visit::visit_local(self, l);
    }
}

struct BitOrToOr {
    flags: HashSet<String>,
    n: usize,
}

impl VisitMut for BitOrToOr {
    fn visit_expr_mut(&mut self, e: &mut Expr) {
        visit_mut::visit_expr_mut(self, e);
        if let Expr::Binary(b) = e {
            if matches!(b.op, BinOp::BitOr(_)) {
                let is_flag = |x: &Expr| matches!(x, Expr::Path(p) if p.path.get_ident().map(|i| self.flags.contains(&i.to_string())).unwrap_or(false));
                if is_flag(&b.left) && is_flag(&b.right) {
                    let (l, r) = (&b.left, &b.right);
                    self.n += 1;
                    *e = parse_quote! { #l || #r };
                }
            }
        }
    }
}

struct LabelUse {
    used: HashSet<String>,
}
impl<'ast> syn::visit::Visit<'ast> for LabelUse {
    fn visit_expr_break(&mut self, b: &'ast ExprBreak) {
        if let Some(l) = &b.label {
            self.used.insert(l.ident.to_string());
        }
        syn::visit::visit_expr_break(self, b);
    }
    fn visit_expr_continue(&mut self, b: &'ast ExprContinue) {
        if let Some(l) = &b.label {
            self.used.insert(l.ident.to_string());
        }
    }
}
struct DropUnusedLabels {
    used: HashSet<String>,
}
impl VisitMut for DropUnusedLabels {
    fn visit_expr_block_mut(&mut self, b: &mut ExprBlock) {
        if let Some(l) = &b.label {
            if !self.used.contains(&l.name.ident.to_string()) {
                b.label = None;
            }
        }
        visit_mut::visit_expr_block_mut(self, b);
    }
}

// ---------------------------------------------------------------------------------------------
// L7: `loop { .. break EXPR; .. }` used for its value  ->  `{ let k2v_brk_N; loop { .. { k2v_brk_N = EXPR; break; } .. } k2v_brk_N }`
// (Verus rejects break-with-value; deferred initialisation is the same control flow)

struct BreakValues {
    n: usize,
}

struct ReplaceBreaks {
    label: Option<Lifetime>,
    target: Ident,
    depth: usize,
    count: usize,
}

impl VisitMut for ReplaceBreaks {
    fn visit_expr_mut(&mut self, e: &mut Expr) {
        match e {
            Expr::Loop(_) | Expr::While(_) | Expr::ForLoop(_) => {
                self.depth += 1;
                visit_mut::visit_expr_mut(self, e);
                self.depth -= 1;
            }
            Expr::Closure(_) => {}
            Expr::Break(b) => {
                let ours = match (&b.label, &self.label) {
                    (Some(l), Some(m)) => l.ident == m.ident,
                    (None, _) => self.depth == 0,
                    (Some(_), None) => false,
                };
                if ours {
                    if let Some(val) = b.expr.take() {
                        let t = &self.target;
                        let label = &b.label;
                        self.count += 1;
                        *e = parse_quote! { { #t = #val; break #label; } };
                    }
                } else {
                    visit_mut::visit_expr_mut(self, e);
                }
            }
            _ => visit_mut::visit_expr_mut(self, e),
        }
    }
}

impl VisitMut for BreakValues {
    fn visit_expr_mut(&mut self, e: &mut Expr) {
        visit_mut::visit_expr_mut(self, e);
        if let Expr::Loop(l) = e {
            let target = ident(&format!("k2v_brk_{}", self.n));
            let mut rb = ReplaceBreaks { label: l.label.as_ref().map(|x| x.name.clone()), target: target.clone(), depth: 0, count: 0 };
            rb.visit_block_mut(&mut l.body);
            if rb.count > 0 {
                self.n += 1;
                let lp = l.clone();
                *e = parse_quote! { { let #target; #lp #target } };
            }
        }
    }
}

// ---------------------------------------------------------------------------------------------
// markers (loops numbered in source order)

struct Markers {
    n: usize,
}

impl Markers {
    fn mark_block(&mut self, b: &mut Block) {
        // recurse and add AFTER markers behind loop statements
        let mut out = Vec::new();
        let stmts: Vec<Stmt> = b.stmts.drain(..).collect();
        let last = stmts.len().saturating_sub(1);
        for (i, mut st) in stmts.into_iter().enumerate() {
            let mut after: Option<usize> = None;
            match &mut st {
                Stmt::Expr(e, semi) => {
                    let is_loop = matches!(e, Expr::While(_) | Expr::Loop(_) | Expr::ForLoop(_));
                    let is_while = matches!(e, Expr::While(_));
                    let k = self.n;
                    self.mark_expr(e);
                    if is_loop && (semi.is_some() || i != last || matches!(e, Expr::Verbatim(_))) {
                        // a loop used as a statement; a `while` is always unit-typed, so even in tail position
                        // of a block a marker statement may follow it (the block's value stays `()`)
                        if semi.is_some() || i != last || is_while {
                            after = Some(k);
                        }
                    }
                }
                Stmt::Local(l) => {
                    if let Some(init) = &mut l.init {
                        self.mark_expr(&mut init.expr);
                        if let Some((_, d)) = &mut init.diverge {
                            self.mark_expr(d);
                        }
                    }
                }
                _ => {}
            }
            out.push(st);
            if let Some(k) = after {
                let id = ident(&format!("__K2V_LOOP_{}_AFTER_S__", k));
                out.push(parse_quote! { #id; });
            }
        }
        b.stmts = out;
    }

    fn mark_expr(&mut self, e: &mut Expr) {
        match e {
            Expr::While(w) => {
                let k = self.n;
                self.n += 1;
                self.mark_expr(&mut w.cond);
                self.mark_block(&mut w.body);
                let head = ident(&format!("__K2V_LOOP_{}_SPEC__", k));
                let bs = ident(&format!("__K2V_LOOP_{}_BODY_START_S__", k));
                let be = ident(&format!("__K2V_LOOP_{}_BODY_END_S__", k));
                let label = &w.label;
                let cond = &w.cond;
                let stmts = terminate(&w.body.stmts);
                *e = Expr::Verbatim(quote! { #label while #cond #head { #bs; #(#stmts)* #be; } });
            }
            Expr::Loop(l) => {
                let k = self.n;
                self.n += 1;
                self.mark_block(&mut l.body);
                let head = ident(&format!("__K2V_LOOP_{}_SPEC__", k));
                let bs = ident(&format!("__K2V_LOOP_{}_BODY_START_S__", k));
                let be = ident(&format!("__K2V_LOOP_{}_BODY_END_S__", k));
                let label = &l.label;
                let stmts = terminate(&l.body.stmts);
                *e = Expr::Verbatim(quote! { #label loop #head { #bs; #(#stmts)* #be; } });
            }
            Expr::Block(b) => self.mark_block(&mut b.block),
            Expr::Unsafe(u) => self.mark_block(&mut u.block),
            Expr::If(i) => {
                self.mark_expr(&mut i.cond);
                self.mark_block(&mut i.then_branch);
                if let Some((_, eb)) = &mut i.else_branch {
                    self.mark_expr(eb);
                }
            }
            Expr::Match(m) => {
                self.mark_expr(&mut m.expr);
                for a in m.arms.iter_mut() {
                    self.mark_expr(&mut a.body);
                }
            }
            Expr::Paren(p) => self.mark_expr(&mut p.expr),
            Expr::Assign(a) => self.mark_expr(&mut a.right),
            Expr::Binary(b) => {
                self.mark_expr(&mut b.left);
                self.mark_expr(&mut b.right);
            }
            Expr::Return(r) => {
                if let Some(x) = &mut r.expr {
                    self.mark_expr(x);
                }
            }
            Expr::Break(b) => {
                if let Some(x) = &mut b.expr {
                    self.mark_expr(x);
                }
            }
            Expr::Call(c) => {
                for a in c.args.iter_mut() {
                    self.mark_expr(a);
                }
            }
            Expr::MethodCall(c) => {
                self.mark_expr(&mut c.receiver);
                for a in c.args.iter_mut() {
                    self.mark_expr(a);
                }
            }
            Expr::Tuple(t) => {
                for a in t.elems.iter_mut() {
                    self.mark_expr(a);
                }
            }
            Expr::Let(l) => self.mark_expr(&mut l.expr),
            _ => {}
        }
    }
}

/// a loop body's statements, with a trailing expression turned into a statement (loop bodies are unit-typed)
fn terminate(stmts: &[Stmt]) -> Vec<Stmt> {
    let mut v: Vec<Stmt> = stmts.to_vec();
    if let Some(Stmt::Expr(e, semi @ None)) = v.last_mut() {
        let needs = !matches!(e, Expr::If(_) | Expr::Match(_) | Expr::Block(_) | Expr::While(_) | Expr::Loop(_) | Expr::Unsafe(_) | Expr::Verbatim(_) | Expr::ForLoop(_));
        if needs {
            *semi = Some(Default::default());
        }
    }
    v
}

// ---------------------------------------------------------------------------------------------
// path flattening, `mut self`, attribute stripping

struct Flatten<'a> {
    known: &'a HashSet<String>,
    path_renames: Vec<(String, String)>,
}

impl<'a> Flatten<'a> {
    fn fix(&self, p: &mut Path) {
        if p.segments.len() < 2 {
            return;
        }
        let last = p.segments.last().unwrap().clone();
        let through_reexport = p.segments.iter().any(|s| s.ident == "__");
        let first = p.segments.first().unwrap().ident.to_string();
        let foreign = matches!(first.as_str(), "core" | "std" | "alloc" | "vstd");
        let lower_mod = first.chars().next().map(|c| c.is_lowercase()).unwrap_or(false) && !foreign;
        let from_konst = matches!(first.as_str(), "crate" | "konst" | "konst_kernel" | "self" | "super")
            || (lower_mod && !INT_TYPES.contains(&first.as_str()) && first != "str" && first != "char" && first != "bool");
        if through_reexport || (from_konst && self.known.contains(&last.ident.to_string())) {
            // keep an enum-variant / assoc path of two trailing segments when the type is known
            let n = p.segments.len();
            let prev = p.segments[n - 2].ident.to_string();
            let prev_is_type = prev.chars().next().map(|c| c.is_uppercase()).unwrap_or(false);
            let keep_two = (!through_reexport && self.known.contains(&prev) && prev_is_type) || (through_reexport && prev_is_type && prev != "__");
            let mut np = Path { leading_colon: None, segments: Default::default() };
            if keep_two {
                np.segments.push(p.segments[n - 2].clone());
            }
            np.segments.push(last);
            *p = np;
        } else if from_konst {
            // Type::method / Enum::Variant where the type is known: crate::a::Type::m -> Type::m
            let n = p.segments.len();
            let prev = p.segments[n - 2].ident.to_string();
            if self.known.contains(&prev) {
                let mut np = Path { leading_colon: None, segments: Default::default() };
                np.segments.push(p.segments[n - 2].clone());
                np.segments.push(last);
                *p = np;
            }
        }
    }
}

impl<'a> VisitMut for Flatten<'a> {
    fn visit_path_mut(&mut self, p: &mut Path) {
        visit_mut::visit_path_mut(self, p);
        self.fix(p);
    }
    fn visit_attribute_mut(&mut self, _a: &mut Attribute) {}
}

struct StripAttrs;
impl VisitMut for StripAttrs {
    fn visit_expr_mut(&mut self, e: &mut Expr) {
        visit_mut::visit_expr_mut(self, e);
        // drop `#[allow(..)]`-style attributes on expressions (keep verifier::truncate that we add later)
        macro_rules! clear {
            ($($v:ident),*) => { match e { $(Expr::$v(x) => x.attrs.retain(|a| a.path().segments.first().map(|s| s.ident == "verifier").unwrap_or(false)),)* _ => {} } };
        }
        clear!(Match, If, While, Loop, Block, Unsafe, Call, MethodCall, Binary, Assign, Cast, Paren, Let, Return, Break, Tuple, Index, Field, Path, Lit, Unary, Reference, Struct, Array, Closure, Range, Repeat, Continue, Macro);
    }
    fn visit_local_mut(&mut self, l: &mut Local) {
        l.attrs.clear();
        visit_mut::visit_local_mut(self, l);
    }
    fn visit_arm_mut(&mut self, a: &mut Arm) {
        a.attrs.clear();
        visit_mut::visit_arm_mut(self, a);
    }
    fn visit_stmt_mut(&mut self, s: &mut Stmt) {
        visit_mut::visit_stmt_mut(self, s);
    }
    fn visit_block_mut(&mut self, b: &mut Block) {
        // nested macro_rules!/use items inside bodies are not executable
        b.stmts.retain(|s| !matches!(s, Stmt::Item(Item::Macro(_)) | Stmt::Item(Item::Use(_)) | Stmt::Item(Item::Fn(_))) && !matches!(s, Stmt::Item(Item::Type(t)) if t.ident == "Type"));
        visit_mut::visit_block_mut(self, b);
    }
}

struct SelfToThis;
impl VisitMut for SelfToThis {
    fn visit_path_mut(&mut self, p: &mut Path) {
        if p.segments.len() == 1 && p.segments[0].ident == "self" {
            p.segments[0].ident = ident("this__");
        }
        visit_mut::visit_path_mut(self, p);
    }
}

// ---------------------------------------------------------------------------------------------

struct Stats {
    slice_pats: usize,
    casts: usize,
    loops: usize,
}

struct UseAliases {
    aliases: Vec<(String, String)>,
}
impl UseAliases {
    fn tree(&mut self, t: &UseTree, last: Option<String>) {
        match t {
            UseTree::Path(p) => self.tree(&p.tree, Some(p.ident.to_string())),
            UseTree::Rename(r) => self.aliases.push((r.rename.to_string(), r.ident.to_string())),
            UseTree::Group(g) => {
                for i in g.items.iter() {
                    self.tree(i, last.clone());
                }
            }
            _ => {}
        }
    }
}
impl<'ast> syn::visit::Visit<'ast> for UseAliases {
    fn visit_item_use(&mut self, u: &'ast ItemUse) {
        self.tree(&u.tree, None);
    }
}

fn lower_fn_parts(sig: &mut Signature, block: &mut Block, errors: &mut Vec<String>, what: &str) -> (TokenStream, Stats) {
    sig.constness = None;
    // D1: `use a::B as C;` items inside bodies are dropped; their aliases are renamed back (C -> B)
    let mut ua = UseAliases { aliases: Vec::new() };
    {
        use syn::visit::Visit;
        ua.visit_block(block);
    }
    // L6: `mut self` by value -> `self` + `let mut this__ = self;`
    let mut mut_self = false;
    if let Some(FnArg::Receiver(r)) = sig.inputs.first_mut() {
        if r.reference.is_none() && r.mutability.is_some() {
            r.mutability = None;
            mut_self = true;
        }
    }
    // L9: a destructuring pattern in a parameter position `Pat: T` -> `arg__K: T` + `let Pat = arg__K;` as the first statement
    let mut param_lets: Vec<Stmt> = Vec::new();
    for (k, a) in sig.inputs.iter_mut().enumerate() {
        if let FnArg::Typed(pt) = a {
            if !matches!(&*pt.pat, Pat::Ident(_)) {
                let name = ident(&format!("arg__{}", k));
                let pat = (*pt.pat).clone();
                param_lets.push(parse_quote! { let #pat = #name; });
                pt.pat = Box::new(parse_quote!(#name));
            }
        }
    }
    StripAttrs.visit_block_mut(block);
    if mut_self {
        SelfToThis.visit_block_mut(block);
        block.stmts.insert(0, parse_quote! { let mut this__ = self; });
    }
    {
        use syn::visit::Visit;
        let mut bf = BoolFlags { flags: HashSet::new() };
        bf.visit_block(block);
        let mut bo = BitOrToOr { flags: bf.flags, n: 0 };
        bo.visit_block_mut(block);
        let mut lu = LabelUse { used: HashSet::new() };
        lu.visit_block(block);
        let mut dl = DropUnusedLabels { used: lu.used };
        dl.visit_block_mut(block);
    }
    let mut lw = Lower { errors: Vec::new(), tmp: 0, n_slice_pats: 0, n_casts: 0, n_panics: 0 };
    lw.visit_block_mut(block);
    for e in lw.errors.iter() {
        errors.push(format!("{}: {}", what, e));
    }
    let mut bv = BreakValues { n: 0 };
    bv.visit_block_mut(block);
    let mut mk = Markers { n: 0 };
    mk.mark_block(block);
    let stats = Stats { slice_pats: lw.n_slice_pats, casts: lw.n_casts, loops: mk.n };
    // A2: a non-unit tail expression `e` becomes `let ret__ = e; <BODY_END marker>; ret__`
    // (a place for proof hints after the last call; evaluation order is unchanged)
    let returns_value = match &sig.output {
        ReturnType::Default => false,
        ReturnType::Type(_, t) => !matches!(&**t, Type::Never(_)),
    };
    if returns_value {
        if let Some(Stmt::Expr(e, None)) = block.stmts.last().cloned() {
            let is_loop = matches!(e, Expr::Verbatim(_) | Expr::Loop(_) | Expr::While(_));
            if !is_loop {
                block.stmts.pop();
                let be = ident("__K2V_BODY_END_S__");
                block.stmts.push(Stmt::Local(Local {
                    attrs: Vec::new(),
                    let_token: Default::default(),
                    pat: parse_quote!(ret__),
                    init: Some(LocalInit { eq_token: Default::default(), expr: Box::new(e), diverge: None }),
                    semi_token: Default::default(),
                }));
                block.stmts.push(parse_quote! { #be; });
                block.stmts.push(Stmt::Expr(parse_quote! { ret__ }, None));
            }
        }
    }
    let stmts = &block.stmts;
    let spec = ident("__K2V_SPEC__");
    let bs = ident("__K2V_BODY_START_S__");
    // signature with a named return value
    let Signature { unsafety, ident: name, generics, inputs, output, .. } = sig.clone();
    let (ig, _, wc) = generics.split_for_impl();
    let ret = match &output {
        ReturnType::Default => quote! {},
        ReturnType::Type(_, t) => match &**t {
            Type::Never(_) => quote! { -> ! },
            t => quote! { -> (ret: #t) },
        },
    };
    let mut ts = quote! {
        #[verifier::loop_isolation(false)]
        pub #unsafety fn #name #ig (#inputs) #ret #wc #spec { #(#param_lets)* #bs; #(#stmts)* }
    };
    if !ua.aliases.is_empty() {
        ts = rename_idents(ts, &ua.aliases);
    }
    (ts, stats)
}

/// L5: the pattern traits are abstracted; the only supertrait the code relies on (`Pattern<'a>: Copy`) is kept
fn strip_bounds(g: &mut Generics) {
    let had_pattern = |tp: &TypeParam, wc: &Option<WhereClause>| -> bool {
        let in_bounds = tp.bounds.iter().any(|b| matches!(b, TypeParamBound::Trait(t) if t.path.segments.last().map(|s| s.ident == "Pattern").unwrap_or(false)));
        let in_where = wc.as_ref().map(|w| w.predicates.iter().any(|p| match p {
            WherePredicate::Type(pt) => matches!(&pt.bounded_ty, Type::Path(q) if q.path.is_ident(&tp.ident))
                && pt.bounds.iter().any(|b| matches!(b, TypeParamBound::Trait(t) if t.path.segments.last().map(|s| s.ident == "Pattern").unwrap_or(false))),
            _ => false,
        })).unwrap_or(false);
        in_bounds || in_where
    };
    let wc = g.where_clause.clone();
    for gp in g.params.iter_mut() {
        if let GenericParam::Type(tp) = gp {
            let keep_copy = had_pattern(tp, &wc);
            tp.bounds.clear();
            tp.colon_token = None;
            if keep_copy {
                tp.colon_token = Some(Default::default());
                tp.bounds.push(parse_quote!(Copy));
            }
        }
    }
    g.where_clause = None;
}

fn make_pub_fields(it: &mut Item) {
    match it {
        Item::Struct(s) => {
            s.attrs.retain(|a| a.path().is_ident("repr"));
            s.vis = parse_quote! { pub };
            for f in s.fields.iter_mut() {
                f.vis = parse_quote! { pub };
                f.attrs.clear();
            }
        }
        Item::Enum(e) => {
            e.attrs.retain(|a| a.path().is_ident("repr"));
            e.vis = parse_quote! { pub };
            for v in e.variants.iter_mut() {
                v.attrs.clear();
                for f in v.fields.iter_mut() {
                    f.attrs.clear();
                }
            }
        }
        _ => {}
    }
}

// ---------------------------------------------------------------------------------------------
// printing

fn print_tokens(ts: TokenStream, indent: usize, out: &mut String) {
    let pad = |n: usize| "    ".repeat(n);
    let mut at_line_start = true;
    let mut prev_joint = false;
    let mut prev: Option<String> = None;
    for tt in ts {
        match tt {
            TokenTree::Group(g) => {
                let (o, c) = match g.delimiter() {
                    Delimiter::Brace => ("{", "}"),
                    Delimiter::Parenthesis => ("(", ")"),
                    Delimiter::Bracket => ("[", "]"),
                    Delimiter::None => ("", ""),
                };
                if g.delimiter() == Delimiter::Brace {
                    if at_line_start {
                        out.push_str(&pad(indent));
                    } else {
                        out.push(' ');
                    }
                    out.push_str("{\n");
                    print_tokens(g.stream(), indent + 1, out);
                    if !out.ends_with('\n') {
                        out.push('\n');
                    }
                    out.push_str(&pad(indent));
                    out.push_str("}\n");
                    at_line_start = true;
                    prev = Some("}".into());
                } else {
                    if at_line_start {
                        out.push_str(&pad(indent));
                        at_line_start = false;
                    } else {
                        let glue = matches!(prev.as_deref(), Some(p) if (p.chars().all(|c| c.is_alphanumeric() || c == '_') && !is_kw(p) && o == "(") || p == ")" || p == "]" || (o == "[" && p.chars().all(|c| c.is_alphanumeric() || c == '_') && !is_kw(p)) || p == "!" || p == "#" || p == "." || p == "::");
                        if !glue && !prev_joint {
                            out.push(' ');
                        }
                    }
                    out.push_str(o);
                    let mut inner = String::new();
                    print_tokens(g.stream(), indent + 1, &mut inner);
                    // inner may contain newlines (closures/blocks); keep as is
                    let trimmed = inner.trim();
                    out.push_str(trimmed);
                    out.push_str(c);
                    prev = Some(c.into());
                }
                prev_joint = false;
            }
            TokenTree::Punct(p) => {
                let ch = p.as_char();
                if at_line_start {
                    out.push_str(&pad(indent));
                    at_line_start = false;
                } else if !prev_joint {
                    let tight = matches!(ch, ',' | ';' | '.' | '?') || (ch == ':' && false);
                    let after_tight = matches!(prev.as_deref(), Some(".") | Some("::"));
                    if !(tight || after_tight) {
                        out.push(' ');
                    }
                }
                out.push(ch);
                prev_joint = p.spacing() == proc_macro2::Spacing::Joint;
                let s = if prev_joint { format!("{}…", ch) } else { ch.to_string() };
                // track `::` and `.` for glue decisions
                if ch == ':' && matches!(prev.as_deref(), Some(":…")) {
                    prev = Some("::".into());
                } else {
                    prev = Some(s);
                }
                if ch == ';' {
                    out.push('\n');
                    at_line_start = true;
                }
            }
            other => {
                let s = other.to_string();
                if at_line_start {
                    out.push_str(&pad(indent));
                    at_line_start = false;
                } else if !prev_joint {
                    let after_tight = matches!(prev.as_deref(), Some(".") | Some("::"));
                    if !after_tight {
                        out.push(' ');
                    }
                }
                out.push_str(&s);
                prev = Some(s);
                prev_joint = false;
            }
        }
    }
}

fn is_kw(s: &str) -> bool {
    matches!(s, "if" | "while" | "match" | "return" | "in" | "let" | "else" | "loop" | "for" | "as" | "break" | "continue" | "mut" | "ref" | "move" | "fn" | "where" | "unsafe" | "impl" | "pub" | "dyn" | "const" | "static" | "struct" | "enum" | "type" | "use" | "mod" | "trait" | "yield" | "await" | "async" | "invariant" | "requires" | "ensures" | "decreases")
}

// ---------------------------------------------------------------------------------------------

fn main() {
    let args: Vec<String> = std::env::args().collect();
    let mut crates: Vec<(String, String)> = Vec::new();
    let mut req_path = String::new();
    let mut i = 1;
    while i < args.len() {
        match args[i].as_str() {
            "--crate" => {
                let (n, p) = args[i + 1].split_once('=').unwrap_or_else(|| die("--crate name=path"));
                crates.push((n.to_string(), p.to_string()));
                i += 2;
            }
            "--req" => {
                req_path = args[i + 1].clone();
                i += 2;
            }
            _ => die("usage: k2v --crate name=expanded.rs … --req requests"),
        }
    }
    let mut idx = Index::default();
    for (name, path) in &crates {
        let src = std::fs::read_to_string(path).unwrap_or_else(|e| die(&format!("{}: {}", path, e)));
        let file = syn::parse_file(&src).unwrap_or_else(|e| die(&format!("parse {}: {}", path, e)));
        index_items(name, &file.items, &mut idx);
    }
    let reqs = std::fs::read_to_string(&req_path).unwrap_or_else(|e| die(&format!("{}: {}", req_path, e)));

    enum Req {
        Fn(String, Option<String>, Vec<(String, String)>, bool),
        Impl(String, Vec<String>, Vec<(String, String)>, bool),
        Ty(String, bool, Vec<(String, String)>),
    }
    let mut rs = Vec::new();
    let mut known: HashSet<String> = HashSet::new();
    for line in reqs.lines() {
        let line = line.split('#').next().unwrap().trim();
        if line.is_empty() {
            continue;
        }
        let w: Vec<&str> = line.split_whitespace().collect();
        match w[0] {
            "fn" => {
                let newname = if w.len() >= 4 && w[2] == "as" { Some(w[3].to_string()) } else { None };
                let mut renames = Vec::new();
                if let Some(pos) = w.iter().position(|x| *x == "with") {
                    for pair in w[pos + 1..].iter().take_while(|x| **x != "nobounds").flat_map(|x| x.split(',')) {
                        if let Some((a, b)) = pair.split_once('=') {
                            renames.push((a.to_string(), b.to_string()));
                            known.insert(b.to_string());
                        }
                    }
                }
                let base = w[1].rsplit("::").next().unwrap().to_string();
                known.insert(newname.clone().unwrap_or(base.clone()));
                known.insert(base);
                let nobounds = w.iter().any(|x| *x == "nobounds");
                rs.push(Req::Fn(w[1].to_string(), newname, renames, nobounds));
            }
            "impl" => {
                known.insert(w[1].rsplit("::").next().unwrap().to_string());
                let nobounds = w.iter().any(|x| *x == "nobounds");
                let w: Vec<&str> = w.iter().cloned().filter(|x| *x != "nobounds").collect();
                let wpos = w.iter().position(|x| *x == "with").unwrap_or(w.len());
                let mut renames = Vec::new();
                for pair in w[(wpos + 1).min(w.len())..].iter().flat_map(|x| x.split(',')) {
                    if let Some((a, b)) = pair.split_once('=') {
                        renames.push((a.to_string(), b.to_string()));
                        known.insert(b.to_string());
                    }
                }
                rs.push(Req::Impl(w[1].to_string(), w[2..wpos].iter().map(|s| s.to_string()).collect(), renames, nobounds));
            }
            "struct" | "enum" => {
                known.insert(w[1].rsplit("::").next().unwrap().to_string());
                let mut renames = Vec::new();
                if let Some(pos) = w.iter().position(|x| *x == "with") {
                    for pair in w[pos + 1..].iter().take_while(|x| **x != "nobounds").flat_map(|x| x.split(',')) {
                        if let Some((a, b)) = pair.split_once('=') {
                            renames.push((a.to_string(), b.to_string()));
                            known.insert(b.to_string());
                        }
                    }
                }
                rs.push(Req::Ty(w[1].to_string(), w.iter().any(|x| *x == "nobounds"), renames));
            }
            "known" => {
                for k in &w[1..] {
                    known.insert(k.to_string());
                }
            }
            _ => die(&format!("bad request line: {}", line)),
        }
    }

    let mut errors: Vec<String> = Vec::new();
    let mut missing: Vec<String> = Vec::new();
    let mut out = String::new();
    let mut report = String::new();
    for r in rs {
        match r {
            Req::Fn(path, newname, renames, nobounds) => {
                let Some(f) = idx.fns.get(&path) else {
                    missing.push(path);
                    continue;
                };
                let mut f = f.clone();
                if let Some(n) = &newname {
                    f.sig.ident = ident(n);
                }
                let (mut ts, st) = {
                    let mut sig = f.sig.clone();
                    if nobounds {
                        // L5: the pattern traits are abstracted (DESIGN 4.2): bounds and where-clauses are dropped
                        strip_bounds(&mut sig.generics);
                    }
                    let mut block = (*f.block).clone();
                    lower_fn_parts(&mut sig, &mut block, &mut errors, &path)
                };
                let mut fl = Flatten { known: &known, path_renames: renames.iter().filter(|(a, _)| a.contains("::")).cloned().collect() };
                ts = flatten_tokens(ts, &mut fl);
                let id_renames: Vec<(String, String)> = renames.iter().filter(|(a, _)| !a.contains("::")).cloned().collect();
                if !id_renames.is_empty() {
                    ts = rename_idents(ts, &id_renames);
                }
                let name = newname.clone().unwrap_or_else(|| f.sig.ident.to_string());
                {
                    // nested fn items are dropped from the body, so they are not counted on the source side
                    let mut src_block = (*f.block).clone();
                    src_block.stmts.retain(|s| !matches!(s, Stmt::Item(Item::Fn(_)) | Stmt::Item(Item::Macro(_))));
                    for kw in GUARD_KEYWORDS {
                        let a = count_ident(src_block.to_token_stream(), kw);
                        let b = count_ident(ts.clone(), kw);
                        if a != b {
                            errors.push(format!("{}: translation guard: {} `{}` in the source, {} after lowering", path, a, kw, b));
                        }
                    }
                }
                out.push_str(&format!("//@@ITEM fn {} {}\n", path, name));
                print_tokens(ts, 0, &mut out);
                out.push_str("//@@END\n\n");
                report.push_str(&format!("fn {} as {} slice_patterns={} casts={} loops={}\n", path, name, st.slice_pats, st.casts, st.loops));
            }
            Req::Impl(path, methods, renames, nobounds) => {
                let Some(impls) = idx.impls.get(&path) else {
                    missing.push(path);
                    continue;
                };
                let mut found: HashSet<String> = HashSet::new();
                for (k, im) in impls.iter().enumerate() {
                    let mut fns_ts = Vec::new();
                    for it in &im.items {
                        if let ImplItem::Const(c) = it {
                            // associated constants are emitted as they are
                            let name = c.ident.to_string();
                            if methods.contains(&name) {
                                found.insert(name.clone());
                                let (cn, ct, ce) = (&c.ident, &c.ty, &c.expr);
                                fns_ts.push((format!("const_{}", name), quote! { pub const #cn: #ct = #ce; }));
                            }
                        }
                        if let ImplItem::Fn(m) = it {
                            let name = m.sig.ident.to_string();
                            if methods.contains(&name) {
                                found.insert(name.clone());
                                let mut sig = m.sig.clone();
                                if nobounds {
                                    strip_bounds(&mut sig.generics);
                                }
                                let mut block = m.block.clone();
                                let what = format!("{}#{}::{}", path, k, name);
                                let (ts, st) = lower_fn_parts(&mut sig, &mut block, &mut errors, &what);
                                {
                                    let mut src_block = m.block.clone();
                                    src_block.stmts.retain(|s| !matches!(s, Stmt::Item(Item::Fn(_)) | Stmt::Item(Item::Macro(_))));
                                    let lowered = flatten_tokens(ts.clone(), &mut Flatten { known: &known, path_renames: Vec::new() });
                                    for kw in GUARD_KEYWORDS {
                                        let a = count_ident(src_block.to_token_stream(), kw);
                                        let b = count_ident(lowered.clone(), kw);
                                        if a != b {
                                            errors.push(format!("{}: translation guard: {} `{}` in the source, {} after lowering", what, a, kw, b));
                                        }
                                    }
                                }
                                report.push_str(&format!("method {} slice_patterns={} casts={} loops={}\n", what, st.slice_pats, st.casts, st.loops));
                                fns_ts.push((name, ts));
                            }
                        }
                    }
                    if fns_ts.is_empty() {
                        continue;
                    }
                    let mut impl_generics = im.generics.clone();
                    if nobounds {
                        strip_bounds(&mut impl_generics);
                    }
                    let (ig, _, wc) = impl_generics.split_for_impl();
                    let self_ty = &im.self_ty;
                    let body: Vec<TokenStream> = fns_ts.iter().map(|(n, ts)| {
                        let tag = ident(&format!("__K2V_METHOD_{}_{}__", k, n));
                        quote! { #tag #ts }
                    }).collect();
                    let mut ts = quote! { impl #ig #self_ty #wc { #(#body)* } };
                    let mut fl = Flatten { known: &known, path_renames: renames.iter().filter(|(a, _)| a.contains("::")).cloned().collect() };
                    ts = flatten_tokens(ts, &mut fl);
                    let id_renames: Vec<(String, String)> = renames.iter().filter(|(a, _)| !a.contains("::")).cloned().collect();
                    if !id_renames.is_empty() {
                        ts = rename_idents(ts, &id_renames);
                    }
                    out.push_str(&format!("//@@ITEM impl {} #{}\n", path, k));
                    print_tokens(ts, 0, &mut out);
                    out.push_str("//@@END\n\n");
                }
                for m in methods {
                    if !found.contains(&m) {
                        missing.push(format!("{}::{}", path, m));
                    }
                }
            }
            Req::Ty(path, nobounds, renames) => {
                let Some(it) = idx.types.get(&path) else {
                    missing.push(path);
                    continue;
                };
                let mut it = it.clone();
                make_pub_fields(&mut it);
                if nobounds {
                    let g: Option<&mut Generics> = match &mut it {
                        Item::Struct(s) => Some(&mut s.generics),
                        Item::Enum(e) => Some(&mut e.generics),
                        _ => None,
                    };
                    if let Some(g) = g {
                        strip_bounds(g);
                    }
                }
                let mut ts = it.to_token_stream();
                if nobounds {
                    // type parameters whose bounds were dropped may sit under an abstracted (external) type:
                    // Verus asks for this attribute then; it only restricts recursive instantiation
                    let gens: Vec<Ident> = match &it {
                        Item::Struct(s) => s.generics.type_params().map(|t| t.ident.clone()).collect(),
                        Item::Enum(e) => e.generics.type_params().map(|t| t.ident.clone()).collect(),
                        _ => Vec::new(),
                    };
                    for gname in gens {
                        ts = quote! { #[verifier::reject_recursive_types(#gname)] #ts };
                    }
                }
                if idx.copy_types.contains(&path) {
                    ts = quote! { #[derive(Clone, Copy)] #ts };
                }
                if idx.eq_types.contains(&path) {
                    ts = quote! { #[derive(PartialEq, Eq)] #ts };
                }
                let mut fl = Flatten { known: &known, path_renames: Vec::new() };
                ts = flatten_tokens(ts, &mut fl);
                if !renames.is_empty() {
                    ts = rename_idents(ts, &renames);
                }
                out.push_str(&format!("//@@ITEM type {}\n", path));
                print_tokens(ts, 0, &mut out);
                out.push_str("//@@END\n\n");
            }
        }
    }
    print!("{}", out);
    eprint!("{}", report);
    for m in &missing {
        eprintln!("MISSING {}", m);
    }
    for e in &errors {
        eprintln!("UNSUPPORTED {}", e);
    }
    if !missing.is_empty() {
        std::process::exit(4);
    }
    if !errors.is_empty() {
        std::process::exit(5);
    }
}

/// G1 translation guard: control-flow keywords whose number of occurrences must be the same in the source body and in the lowered text
/// (every lowering rule keeps them: `while let` -> `while`, break-with-value keeps its `break`, match arms keep their `return`s)
const GUARD_KEYWORDS: [&str; 5] = ["return", "break", "continue", "while", "loop"];

/// translation guard: number of occurrences of an identifier token
fn count_ident(ts: TokenStream, name: &str) -> usize {
    ts.into_iter()
        .map(|tt| match tt {
            TokenTree::Group(g) => count_ident(g.stream(), name),
            TokenTree::Ident(i) => (i == name) as usize,
            _ => 0,
        })
        .sum()
}

fn rename_idents(ts: TokenStream, renames: &[(String, String)]) -> TokenStream {
    ts.into_iter()
        .map(|tt| match tt {
            TokenTree::Group(g) => {
                let mut ng = proc_macro2::Group::new(g.delimiter(), rename_idents(g.stream(), renames));
                ng.set_span(g.span());
                TokenTree::Group(ng)
            }
            TokenTree::Ident(i) => {
                let s = i.to_string();
                match renames.iter().find(|(a, _)| *a == s) {
                    Some((_, b)) => TokenTree::Ident(Ident::new(b, i.span())),
                    None => TokenTree::Ident(i),
                }
            }
            other => other,
        })
        .collect()
}

/// Flattening works on the syn AST; items containing `Verbatim` parts are handled by re-parsing
/// what can be parsed: we instead rewrite *token-level* paths `a :: b :: c`.
fn flatten_tokens(ts: TokenStream, fl: &mut Flatten) -> TokenStream {
    // collect maximal `ident (:: ident)*` runs at this level and rewrite them through Flatten::fix
    let toks: Vec<TokenTree> = ts.into_iter().collect();
    let mut out: Vec<TokenTree> = Vec::new();
    let mut i = 0;
    let is_colon2 = |a: &TokenTree, b: &TokenTree| matches!((a, b), (TokenTree::Punct(x), TokenTree::Punct(y)) if x.as_char() == ':' && x.spacing() == proc_macro2::Spacing::Joint && y.as_char() == ':');
    while i < toks.len() {
        match &toks[i] {
            TokenTree::Group(g) => {
                let inner = flatten_tokens(g.stream(), fl);
                let mut ng = proc_macro2::Group::new(g.delimiter(), inner);
                ng.set_span(g.span());
                out.push(TokenTree::Group(ng));
                i += 1;
            }
            TokenTree::Ident(_) | TokenTree::Punct(_) => {
                // optional leading `::`
                let mut j = i;
                let mut segs: Vec<Ident> = Vec::new();
                let mut leading = false;
                if j + 2 < toks.len() && is_colon2(&toks[j], &toks[j + 1]) {
                    if let TokenTree::Ident(_) = &toks[j + 2] {
                        // leading `::` only if previous token is not an ident / `>` (i.e. not a path continuation)
                        let arrow = out.len() >= 2 && matches!(&out[out.len() - 2], TokenTree::Punct(q) if (q.as_char() == '=' || q.as_char() == '-') && q.spacing() == proc_macro2::Spacing::Joint);
                        let prev_kw = matches!(out.last(), Some(TokenTree::Ident(pi)) if is_kw(&pi.to_string()));
                        let cont = (matches!(out.last(), Some(TokenTree::Ident(_))) && !prev_kw) || (matches!(out.last(), Some(TokenTree::Punct(p)) if p.as_char() == '>') && !arrow);
                        if !cont {
                            leading = true;
                            j += 2;
                        }
                    }
                }
                if let TokenTree::Ident(id) = &toks[j] {
                    // a keyword in front of `::path` (`return ::a::b`, `break ::a::b`, `in ::a::b`, ...) is not a path segment
                    let kw = id.to_string();
                    if !leading && is_kw(&kw) && !matches!(kw.as_str(), "crate" | "self" | "super" | "Self") {
                        out.push(toks[i].clone());
                        i += 1;
                        continue;
                    }
                    segs.push(id.clone());
                    j += 1;
                    while j + 2 < toks.len() + 0 && j + 1 < toks.len() && is_colon2(&toks[j], &toks[j + 1]) {
                        if j + 2 < toks.len() {
                            if let TokenTree::Ident(id2) = &toks[j + 2] {
                                segs.push(id2.clone());
                                j += 3;
                                continue;
                            }
                        }
                        break;
                    }
                    if segs.len() >= 2 {
                        let mut p = Path { leading_colon: if leading { Some(Default::default()) } else { None }, segments: Default::default() };
                        for s in &segs {
                            p.segments.push(PathSegment { ident: s.clone(), arguments: PathArguments::None });
                        }
                        let joined: String = segs.iter().map(|s| s.to_string()).collect::<Vec<_>>().join("::");
                        if let Some((_, to)) = fl.path_renames.iter().find(|(from, _)| joined == *from || joined.ends_with(&format!("::{}", from))) {
                            out.push(TokenTree::Ident(Ident::new(to, Span::call_site())));
                            i = j;
                            continue;
                        }
                        let before = p.segments.len();
                        fl.fix(&mut p);
                        if p.segments.len() != before {
                            p.leading_colon = None;
                        }
                        out.extend(p.to_token_stream());
                        i = j;
                        continue;
                    } else if leading {
                        out.push(toks[i].clone());
                        i += 1;
                        continue;
                    } else {
                        out.push(toks[i].clone());
                        i += 1;
                        continue;
                    }
                } else {
                    out.push(toks[i].clone());
                    i += 1;
                }
            }
            other => {
                out.push(other.clone());
                i += 1;
            }
        }
    }
    out.into_iter().collect()
}
