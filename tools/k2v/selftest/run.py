#!/usr/bin/env python3
"""k2v self-test (translation validation of the lowering RULES on konst-shaped idioms).

  cases.rs --rustc -Zunpretty=expanded--> cases.exp.rs --k2v--> lowered items --strip Verus-only tokens--> lowered.rs
  main.rs = mod orig { cases.rs }  +  mod low { lowered.rs }  +  a driver that calls every case in both modules on every
  input of an exhaustive small domain (all pairs of byte strings of length <= 4 over {0,1,2,0x80}, 8 values of n) and
  compares results, including panics.  Exit 0 = all equal, 1 = a difference (k2v is broken: every V verdict is void), 2 = could not run.
Usage: run.py [workdir]   (default: a fresh directory under /var/tmp, removed afterwards)"""
import os, re, subprocess, sys, shutil, tempfile, json, time
HERE = os.path.dirname(os.path.abspath(__file__))
K2V = os.path.join(HERE, "..", "target", "release", "k2v")
CASES = os.path.join(HERE, "cases.rs")


def sh(cmd, cwd=None, timeout=900):
    p = subprocess.run(cmd, cwd=cwd, capture_output=True, text=True, timeout=timeout)
    return p.returncode, p.stdout, p.stderr


def strip_named_return(text):
    out = []
    i = 0
    while True:
        j = text.find("-> (ret :", i)
        if j < 0:
            out.append(text[i:])
            break
        out.append(text[i:j])
        k = j + len("-> (")
        depth = 1
        while depth:
            c = text[k]
            depth += (c == "(") - (c == ")")
            k += 1
        inner = text[j + len("-> (ret :"):k - 1]
        out.append("-> " + inner.strip() + " ")
        i = k
    return "".join(out)


def main():
    wd = sys.argv[1] if len(sys.argv) > 1 else tempfile.mkdtemp(prefix="k2v-selftest.", dir="/var/tmp")
    keep = len(sys.argv) > 1
    os.makedirs(wd, exist_ok=True)
    t0 = time.time()
    try:
        src = open(CASES).read()
        cases = re.findall(r"^pub fn (case_\w+)\(", src, re.M)
        rc, out, err = sh(["rustc", "+nightly", "--edition", "2021", "--crate-type", "lib", "--crate-name", "cases", "-Zunpretty=expanded", CASES])
        if rc != 0 or not out.strip():
            print("k2v-selftest: expansion failed\n" + err[-2000:]); return 2
        exp = os.path.join(wd, "cases.exp.rs")
        open(exp, "w").write(out)
        req = ["fn cases::%s" % c for c in cases] + ["fn cases::join_len", "fn cases::case_deref_scrutinee::id",
                                                     "struct cases::Args", "struct cases::Chunker", "impl cases::Chunker next next_back"]
        open(os.path.join(wd, "req.txt"), "w").write("\n".join(req) + "\n")
        rc, out, err = sh([K2V, "--crate", "cases=" + exp, "--req", os.path.join(wd, "req.txt")])
        if rc != 0:
            print("k2v-selftest: k2v exit %d\n%s" % (rc, err[-3000:])); return 1 if "translation guard" in err else 2
        low = out
        low = re.sub(r"__K2V_(?:LOOP_\d+_)?SPEC__", "", low)
        low = re.sub(r"__K2V_\w+?_S__\s*;", "", low)
        low = re.sub(r"__K2V_METHOD_\d+_\w+?__", "", low)
        low = re.sub(r"#\s*\[\s*verifier\s*::[^\]]*\]", "", low)
        low = strip_named_return(low)
        open(os.path.join(wd, "lowered.rs"), "w").write(low)
        calls = "\n".join('        check("%s", orig::%s, low::%s, a, b, n, &mut stats);' % (c, c, c) for c in cases)
        main_rs = r'''
#![allow(unused, non_snake_case, unused_parens, unused_braces, unreachable_code, unused_mut, unused_assignments)]
mod orig { include!("%s"); }
mod low {
    pub fn slice_subrange<T>(s: &[T], a: usize, b: usize) -> &[T] { &s[a..b] }
    pub fn k2v_panic() -> ! { panic!("k2v_panic") }
    use core::cmp::Ordering;
    include!("lowered.rs");
}
use std::panic::{catch_unwind, AssertUnwindSafe};
fn check(name: &str, f: fn(&[u8], &[u8], usize) -> u64, g: fn(&[u8], &[u8], usize) -> u64, a: &[u8], b: &[u8], n: usize, stats: &mut (u64, u64, u64)) {
    let x = catch_unwind(AssertUnwindSafe(|| f(a, b, n))).ok();
    let y = catch_unwind(AssertUnwindSafe(|| g(a, b, n))).ok();
    stats.0 += 1;
    if x.is_none() { stats.1 += 1; }
    if x != y {
        stats.2 += 1;
        if stats.2 <= 10 { println!("DIFF {} a={:?} b={:?} n={:?} orig={:?} lowered={:?}", name, a, b, n, x, y); }
    }
}
fn main() {
    std::panic::set_hook(Box::new(|_| {}));
    let alpha = [0u8, 1, 2, 0x80];
    let mut strs: Vec<Vec<u8>> = vec![vec![]];
    let mut frontier: Vec<Vec<u8>> = vec![vec![]];
    for _ in 0..4 {
        let mut nf = Vec::new();
        for s in &frontier { for c in alpha { let mut t = s.clone(); t.push(c); nf.push(t); } }
        strs.extend(nf.iter().cloned());
        frontier = nf;
    }
    let ns = [0usize, 1, 2, 3, 4, 5, 130, usize::MAX];
    let mut stats = (0u64, 0u64, 0u64);
    for a in &strs { for b in &strs { for &n in &ns {
        let (a, b) = (&a[..], &b[..]);
%s
    } } }
    println!("K2V-SELFTEST cases=%d evaluations={} panicking={} differences={}", stats.0, stats.1, stats.2);
    std::process::exit(if stats.2 == 0 { 0 } else { 1 });
}
''' % (CASES, calls, len(cases))
        open(os.path.join(wd, "main.rs"), "w").write(main_rs)
        rc, out, err = sh(["rustc", "--edition", "2021", "-O", "-C", "overflow-checks=on", "-C", "debug-assertions=on", "-o", os.path.join(wd, "selftest"), os.path.join(wd, "main.rs")], cwd=wd)
        if rc != 0:
            print("k2v-selftest: the lowered text does not compile as plain Rust\n" + err[-4000:]); return 2
        rc, out, err = sh([os.path.join(wd, "selftest")], timeout=1800)
        print(out.strip()[-3000:])
        print("k2v-selftest: %s in %.0fs" % ("lowered == original on every input" if rc == 0 else "MISMATCH (rc=%d)" % rc, time.time() - t0))
        return 0 if rc == 0 else (1 if rc == 1 else 2)
    finally:
        if not keep:
            shutil.rmtree(wd, ignore_errors=True)


if __name__ == "__main__":
    sys.exit(main())
