// k2v self-test cases: small functions written in konst's idioms, one or more per lowering rule.
// Every case has the signature `fn(&[u8], &[u8], usize) -> u64`; the self-test lowers this file with k2v, strips the
// Verus-only tokens, compiles BOTH texts natively and compares them on every input of a small exhaustive domain
// (tools/k2v/selftest/run.py).  Rules exercised: L1 L2 L3 L4 L6 L7 L8 L9 L10 R0 R2 D1 A2 and the marker insertion.

// L2: match with slice-pattern arms, literal and range sub-patterns, guards, rest in the middle
pub fn case_match_arms(a: &[u8], _b: &[u8], n: usize) -> u64 {
    match a {
        [] => 0,
        [0] => 1,
        [x] if *x as usize == n => 2,
        [1..=2, rest @ ..] => 3 + rest.len() as u64,
        [first, .., last] if *first == *last => 10,
        [first, mid @ .., last] => 20 + (*first as u64) * 7 + (*last as u64) + mid.len() as u64 * 100,
        [_x] => 99,
    }
}

// L2 with a tuple scrutinee of two slices (the shape of cmp_inner / eq loops)
pub fn case_match_tuple(a: &[u8], b: &[u8], _n: usize) -> u64 {
    match (a, b) {
        ([], []) => 0,
        ([], [_, ..]) => 1,
        ([_, ..], []) => 2,
        ([x, xr @ ..], [y, yr @ ..]) => {
            if *x == *y { 3 + xr.len() as u64 * 10 + yr.len() as u64 } else if *x < *y { 1000 } else { 2000 }
        }
    }
}

// L3: while let with slice patterns on both ends, mutation of the scrutinee variable (the shape of bytes_trim)
pub fn case_while_let_trim(a: &[u8], _b: &[u8], _n: usize) -> u64 {
    let mut this = a;
    while let [b, rem @ ..] = this {
        if matches!(*b, 0 | 2) {
            this = rem;
        } else {
            break;
        }
    }
    while let [rem @ .., b] = this {
        if matches!(*b, 0 | 2) {
            this = rem;
        } else {
            break;
        }
    }
    this.len() as u64 * 16 + if let [f, ..] = this { *f as u64 } else { 15 }
}

// L3 + labelled loops + continue/break: the shape of __bytes_find after the D1 fix
pub fn case_find(a: &[u8], b: &[u8], _n: usize) -> u64 {
    let mut matching = b;
    let mut i = 0usize;
    let mut ret = u64::MAX;
    'outer: while i < a.len() {
        match matching {
            [mb, m_rem @ ..] => {
                if a[i] == *mb {
                    matching = m_rem;
                    i += 1;
                } else {
                    i = i + 1 - (b.len() - matching.len());
                    matching = b;
                    if a.len() - i < b.len() {
                        break 'outer;
                    }
                    continue 'outer;
                }
            }
            [] => {
                ret = (i - b.len()) as u64;
                break;
            }
        }
    }
    if ret == u64::MAX && matching.is_empty() && b.len() <= a.len() { (a.len() - b.len()) as u64 } else { ret }
}

// L7: loop used for its value (break with value), the shape of const_cmp_for!(slice)
pub fn case_break_value(a: &[u8], b: &[u8], _n: usize) -> u64 {
    let mut l = a;
    let mut r = b;
    let ord = loop {
        if let ([x, xr @ ..], [y, yr @ ..]) = (l, r) {
            l = xr;
            r = yr;
            if *x != *y {
                break if *x < *y { 1u64 } else { 2u64 };
            }
        } else if l.len() == r.len() {
            break 0
        } else if l.len() < r.len() {
            break 3
        } else {
            break 4
        }
    };
    ord * 10 + l.len() as u64
}

// L8 + L4: overflow flags combined with `|`, truncating casts
pub fn case_overflow_flags(a: &[u8], _b: &[u8], n: usize) -> u64 {
    let mut num: u8 = 0;
    let mut bad = false;
    let mut k = 0;
    while k < a.len() {
        let (next_mul, overflowed_mul) = num.overflowing_mul(10);
        let (next_add, overflowed_add) = next_mul.overflowing_add(a[k]);
        if overflowed_mul | overflowed_add {
            bad = true;
            break;
        }
        num = next_add;
        k += 1;
    }
    ((n as u8) as u64) << 16 | (num as u64) << 1 | bad as u64
}

// R0: Range destructuring as produced by for_range!, nested, with shadowed names (the shape of concat_strs)
pub fn case_for_range(a: &[u8], b: &[u8], _n: usize) -> u64 {
    let mut out = [0u8; 8];
    let mut out_i = 0usize;
    let pieces = [a, b];
    {
        let core::ops::Range { mut start, end } = 0..pieces.len();
        while start < end {
            let si = start;
            start += 1;
            let slice = pieces[si];
            {
                let core::ops::Range { mut start, end } = 0..slice.len();
                while start < end {
                    let i = start;
                    start += 1;
                    out[out_i] = slice[i];
                    out_i += 1;
                }
            }
        }
    }
    let mut h = 0u64;
    let mut k = 0;
    while k < 8 {
        h = h * 5 + out[k] as u64 % 5;
        k += 1;
    }
    h * 10 + out_i as u64
}

// R2 + D1: inner const and inner `use … as …` alias
pub fn case_inner_items(a: &[u8], _b: &[u8], n: usize) -> u64 {
    use core::cmp::Ordering as Ord2;
    const LIMIT: usize = 3;
    let o = if a.len() < LIMIT { Ord2::Less } else if a.len() == LIMIT { Ord2::Equal } else { Ord2::Greater };
    match o {
        Ord2::Less => n as u64,
        Ord2::Equal => 100,
        Ord2::Greater => 200 + (n as u64 & 1),
    }
}

// L10: `match *expr` with a non-path base, by-value bindings (the shape of string_to_usv)
pub fn case_deref_scrutinee(a: &[u8], _b: &[u8], _n: usize) -> u64 {
    fn id(x: &[u8]) -> &[u8] { x }
    match *id(a) {
        [x] => x as u64,
        [x, y] => ((x as u32 & 0x1F) << 6 | (y as u32 & 0x7F)) as u64,
        [x, y, z] => ((x as u32 & 0xF) << 12 | (y as u32 & 0x3F) << 6 | (z as u32 & 0x3F)) as u64,
        _ => 7777,
    }
}

// L9: destructuring pattern in parameter position
pub struct Args<'a> { pub sep: &'a [u8], pub items: &'a [u8] }
fn join_len(Args { sep, items: its }: Args<'_>) -> usize {
    if its.is_empty() { 0 } else { its.len() + sep.len() * (its.len() - 1) }
}
pub fn case_param_pattern(a: &[u8], b: &[u8], _n: usize) -> u64 {
    join_len(Args { sep: a, items: b }) as u64
}

// L6: by-value `mut self` methods returning (item, Self), the shape of the iterators
#[derive(Clone, Copy)]
pub struct Chunker<'a> { slice: &'a [u8], size: usize }
impl<'a> Chunker<'a> {
    pub fn next(mut self) -> Option<(&'a [u8], Self)> {
        if self.slice.is_empty() {
            return None;
        }
        let at = if self.size < self.slice.len() { self.size } else { self.slice.len() };
        let (head, tail) = self.slice.split_at(at);
        self.slice = tail;
        Some((head, self))
    }
    pub fn next_back(mut self) -> Option<(&'a [u8], Self)> {
        match self.slice {
            [] => None,
            [rem @ .., _last] if self.size == 1 => {
                let item = &self.slice[rem.len()..];
                self.slice = rem;
                Some((item, self))
            }
            whole => {
                let at = (whole.len() - 1) / self.size * self.size;
                let (head, tail) = whole.split_at(at);
                self.slice = head;
                Some((tail, self))
            }
        }
    }
}
pub fn case_mut_self(a: &[u8], _b: &[u8], n: usize) -> u64 {
    let mut it = Chunker { slice: a, size: n % 3 + 1 };
    let mut h = 0u64;
    let mut steps = 0;
    while steps < 6 {
        let r = if steps % 2 == 0 { it.next() } else { it.next_back() };
        match r {
            Some((item, next)) => {
                h = h * 31 + item.len() as u64 * 4 + if let [f, ..] = item { *f as u64 % 4 } else { 0 };
                it = next;
            }
            None => {
                h = h * 31 + 1;
            }
        }
        steps += 1;
    }
    h
}

// L1: `ref` bindings, nested patterns, bindings with @, a while in tail position of a block (anchor after it), early returns (G1)
pub fn case_misc(a: &[u8], b: &[u8], n: usize) -> u64 {
    if n == usize::MAX {
        return 1;
    }
    let mut acc = 0u64;
    if let [ref first, ref rest @ ..] = *a {
        acc += *first as u64 + rest.len() as u64;
    } else {
        return 2;
    }
    {
        let mut k = 0;
        while k < b.len() {
            if b[k] == 0x80 {
                return 3 + acc;
            }
            acc = acc.wrapping_mul(3).wrapping_add(b[k] as u64);
            k += 1;
        }
    }
    match (a, n) {
        ([.., 2], 0) => acc + 1000,
        ([x @ 0..=1, ..], m) if m > 2 => acc + 2000 + *x as u64,
        _ => acc,
    }
}

// usize::overflowing_sub guard in front of index arithmetic (the shape of __slice_from_impl), `as` casts to signed
pub fn case_slice_from(a: &[u8], _b: &[u8], n: usize) -> u64 {
    let (rem, overflowed) = a.len().overflowing_sub(n);
    if overflowed {
        return u64::MAX;
    }
    let off = n as isize;
    let tail = &a[off as usize..];
    (rem as u64) << 8 | (if let [t, ..] = tail { *t as u64 } else { 0xFF })
}

// P1: panic!/assert! expansions become k2v_panic(); arithmetic overflow panics stay where they are
pub fn case_panics(a: &[u8], b: &[u8], n: usize) -> u64 {
    assert!(a.len() != 3, "length three");
    if n == 4 && b.is_empty() {
        panic!("boom {}", n);
    }
    let d = a.len() - b.len();
    match b {
        [.., 0x80] => unreachable!(),
        _ => d as u64 + n as u64 % 7,
    }
}
