#!/usr/bin/env python3
"""settier.py <module> <tier> <harness-name>... : set tier= in the metadata line of written-out harnesses,
or append/replace a `// tier=…` override on template instantiation lines."""
import re, sys
mod, tier, names = sys.argv[1], sys.argv[2], sys.argv[3:]
p = "/verif/kani/src/%s.rs" % mod
s = open(p).read()
for n in names:
    # written-out: find "fn n(s)" and the closest preceding metadata doc line
    m = re.search(r"fn\s+%s\s*\(" % re.escape(n), s)
    done = False
    if m:
        head = s[:m.start()]
        k = head.rfind("/// kind=")
        if k >= 0 and "harness!" in head[max(0, k - 200):k + 1] or (k >= 0 and head[k:].count("\n") <= 6):
            line_end = head.find("\n", k)
            line = head[k:line_end]
            new = re.sub(r"tier=\w+", "tier=" + tier, line)
            s = head[:k] + new + head[line_end:] + s[m.start():]
            done = True
    if not done:
        # template instance line
        m2 = re.search(r"(?m)^(\s*\w+!\s*[\{\(]\s*%s\s*,[^\n]*?)(\s*//[^\n]*)?$" % re.escape(n), s)
        if m2:
            line, com = m2.group(1), m2.group(2) or ""
            com = re.sub(r"tier=\w+", "", com).strip()
            com = (com + " tier=" + tier) if com.startswith("//") else "// tier=" + tier
            s = s[:m2.start()] + line.rstrip() + " " + com + s[m2.end():]
            done = True
    if not done:
        print("not found:", n)
open(p, "w").write(s)
