#!/usr/bin/env python3
"""seedmeta.py — fold what I ran (verify.json of bin/seedverify, result.txt of bin/seedrun) into seeded/<id>/meta.json."""
import json, glob, os, re, subprocess
VERIF = os.path.dirname(os.path.dirname(os.path.abspath(__file__)))
head = subprocess.run("git -C %s rev-parse --short HEAD" % VERIF, shell=True, capture_output=True, text=True).stdout.strip()
for d in sorted(glob.glob(os.path.join(VERIF, "seeded", "C*-*"))):
    sid = os.path.basename(d); P = sid.split("-")[0]
    if not (os.path.exists(d + "/verify.json") and os.path.exists(d + "/result.txt")):
        continue
    meta = json.load(open(d + "/meta.json"))
    ver = json.load(open(d + "/verify.json"))
    res = open(d + "/result.txt").read()
    m = re.search(r"SEEDRUN \S+ \S+ exit=(\d+) wall=(\d+)s", res)
    obs = sorted(set(re.findall(r"^\s+obligation (.+?) \((?:kani|verus|rustc) ", res, re.M)))
    prev = (meta.get("check_run") or {})
    meta["breaks_property"] = P
    meta["confirmed_by_me"] = dict(
        how="bin/seedverify in a scratch git worktree of /repo HEAD (removed afterwards): patch applies; `cargo test --workspace --no-fail-fast --offline` gives the baseline result "
            "(all pass except the 3 always-failing priv_string_tests); the demo (copied to konst/tests/seed_demo.rs, `cargo test -p konst --test seed_demo --offline --features rust_1_83`) "
            "fails with the change and passes without it",
        patch_applies=ver.get("patch_applies"), existing_tests_still_pass=ver.get("existing_tests_still_pass"), suite_passed=ver.get("suite", {}).get("passed"),
        demo_fails_with_change=ver.get("demo_fails_with_change"), demo_passes_without_change=ver.get("demo_passes_without_change"), confirmed=ver.get("confirmed"), details="verify.json")
    run = dict(how="bin/seedrun: `git -C /repo apply patch.diff`; `bin/check %s --tier quick`; `git -C /repo checkout -- .`" % P,
               exit=int(m.group(1)) if m else None, wall_s=int(m.group(2)) if m else None,
               verdict={"1": "caught (VIOLATION)", "0": "missed", "2": "undecided (no verdict)"}.get(m.group(1) if m else "", "?"),
               reported_obligations=obs[:12], details="result.txt, evidence-with-change.json")
    if prev.get("exit") == run["exit"] and prev.get("reported_obligations") == run["reported_obligations"] and prev.get("machinery"):
        run["machinery"] = prev["machinery"]
    else:
        run["machinery"] = "/verif around commit %s (2026-10-02)" % head
    if prev and prev.get("exit") not in (None, run["exit"]):
        meta.setdefault("earlier_runs", []).append(dict(exit=prev.get("exit"), verdict=prev.get("verdict"), machinery=prev.get("machinery")))
    meta["check_run"] = run
    json.dump(meta, open(d + "/meta.json", "w"), indent=1)
print("ok")
