#!/usr/bin/env python3
"""apicov.py — inventory of konst's public functions / methods / macros against the contract units and harness modules.
For every `pub [const] [unsafe] fn NAME` and `macro_rules! NAME` of konst and konst_kernel: is NAME requested by a
contracts/*.vc unit (engine V) and/or mentioned in a kani/src/*.rs harness module (engine K)?  Prints the uncovered ones.
(dev aid: name-based, so an approximation; it is how gaps in the harness surface were found)"""
import os, re, sys, glob, json
VERIF = os.path.dirname(os.path.dirname(os.path.abspath(__file__)))
REPO = os.environ.get("KONST_REPO", "/repo")
vc_text = "\n".join(open(f).read() for f in glob.glob(os.path.join(VERIF, "contracts", "*.vc")))
req_words = set(re.findall(r"[A-Za-z_][A-Za-z0-9_]*", "\n".join(l for l in vc_text.splitlines() if re.match(r"^(fn|impl|struct|enum) ", l.strip()))))
k_text = "\n".join(open(f).read() for f in glob.glob(os.path.join(VERIF, "kani", "src", "*.rs")))
k_words = set(re.findall(r"[A-Za-z_][A-Za-z0-9_]*", k_text))
probe_text = open(os.path.join(VERIF, "probes", "src", "lib.rs")).read()
p_words = set(re.findall(r"[A-Za-z_][A-Za-z0-9_]*", probe_text))
rows = []
for crate in ("konst", "konst_kernel"):
    for root, _, files in os.walk(os.path.join(REPO, crate, "src")):
        for f in files:
            if not f.endswith(".rs"): continue
            p = os.path.join(root, f)
            rel = os.path.relpath(p, REPO)
            src = open(p).read()
            src_nc = re.sub(r"//[^\n]*", "", src)
            for m in re.finditer(r"\bpub(?:\(crate\))?\s+(?:const\s+)?(?:unsafe\s+)?fn\s+([A-Za-z_][A-Za-z0-9_]*)", src_nc):
                rows.append((rel, "fn", m.group(1)))
            for m in re.finditer(r"macro_rules!\s+([A-Za-z_][A-Za-z0-9_]*)", src_nc):
                rows.append((rel, "macro", m.group(1)))
seen = set()
unc = {}
tot = 0
for rel, kind, name in rows:
    if (rel, name) in seen: continue
    seen.add((rel, name))
    tot += 1
    v = name in req_words or name in p_words
    k = name in k_words
    if not v and not k:
        unc.setdefault(rel, []).append(("%s!" % name) if kind == "macro" else name)
print("public fns/macros: %d; uncovered by name: %d" % (tot, sum(len(v) for v in unc.values())))
for rel in sorted(unc):
    print("%-55s %s" % (rel, " ".join(unc[rel])))
