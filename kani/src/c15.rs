//! C15 — by-value array and aggregate APIs move out every element exactly once.
//!
//! Ghost state = a drop ledger.  `L { id, payload }` has a `Drop` impl that increments
//! `LEDGER[id]`; values are created through `fresh(payload)` with consecutive ids (`Clone` makes a
//! fresh id with the same payload).  The harness drops every value it is handed, so at the end of
//! a completing path every id created so far must have been dropped exactly once in total
//! (`all_once`): a leak shows as 0, a duplicated/double-dropped element as 2 (or as a wrong id
//! being handed over).  Payloads are symbolic u32 and must arrive unchanged and in order.
//!
//! Kani does not model unwinding: a panic ends the path.  On paths that end in a (documented)
//! panic only "nothing was dropped twice *before* the panic" can be observed (`none_twice`).
//!
//! NB (runner): helper macros are written with parenthesis delimiters (`macro_rules! name ( … );`)
//! so that the runner's template regex only sees the real harness templates.
use crate::hlib::*;
use core::mem::ManuallyDrop as MD;
use core::ptr::addr_of_mut;
use konst::array::{ArrayBuilder, ArrayConsumer};

// ---------------------------------------------------------------------------
// the ledger (single-threaded; reset at the start of every harness body)

pub const LN: usize = 16;
static mut LEDGER: [u8; LN] = [0; LN];
/// drops of an `L` whose id is out of range (a corrupted value)
static mut BAD: u8 = 0;
/// next fresh id
static mut NEXT: u8 = 0;
/// drops of the zero-sized `Zd`
static mut ZDROPS: u8 = 0;

pub struct L {
    pub id: u8,
    pub payload: u32,
}

impl Drop for L {
    fn drop(&mut self) {
        unsafe {
            if (self.id as usize) < LN {
                let p = (addr_of_mut!(LEDGER) as *mut u8).add(self.id as usize);
                *p = (*p).saturating_add(1);
            } else {
                let b = addr_of_mut!(BAD);
                *b = (*b).saturating_add(1);
            }
        }
    }
}

impl Clone for L {
    fn clone(&self) -> L {
        fresh(self.payload)
    }
}

/// zero-sized field type with a counted destructor
pub struct Zd;
impl Drop for Zd {
    fn drop(&mut self) {
        unsafe {
            let z = addr_of_mut!(ZDROPS);
            *z = (*z).saturating_add(1);
        }
    }
}

pub fn reset() {
    unsafe {
        *addr_of_mut!(LEDGER) = [0; LN];
        *addr_of_mut!(BAD) = 0;
        *addr_of_mut!(NEXT) = 0;
        *addr_of_mut!(ZDROPS) = 0;
    }
}

pub fn fresh(payload: u32) -> L {
    unsafe {
        let n = addr_of_mut!(NEXT);
        let id = *n;
        *n = id.saturating_add(1);
        L { id, payload }
    }
}

pub fn next_id() -> u8 {
    unsafe { *addr_of_mut!(NEXT) }
}

pub fn zdrops() -> u8 {
    unsafe { *addr_of_mut!(ZDROPS) }
}

fn bad() -> u8 {
    unsafe { *addr_of_mut!(BAD) }
}

/// how often id was dropped so far (out-of-range ids: 255)
pub fn count(id: u8) -> u8 {
    unsafe {
        if (id as usize) < LN {
            *(addr_of_mut!(LEDGER) as *mut u8).add(id as usize)
        } else {
            255
        }
    }
}

/// `f(i)` for every ledger index, written out (no loop: the harnesses' unwind bound stays that of
/// the konst loops, which have symbolic trip counts)
fn scan(f: impl Fn(u8) -> bool) -> bool {
    f(0) & f(1) & f(2) & f(3) & f(4) & f(5) & f(6) & f(7) & f(8) & f(9) & f(10) & f(11) & f(12) & f(13) & f(14) & f(15)
}

/// every id created so far was dropped exactly once, nothing else was dropped
pub fn all_once() -> bool {
    let n = next_id();
    bad() == 0 && (n as usize) <= LN && scan(|i| count(i) == (if i < n { 1 } else { 0 }))
}

/// nothing was dropped more than once so far
pub fn none_twice() -> bool {
    bad() == 0 && scan(|i| count(i) <= 1)
}

/// ids lo..hi have each been dropped exactly `want` times
pub fn range_count(lo: u8, hi: u8, want: u8) -> bool {
    scan(|i| !(i >= lo && i < hi) || count(i) == want)
}

/// the value handed over is element `id` with its original payload, still alive
fn is_elem(v: &L, id: u8, payload: u32) -> bool {
    v.id == id && v.payload == payload && count(id) == 0
}

// ---------------------------------------------------------------------------
// ArrayConsumer<L, N> / ArrayBuilder<L, N>

/// abstract state: the not-yet-taken elements are ids[lo..hi] / pay[lo..hi], in order
pub struct Model {
    pub ids: [u8; 4],
    pub pay: [u32; 4],
    pub lo: usize,
    pub hi: usize,
}

impl Model {
    fn rem(&self) -> usize {
        self.hi - self.lo
    }
}

fn slice_matches(sl: &[L], m: &Model) -> bool {
    let mut ok = sl.len() == m.rem();
    let mut j = 0;
    while j < 3 {
        if j < sl.len() && m.lo + j < m.hi {
            if !is_elem(&sl[j], m.ids[m.lo + j], m.pay[m.lo + j]) {
                ok = false;
            }
        }
        j += 1;
    }
    ok
}

/// `sl` holds clones of the model's remaining elements: same payloads in order, pairwise
/// distinct fresh ids in `before..next_id()`, exactly one clone per element; returns the ids
fn clone_matches(sl: &[L], m: &Model, before: u8) -> (bool, [u8; 4]) {
    let mut ok = sl.len() == m.rem() && (next_id() as usize) == before as usize + m.rem();
    let mut cids = [0u8; 4];
    let mut j = 0;
    while j < 3 {
        if j < sl.len() && m.lo + j < m.hi {
            let e = &sl[j];
            cids[j] = e.id;
            if e.payload != m.pay[m.lo + j] || e.id < before || e.id >= next_id() || count(e.id) != 0 {
                ok = false;
            }
            if (j >= 1 && cids[j - 1] == e.id) || (j >= 2 && cids[j - 2] == e.id) {
                ok = false;
            }
        }
        j += 1;
    }
    (ok, cids)
}

/// the model's remaining elements have been dropped exactly `want` times
fn rem_count(ids: &[u8; 4], lo: usize, hi: usize, want: u8) -> bool {
    let mut ok = true;
    let mut j = 0;
    while j < 4 {
        if j >= lo && j < hi && count(ids[j]) != want {
            ok = false;
        }
        j += 1;
    }
    ok
}

/// one take from a symbolic end, checked against the model
macro_rules! take_one (
    ($s:ident, $c:ident, $m:ident, $front:expr) => {{
        if $front {
            match $c.next() {
                Some(md) => {
                    chk!($s, $m.rem() > 0, "C15.consumer.next_none_when_exhausted");
                    let v = MD::into_inner(md);
                    chk!($s, $m.rem() > 0 && is_elem(&v, $m.ids[$m.lo], $m.pay[$m.lo]), "C15.consumer.next_hands_over_front_element_unchanged");
                    drop(v);
                    if $m.rem() > 0 {
                        $m.lo += 1;
                    }
                }
                None => {
                    chk!($s, $m.rem() == 0, "C15.consumer.next_some_while_elements_remain");
                }
            }
        } else {
            match $c.next_back() {
                Some(md) => {
                    chk!($s, $m.rem() > 0, "C15.consumer.next_back_none_when_exhausted");
                    let v = MD::into_inner(md);
                    chk!($s, $m.rem() > 0 && is_elem(&v, $m.ids[$m.hi - 1], $m.pay[$m.hi - 1]), "C15.consumer.next_back_hands_over_back_element_unchanged");
                    drop(v);
                    if $m.rem() > 0 {
                        $m.hi -= 1;
                    }
                }
                None => {
                    chk!($s, $m.rem() == 0, "C15.consumer.next_back_some_while_elements_remain");
                }
            }
        }
    }};
);

macro_rules! c15_consumer {
    ($name:ident, $n:literal, |$p:ident| $arr:expr) => {
        harness! {
            /// kind=bounded tier=quick bound="ArrayConsumer<L, N>, N fixed per harness (0,1,2,3), symbolic u32 payloads; symbolic sequence of <= N+2 steps among next / next_back / as_slice / as_mut_slice with a payload overwrite of the first untaken element; then drop (= early drop after any prefix) or assert_is_empty when empty"
            #[kani::unwind(7)]
            fn $name(s) {
                const N: usize = $n;
                reset();
                let mut m = Model { ids: [0, 1, 2, 3], pay: [s.u32(), s.u32(), s.u32(), 0], lo: 0, hi: N };
                let arr: [L; N] = {
                    let $p = &m.pay;
                    $arr
                };
                let mut c = ArrayConsumer::new(arr);
                let steps = s.upto(N + 2);
                let mut took_back = false;
                let mut took_front = false;
                let mut step = 0;
                while step < N + 2 {
                    if step < steps {
                        match s.upto(3) {
                            0 => {
                                take_one!(s, c, m, true);
                                took_front = true;
                            }
                            1 => {
                                take_one!(s, c, m, false);
                                took_back = true;
                            }
                            2 => {
                                chk!(s, slice_matches(c.as_slice(), &m), "C15.consumer.as_slice_is_untaken_middle");
                            }
                            _ => {
                                let sl = c.as_mut_slice();
                                chk!(s, slice_matches(sl, &m), "C15.consumer.as_mut_slice_is_untaken_middle");
                                if m.rem() > 0 && sl.len() > 0 {
                                    let p = s.u32();
                                    sl[0].payload = p;
                                    m.pay[m.lo] = p;
                                }
                            }
                        }
                    }
                    step += 1;
                }
                let rem = m.rem();
                let by_assert = rem == 0 && s.bool();
                if by_assert {
                    c.assert_is_empty();
                } else {
                    drop(c);
                }
                chk!(s, all_once(), "C15.consumer.every_element_handed_over_or_dropped_exactly_once");
                cov!(s, N == 0 || (rem == N && steps == N + 2), "C15.cover.consumer_early_drop_of_everything");
                cov!(s, N == 0 || (rem == 0 && by_assert && took_back), "C15.cover.consumer_drained_with_back_takes");
                cov!(s, N < 3 || (rem == 1 && m.lo == 1 && took_front && took_back), "C15.cover.consumer_drop_with_middle_left");
            }
        }
    };
}

c15_consumer! {c15_consumer_n0, 0, |p| []}
c15_consumer! {c15_consumer_n1, 1, |p| [fresh(p[0])]}
c15_consumer! {c15_consumer_n2, 2, |p| [fresh(p[0]), fresh(p[1])]}
c15_consumer! {c15_consumer_n3, 3, |p| [fresh(p[0]), fresh(p[1]), fresh(p[2])]}

macro_rules! c15_consumer_clone {
    ($name:ident, $n:literal, $keep:literal, |$p:ident| $arr:expr) => {
        harness! {
            /// kind=bounded tier=quick bound="ArrayConsumer<L, N>, N fixed per harness (1,2,3), symbolic u32 payloads; k <= N takes from symbolic ends, then clone; the original (harnesses *_keep_*) or the clone (harnesses *_drop_*) is dropped at once, the survivor gives up to one more element from a symbolic end and is dropped"
            #[kani::unwind(7)]
            fn $name(s) {
                const N: usize = $n;
                reset();
                let mut m = Model { ids: [0, 1, 2, 3], pay: [s.u32(), s.u32(), s.u32(), 0], lo: 0, hi: N };
                let arr: [L; N] = {
                    let $p = &m.pay;
                    $arr
                };
                let mut c = ArrayConsumer::new(arr);
                let k = s.upto(N);
                let mut j = 0;
                while j < N {
                    if j < k {
                        let front = s.bool();
                        take_one!(s, c, m, front);
                    }
                    j += 1;
                }
                let before = next_id();
                let c2 = c.clone();
                let (ok, cids) = clone_matches(c2.as_slice(), &m, before);
                chk!(s, ok, "C15.consumer.clone_has_one_fresh_clone_per_untaken_element_in_order");
                chk!(s, slice_matches(c.as_slice(), &m), "C15.consumer.clone_leaves_original");
                let rem = m.rem();
                let keep_clone: bool = $keep;
                let mut sv = if keep_clone {
                    drop(c);
                    chk!(s, rem_count(&m.ids, m.lo, m.hi, 1), "C15.consumer.drop_drops_untaken_elements_exactly_once");
                    chk!(s, rem_count(&cids, 0, rem, 0), "C15.consumer.drop_of_original_leaves_clone_elements");
                    let mut np = [0u32; 4];
                    let mut j = 0;
                    while j < 3 {
                        if j < rem {
                            np[j] = m.pay[m.lo + j];
                        }
                        j += 1;
                    }
                    m = Model { ids: cids, pay: np, lo: 0, hi: rem };
                    c2
                } else {
                    drop(c2);
                    chk!(s, rem_count(&cids, 0, rem, 1), "C15.consumer.drop_drops_untaken_elements_exactly_once");
                    chk!(s, rem_count(&m.ids, m.lo, m.hi, 0), "C15.consumer.drop_of_clone_leaves_original_elements");
                    c
                };
                chk!(s, slice_matches(sv.as_slice(), &m), "C15.consumer.as_slice_is_untaken_middle");
                let more = s.bool();
                if more {
                    let front = s.bool();
                    take_one!(s, sv, m, front);
                }
                drop(sv);
                chk!(s, all_once(), "C15.consumer.every_element_handed_over_or_dropped_exactly_once");
                cov!(s, rem == N && more, "C15.cover.consumer_clone_of_everything");
                cov!(s, rem + 1 == N && !more, "C15.cover.consumer_clone_after_take");
                cov!(s, rem == 0, "C15.cover.consumer_clone_of_exhausted");
            }
        }
    };
}

c15_consumer_clone! {c15_consumer_clone_keep_n1, 1, true, |p| [fresh(p[0])]}
c15_consumer_clone! {c15_consumer_clone_keep_n2, 2, true, |p| [fresh(p[0]), fresh(p[1])]}
c15_consumer_clone! {c15_consumer_clone_keep_n3, 3, true, |p| [fresh(p[0]), fresh(p[1]), fresh(p[2])]}
c15_consumer_clone! {c15_consumer_clone_drop_n1, 1, false, |p| [fresh(p[0])]}
c15_consumer_clone! {c15_consumer_clone_drop_n2, 2, false, |p| [fresh(p[0]), fresh(p[1])]}
c15_consumer_clone! {c15_consumer_clone_drop_n3, 3, false, |p| [fresh(p[0]), fresh(p[1]), fresh(p[2])]}

harness! {
    /// kind=bounded tier=quick bound="ArrayConsumer::<L, N>::empty(), N in {0,1,2,3}: next, next_back, as_slice, clone, drop"
    #[kani::unwind(7)]
    fn c15_consumer_empty(s) {
        fn go<S: Src, const N: usize>(s: &mut S) {
            let mut c = ArrayConsumer::<L, N>::empty();
            chk!(s, c.next().is_none() && c.next_back().is_none(), "C15.consumer.empty_yields_nothing");
            chk!(s, c.as_slice().len() == 0 && c.as_mut_slice().len() == 0, "C15.consumer.empty_yields_nothing");
            let c2 = c.clone();
            chk!(s, c2.as_slice().len() == 0, "C15.consumer.empty_yields_nothing");
            drop(c2);
            if s.bool() {
                c.assert_is_empty();
            } else {
                drop(c);
            }
        }
        reset();
        let n = s.upto(3);
        match n {
            0 => go::<S, 0>(s),
            1 => go::<S, 1>(s),
            2 => go::<S, 2>(s),
            _ => go::<S, 3>(s),
        }
        chk!(s, all_once() && next_id() == 0, "C15.consumer.empty_drops_nothing");
        cov!(s, n == 3, "C15.cover.consumer_empty_len3");
    }
}

harness! {
    /// kind=bounded tier=quick bound="ArrayConsumer<L, N>, N in {1,2,3}: k < N elements taken from symbolic ends, then assert_is_empty" expect_fail="assertion failed: self.is_empty.. in konst::array::ArrayConsumer::<"
    #[kani::unwind(7)]
    fn c15_consumer_assert_nonempty_panics(s) {
        fn go<S: Src, const N: usize>(s: &mut S) {
            let arr: [L; N] = core::array::from_fn(|i| fresh(i as u32));
            let mut c = ArrayConsumer::new(arr);
            let k = s.upto(N - 1);
            let mut j = 0;
            while j < N {
                if j < k {
                    let md = if s.bool() { c.next() } else { c.next_back() };
                    if let Some(md) = md {
                        drop(MD::into_inner(md));
                    }
                }
                j += 1;
            }
            chk!(s, none_twice(), "C15.consumer.no_double_drop_before_panic");
            must_panic!(s, "C15.consumer.assert_is_empty_on_non_empty_must_panic", c.assert_is_empty());
        }
        reset();
        let n = 1 + s.upto(2);
        cov!(s, n == 1, "C15.cover.assert_nonempty_len1");
        cov!(s, n == 3, "C15.cover.assert_nonempty_len3");
        match n {
            1 => go::<S, 1>(s),
            2 => go::<S, 2>(s),
            _ => go::<S, 3>(s),
        }
    }
}

macro_rules! c15_builder {
    ($name:ident, $n:literal) => {
        harness! {
            /// kind=bounded tier=quick bound="ArrayBuilder<L, N>, N fixed per harness (0,1,2,3), symbolic u32 payloads; symbolic sequence of <= N+2 steps among push (while not full) / as_slice / as_mut_slice with a payload overwrite of the first element; then build (if full) or drop"
            #[kani::unwind(7)]
            fn $name(s) {
                const N: usize = $n;
                reset();
                let mut m = Model { ids: [0; 4], pay: [0; 4], lo: 0, hi: 0 };
                let mut b = ArrayBuilder::<L, N>::new();
                let steps = s.upto(N + 2);
                let mut looked = false;
                let mut step = 0;
                while step < N + 2 {
                    if step < steps {
                        match s.upto(2) {
                            0 => {
                                s.assume(m.hi < N);
                                let p = s.u32();
                                let v = fresh(p);
                                m.ids[m.hi] = v.id;
                                m.pay[m.hi] = p;
                                m.hi += 1;
                                b.push(v);
                                chk!(s, rem_count(&m.ids, 0, m.hi, 0), "C15.builder.push_keeps_elements_alive");
                            }
                            1 => {
                                chk!(s, b.len() == m.hi && slice_matches(b.as_slice(), &m), "C15.builder.as_slice_is_pushed_elements");
                                looked = true;
                            }
                            _ => {
                                let sl = b.as_mut_slice();
                                chk!(s, slice_matches(sl, &m), "C15.builder.as_mut_slice_is_pushed_elements");
                                if m.hi > 0 && sl.len() > 0 {
                                    let p = s.u32();
                                    sl[0].payload = p;
                                    m.pay[0] = p;
                                }
                            }
                        }
                    }
                    step += 1;
                }
                let k = m.hi;
                let built = k == N && s.bool();
                if built {
                    let arr: [L; N] = b.build();
                    let mut ok = true;
                    let mut j = 0;
                    while j < N {
                        if !is_elem(&arr[j], m.ids[j], m.pay[j]) {
                            ok = false;
                        }
                        j += 1;
                    }
                    chk!(s, ok, "C15.builder.build_hands_over_every_pushed_element_in_order_unchanged");
                    drop(arr);
                } else {
                    drop(b);
                }
                chk!(s, all_once(), "C15.builder.every_element_handed_over_or_dropped_exactly_once");
                cov!(s, built && (N == 0 || looked), "C15.cover.builder_built");
                cov!(s, N == 0 || (!built && k == N), "C15.cover.builder_full_dropped");
                cov!(s, N == 0 || (!built && k + 1 == N && looked), "C15.cover.builder_partial_dropped");
            }
        }
    };
}

c15_builder! {c15_builder_n0, 0}
c15_builder! {c15_builder_n1, 1}
c15_builder! {c15_builder_n2, 2}
c15_builder! {c15_builder_n3, 3}

harness! {
    /// kind=bounded tier=quick bound="zero-sized element type WITH a destructor (Zd), N in {0,1,2,3}: ArrayBuilder with k <= N pushes then build (if full) or drop; ArrayConsumer with f front takes and b back takes (f+b <= N) then drop; every element dropped exactly once (counted)"
    #[kani::unwind(6)]
    fn c15_zst_drop_elements(s) {
        fn builder<S: Src, const N: usize>(s: &mut S) {
            reset();
            let mut b = ArrayBuilder::<Zd, N>::new();
            let k = s.upto(N);
            let mut j = 0;
            while j < N {
                if j < k {
                    b.push(Zd);
                }
                j += 1;
            }
            chk!(s, zdrops() == 0 && b.len() == k, "C15.builder.zst.push_keeps_elements_alive");
            if k == N && s.bool() {
                let arr: [Zd; N] = b.build();
                chk!(s, zdrops() == 0, "C15.builder.zst.build_hands_elements_over_alive");
                drop(arr);
                chk!(s, zdrops() as usize == N, "C15.builder.zst.built_elements_dropped_once_by_the_caller");
            } else {
                drop(b);
                chk!(s, zdrops() as usize == k, "C15.builder.zst.drop_drops_each_pushed_element_once");
            }
        }
        fn consumer<S: Src, const N: usize>(s: &mut S, arr: [Zd; N]) {
            reset();
            let mut c = ArrayConsumer::new(arr);
            let f = s.upto(N);
            let bk = s.upto(N - f);
            let mut taken = 0usize;
            let mut j = 0;
            while j < N {
                if j < f {
                    if let Some(x) = c.next() {
                        taken += 1;
                        drop(MD::into_inner(x));
                    }
                } else if j < f + bk {
                    if let Some(x) = c.next_back() {
                        taken += 1;
                        drop(MD::into_inner(x));
                    }
                }
                j += 1;
            }
            chk!(s, taken == f + bk && zdrops() as usize == taken, "C15.consumer.zst.taken_elements_dropped_once_by_the_caller");
            chk!(s, c.as_slice().len() == N - taken, "C15.consumer.zst.as_slice_is_the_rest");
            drop(c);
            chk!(s, zdrops() as usize == N, "C15.consumer.zst.drop_drops_the_rest_once");
        }
        let n = s.upto(3);
        let which = s.bool();
        cov!(s, n == 3 && which, "C15.cover.zst_builder_len3");
        cov!(s, n == 3 && !which, "C15.cover.zst_consumer_len3");
        match (n, which) {
            (0, true) => builder::<S, 0>(s),
            (1, true) => builder::<S, 1>(s),
            (2, true) => builder::<S, 2>(s),
            (_, true) => builder::<S, 3>(s),
            (0, false) => consumer::<S, 0>(s, []),
            (1, false) => consumer::<S, 1>(s, [Zd]),
            (2, false) => consumer::<S, 2>(s, [Zd, Zd]),
            (_, false) => consumer::<S, 3>(s, [Zd, Zd, Zd]),
        }
    }
}

harness! {
    /// kind=bounded tier=quick bound="ArrayBuilder<L, N>, N in {1,2,3}: destination with kb <= N and source with ko <= N drop-tracked elements, `Clone::clone_from(&mut dst, &src)` (the trait method; today the default), then both dropped: every old destination element dropped exactly once by clone_from, the source untouched, the destination holds one fresh clone per source element in order, and in the end every element ever created was dropped exactly once"
    #[kani::unwind(7)]
    fn c15_builder_clone_from(s) {
        fn go<S: Src, const N: usize>(s: &mut S) {
            reset();
            let mut dm = Model { ids: [0; 4], pay: [0; 4], lo: 0, hi: 0 };
            let mut sm = Model { ids: [0; 4], pay: [0; 4], lo: 0, hi: 0 };
            let mut dst = ArrayBuilder::<L, N>::new();
            let mut src = ArrayBuilder::<L, N>::new();
            let kb = s.upto(N);
            let ko = s.upto(N);
            let mut j = 0;
            while j < N {
                if j < kb {
                    let p = s.u32();
                    let v = fresh(p);
                    dm.ids[dm.hi] = v.id;
                    dm.pay[dm.hi] = p;
                    dm.hi += 1;
                    dst.push(v);
                }
                if j < ko {
                    let p = s.u32();
                    let v = fresh(p);
                    sm.ids[sm.hi] = v.id;
                    sm.pay[sm.hi] = p;
                    sm.hi += 1;
                    src.push(v);
                }
                j += 1;
            }
            let before = next_id();
            Clone::clone_from(&mut dst, &src);
            chk!(s, rem_count(&dm.ids, 0, kb, 1), "C15.builder.clone_from_drops_each_old_destination_element_once");
            chk!(s, rem_count(&sm.ids, 0, ko, 0) && slice_matches(src.as_slice(), &sm), "C15.builder.clone_from_leaves_source");
            let (ok, cids) = clone_matches(dst.as_slice(), &sm, before);
            chk!(s, ok && dst.len() == ko, "C15.builder.clone_from_holds_one_fresh_clone_per_source_element_in_order");
            cov!(s, kb > ko, "C15.cover.clone_from_longer_destination");
            cov!(s, kb < ko, "C15.cover.clone_from_shorter_destination");
            drop(dst);
            chk!(s, rem_count(&cids, 0, ko, 1), "C15.builder.clone_from_then_drop_drops_the_clones_once");
            chk!(s, rem_count(&sm.ids, 0, ko, 0), "C15.builder.drop_of_destination_leaves_source_elements");
            drop(src);
            chk!(s, rem_count(&sm.ids, 0, ko, 1) && rem_count(&dm.ids, 0, kb, 1) && bad() == 0, "C15.builder.every_element_dropped_exactly_once_in_the_end");
        }
        match 1 + s.upto(2) {
            1 => go::<S, 1>(s),
            2 => go::<S, 2>(s),
            _ => go::<S, 3>(s),
        }
    }
}

macro_rules! c15_builder_clone {
    ($name:ident, $n:literal) => {
        harness! {
            /// kind=bounded tier=quick bound="ArrayBuilder<L, N>, N fixed per harness (1,2,3), symbolic u32 payloads; k <= N pushes, then clone; either the clone or the original is dropped at once, the survivor is filled up (symbolically) and then built (if full) or dropped"
            #[kani::unwind(7)]
            fn $name(s) {
                const N: usize = $n;
                reset();
                let mut m = Model { ids: [0; 4], pay: [0; 4], lo: 0, hi: 0 };
                let mut b = ArrayBuilder::<L, N>::new();
                let k = s.upto(N);
                let fill = s.bool();
                let mut j = 0;
                while j < N {
                    if j < k {
                        let p = s.u32();
                        let v = fresh(p);
                        m.ids[m.hi] = v.id;
                        m.pay[m.hi] = p;
                        m.hi += 1;
                        b.push(v);
                    }
                    j += 1;
                }
                let before = next_id();
                let b2 = b.clone();
                let (ok, cids) = clone_matches(b2.as_slice(), &m, before);
                chk!(s, ok && b2.len() == k, "C15.builder.clone_has_one_fresh_clone_per_pushed_element_in_order");
                chk!(s, slice_matches(b.as_slice(), &m), "C15.builder.clone_leaves_original");
                let keep_clone = s.bool();
                let mut sv = if keep_clone {
                    drop(b);
                    chk!(s, rem_count(&m.ids, 0, k, 1), "C15.builder.drop_drops_pushed_elements_exactly_once");
                    chk!(s, rem_count(&cids, 0, k, 0), "C15.builder.drop_of_original_leaves_clone_elements");
                    m.ids = cids;
                    b2
                } else {
                    drop(b2);
                    chk!(s, rem_count(&cids, 0, k, 1), "C15.builder.drop_drops_pushed_elements_exactly_once");
                    chk!(s, rem_count(&m.ids, 0, k, 0), "C15.builder.drop_of_clone_leaves_original_elements");
                    b
                };
                let mut j = 0;
                while j < N {
                    if fill && m.hi < N {
                        let p = s.u32();
                        let v = fresh(p);
                        m.ids[m.hi] = v.id;
                        m.pay[m.hi] = p;
                        m.hi += 1;
                        sv.push(v);
                    }
                    j += 1;
                }
                let built = m.hi == N && s.bool();
                if built {
                    let arr: [L; N] = sv.build();
                    let mut ok = true;
                    let mut j = 0;
                    while j < N {
                        if !is_elem(&arr[j], m.ids[j], m.pay[j]) {
                            ok = false;
                        }
                        j += 1;
                    }
                    chk!(s, ok, "C15.builder.build_hands_over_every_pushed_element_in_order_unchanged");
                    drop(arr);
                } else {
                    drop(sv);
                }
                chk!(s, all_once(), "C15.builder.every_element_handed_over_or_dropped_exactly_once");
                cov!(s, built && keep_clone && k + 1 == N, "C15.cover.builder_built_from_filled_clone");
                cov!(s, !built && !keep_clone && k == N, "C15.cover.builder_full_original_dropped");
                cov!(s, k == 0 && !fill, "C15.cover.builder_clone_of_empty");
            }
        }
    };
}

c15_builder_clone! {c15_builder_clone_n1, 1}
c15_builder_clone! {c15_builder_clone_n2, 2}
c15_builder_clone! {c15_builder_clone_n3, 3}

// ---------------------------------------------------------------------------
// konst::array::map_! with L elements; closure = most general client

pub const M_OK: u8 = 0;
/// one unlabelled `break` at call number `at`
pub const M_BRK: u8 = 1;
/// one `continue` at call number `at`
pub const M_CONT1: u8 = 2;
/// every call chooses among value / `break 'outer` / `return`
pub const M_EXITS: u8 = 3;

pub struct Rec {
    pub calls: usize,
    pub done: usize,
    pub pay: [u32; 4],
    pub out_id: [u8; 4],
    pub out_pay: [u32; 4],
    pub passed: [bool; 4],
    pub left: bool,
    pub at: usize,
}

/// on entry the argument must be element number `calls`, unchanged and alive; then, by mode and
/// symbolic choice, leave early (the argument is dropped by scope exit or explicitly first) or
/// return either the argument itself or a fresh value after dropping the argument
macro_rules! lclient (
    ($s:ident, $rec:ident, $mode:ident, $n:expr, $outer:lifetime, $x:ident) => {{
        let k = $rec.calls;
        $rec.calls += 1;
        chk!($s, k < $n, "C15.map_.closure_called_at_most_once_per_element");
        if k >= $n {
            $s.assume(false);
        }
        chk!($s, is_elem(&$x, k as u8, $rec.pay[k]), "C15.map_.closure_gets_each_element_once_in_order_unchanged");
        chk!($s, none_twice(), "C15.map_.nothing_dropped_twice");
        let c = if $mode == M_EXITS { $s.u8() } else { 0 };
        let early_drop = $s.bool();
        if $mode == M_BRK && k == $rec.at {
            $rec.left = true;
            if early_drop {
                drop($x);
            }
            break;
        }
        if $mode == M_CONT1 && k == $rec.at {
            $rec.left = true;
            if early_drop {
                drop($x);
            }
            continue;
        }
        if c == 1 {
            $rec.left = true;
            if early_drop {
                drop($x);
            }
            break $outer None;
        }
        if c == 2 {
            $rec.left = true;
            if early_drop {
                drop($x);
            }
            return None;
        }
        let out = if early_drop {
            drop($x);
            fresh($s.u32())
        } else {
            $x
        };
        $rec.passed[k] = !early_drop;
        $rec.out_id[k] = out.id;
        $rec.out_pay[k] = out.payload;
        $rec.done += 1;
        out
    }};
);

/// forms: 0 untyped `|x| expr`, 1 `|x: L| -> L {block}` (the closure forms themselves are C11's business)
fn run_map_l<S: Src, const N: usize>(s: &mut S, rec: &mut Rec, mode: u8, form: u8, arr: [L; N]) -> Option<[L; N]> {
    'outer: {
        let r: [L; N] = match form {
            0 => konst::array::map_!(arr, |x| lclient!(s, rec, mode, N, 'outer, x)),
            _ => konst::array::map_!(arr, |x: L| -> L { lclient!(s, rec, mode, N, 'outer, x) }),
        };
        Some(r)
    }
}

fn new_rec<S: Src>(s: &mut S, at: usize) -> Rec {
    Rec { calls: 0, done: 0, pay: [s.u32(), s.u32(), s.u32(), 0], out_id: [0; 4], out_pay: [0; 4], passed: [false; 4], left: false, at }
}

macro_rules! c15_map_ok {
    ($name:ident, $n:literal, |$p:ident| $arr:expr) => {
        harness! {
            /// kind=bounded tier=quick bound="map_! over [L; N], N fixed per harness (0,1,2,3), 2 closure forms, symbolic u32 payloads; the closure runs to its end at every call and returns symbolically either its argument or a fresh value after dropping the argument"
            #[kani::unwind(7)]
            fn $name(s) {
                const N: usize = $n;
                reset();
                let mut rec = new_rec(s, 0);
                let form = s.upto(1) as u8;
                let arr: [L; N] = {
                    let $p = &rec.pay;
                    $arr
                };
                let r = run_map_l::<S, N>(s, &mut rec, M_OK, form, arr);
                let mut all_passed = true;
                let mut none_passed = true;
                match r {
                    Some(out) => {
                        chk!(s, rec.calls == N && rec.done == N, "C15.map_.closure_gets_each_element_once_in_order_unchanged");
                        let mut ok = true;
                        let mut j = 0;
                        while j < N {
                            if !is_elem(&out[j], rec.out_id[j], rec.out_pay[j]) {
                                ok = false;
                            }
                            // inputs: moved through (still alive, it *is* out[j]) or dropped once by the closure
                            if count(j as u8) != (if rec.passed[j] { 0 } else { 1 }) {
                                ok = false;
                            }
                            if rec.passed[j] { none_passed = false; } else { all_passed = false; }
                            j += 1;
                        }
                        chk!(s, ok, "C15.map_.result_is_the_closure_results_in_order_unchanged");
                        drop(out);
                        chk!(s, all_once(), "C15.map_.every_element_handed_over_or_dropped_exactly_once");
                    }
                    None => {
                        chk!(s, false, "C15.map_.completing_closure_yields_value");
                    }
                }
                cov!(s, all_passed && form == 0, "C15.cover.map_all_moved_through");
                cov!(s, none_passed && form == 1, "C15.cover.map_all_replaced");
                cov!(s, N < 2 || (!all_passed && !none_passed), "C15.cover.map_mixed");
            }
        }
    };
}

c15_map_ok! {c15_map_ok_n0, 0, |p| []}
c15_map_ok! {c15_map_ok_n1, 1, |p| [fresh(p[0])]}
c15_map_ok! {c15_map_ok_n2, 2, |p| [fresh(p[0]), fresh(p[1])]}
c15_map_ok! {c15_map_ok_n3, 3, |p| [fresh(p[0]), fresh(p[1]), fresh(p[2])]}

macro_rules! c15_map_exits {
    ($name:ident, $n:literal, |$p:ident| $arr:expr) => {
        harness! {
            /// kind=bounded tier=quick bound="map_! over [L; N], N fixed per harness (1,2,3), 2 closure forms; every closure call chooses symbolically among value / break-to-outer-label / return (the argument dropped explicitly first or by scope exit)"
            #[kani::unwind(7)]
            fn $name(s) {
                const N: usize = $n;
                reset();
                let mut rec = new_rec(s, 0);
                let form = s.upto(1) as u8;
                let arr: [L; N] = {
                    let $p = &rec.pay;
                    $arr
                };
                let r = run_map_l::<S, N>(s, &mut rec, M_EXITS, form, arr);
                let some = r.is_some();
                match r {
                    Some(out) => {
                        chk!(s, !rec.left && rec.done == N, "C15.map_.value_produced_only_without_early_exit");
                        drop(out);
                        chk!(s, all_once(), "C15.map_.every_element_handed_over_or_dropped_exactly_once");
                    }
                    None => {
                        // early return / labelled break: a path that runs to completion, so the property's
                        // "never leaked" applies (the macro's doc warns of a leak; the code drops the consumer
                        // and the builder on this path, and the property is what is checked)
                        chk!(s, rec.left, "C15.map_.value_produced_only_without_early_exit");
                        chk!(s, none_twice(), "C15.map_.nothing_dropped_twice");
                        chk!(s, all_once(), "C15.map_.early_exit_drops_every_element_exactly_once");
                    }
                }
                cov!(s, !some && rec.done == N - 1, "C15.cover.map_exit_at_last_call");
                cov!(s, !some && rec.done == 0 && all_once(), "C15.cover.map_exit_at_first_call_nothing_leaked");
                cov!(s, some, "C15.cover.map_exits_none_taken");
            }
        }
    };
}

c15_map_exits! {c15_map_exits_n1, 1, |p| [fresh(p[0])]}
c15_map_exits! {c15_map_exits_n2, 2, |p| [fresh(p[0]), fresh(p[1])]}
c15_map_exits! {c15_map_exits_n3, 3, |p| [fresh(p[0]), fresh(p[1]), fresh(p[2])]}

macro_rules! c15_map_skip {
    ($name:ident, $n:literal, |$p:ident| $arr:expr) => {
        harness! {
            /// kind=bounded tier=quick bound="map_! over [L; N], N fixed per harness (1,2,3), 2 closure forms; one unlabelled break or continue at a symbolic call number < N: ArrayBuilder::build must panic; only the ledger before the panic is observable (no unwinding under Kani)" expect_fail="placeholder message.* in konst::array::ArrayBuilder::<"
            #[kani::unwind(7)]
            fn $name(s) {
                const N: usize = $n;
                reset();
                let at = s.upto(N - 1);
                let mode = if s.bool() { M_BRK } else { M_CONT1 };
                let mut rec = new_rec(s, at);
                let form = s.upto(1) as u8;
                let arr: [L; N] = {
                    let $p = &rec.pay;
                    $arr
                };
                cov!(s, at == N - 1 && mode == M_BRK, "C15.cover.map_break_at_last_call");
                cov!(s, at == 0 && mode == M_CONT1, "C15.cover.map_continue_at_first_call");
                let r = run_map_l::<S, N>(s, &mut rec, mode, form, arr);
                chk!(s, false, "C15.map_.value_produced_only_without_early_exit");
            }
        }
    };
}

c15_map_skip! {c15_map_skip_panics_n1, 1, |p| [fresh(p[0])]}
c15_map_skip! {c15_map_skip_panics_n2, 2, |p| [fresh(p[0]), fresh(p[1])]}
c15_map_skip! {c15_map_skip_panics_n3, 3, |p| [fresh(p[0]), fresh(p[1]), fresh(p[2])]}

// ---------------------------------------------------------------------------
// konst::destructure!: an enumeration of pattern shapes (programs); payloads symbolic

pub struct Br {
    pub a: L,
    pub n: u32,
    pub b: L,
}
pub struct Ts(pub L, pub u8, pub L);
pub struct Pair<T>(pub T, pub T);
pub struct G<T, U> {
    pub t: T,
    pub u: U,
}
#[repr(packed)]
pub struct Pk {
    pub t: u8,
    pub l: L,
    pub w: u16,
    pub m: L,
}
pub struct Wz {
    pub z: Zd,
    pub l: L,
    pub u: (),
    pub p: core::marker::PhantomData<u64>,
}
pub struct Nest {
    pub head: L,
    pub inner: Ts,
    pub arr: [L; 2],
}

fn split_g<T, U>(g: G<T, U>) -> (T, U) {
    konst::destructure! {G{t, u} = g}
    (t, u)
}
fn split_pair<T>(p: Pair<T>) -> [T; 2] {
    konst::destructure! {Pair(a, b) = p}
    [a, b]
}
fn split_first<T>(arr: [T; 4]) -> (T, [T; 3]) {
    konst::destructure! {[a, rem @ ..] = arr}
    (a, rem)
}

/// takes a value handed over by the macro: it must be element `id`, unchanged, alive; drops it
macro_rules! take (
    ($s:ident, $v:expr, $id:expr, $p:expr, $ob:literal) => {{
        let v: L = $v;
        chk!($s, is_elem(&v, $id, $p), $ob);
        drop(v);
    }};
);

harness! {
    /// kind=bounded tier=quick bound="destructure! on structs: braced (all fields, renamed field, `_` field, type annotation, path with leading self::), tuple struct (plain, annotated, `path,` form with generic arguments), generic struct in generic fn; symbolic u32 payloads"
    #[kani::unwind(7)]
    fn c15_destructure_structs(s) {
        reset();
        let p: [u32; 4] = [s.u32(), s.u32(), s.u32(), s.u32()];
        let n = s.u32();
        let shape = s.upto(8);
        match shape {
            0 => {
                let v = Br { a: fresh(p[0]), n, b: fresh(p[1]) };
                konst::destructure! {Br{a, n: nn, b} = v}
                chk!(s, nn == n && none_twice() && count(0) == 0 && count(1) == 0, "C15.destructure.braced_fields_unchanged");
                take!(s, a, 0, p[0], "C15.destructure.braced_fields_unchanged");
                take!(s, b, 1, p[1], "C15.destructure.braced_fields_unchanged");
            }
            1 => {
                let v = Br { a: fresh(p[0]), n, b: fresh(p[1]) };
                konst::destructure! {Br{b: second, a: _, n: _} = v}
                chk!(s, count(0) == 1, "C15.destructure.underscore_field_dropped_immediately");
                take!(s, second, 1, p[1], "C15.destructure.braced_fields_unchanged");
            }
            2 => {
                let v = Br { a: fresh(p[0]), n, b: fresh(p[1]) };
                konst::destructure! {self::Br{a, b, n: nn}: Br = v}
                chk!(s, nn == n, "C15.destructure.braced_fields_unchanged");
                take!(s, b, 1, p[1], "C15.destructure.braced_fields_unchanged");
                take!(s, a, 0, p[0], "C15.destructure.braced_fields_unchanged");
            }
            3 => {
                let v = Ts(fresh(p[0]), n as u8, fresh(p[1]));
                konst::destructure! {Ts(x, k, y) = v}
                chk!(s, k == n as u8, "C15.destructure.tuple_struct_fields_unchanged");
                take!(s, x, 0, p[0], "C15.destructure.tuple_struct_fields_unchanged");
                take!(s, y, 1, p[1], "C15.destructure.tuple_struct_fields_unchanged");
            }
            4 => {
                let v = Ts(fresh(p[0]), n as u8, fresh(p[1]));
                konst::destructure! {Ts(_, k, y): Ts = v}
                chk!(s, k == n as u8 && count(0) == 1, "C15.destructure.underscore_field_dropped_immediately");
                take!(s, y, 1, p[1], "C15.destructure.tuple_struct_fields_unchanged");
            }
            5 => {
                let v = Pair(fresh(p[0]), fresh(p[1]));
                konst::destructure! {Pair::<L>, (x, y) = v}
                take!(s, x, 0, p[0], "C15.destructure.tuple_struct_fields_unchanged");
                take!(s, y, 1, p[1], "C15.destructure.tuple_struct_fields_unchanged");
            }
            6 => {
                let [x, y] = split_pair(Pair(fresh(p[0]), fresh(p[1])));
                take!(s, y, 1, p[1], "C15.destructure.generic_struct_fields_unchanged");
                take!(s, x, 0, p[0], "C15.destructure.generic_struct_fields_unchanged");
            }
            7 => {
                let (t, u) = split_g(G { t: fresh(p[0]), u: n });
                chk!(s, u == n, "C15.destructure.generic_struct_fields_unchanged");
                take!(s, t, 0, p[0], "C15.destructure.generic_struct_fields_unchanged");
            }
            _ => {
                let (t, u) = split_g(G { t: fresh(p[0]), u: Pair(fresh(p[1]), fresh(p[2])) });
                take!(s, t, 0, p[0], "C15.destructure.generic_struct_fields_unchanged");
                chk!(s, count(1) == 0 && count(2) == 0, "C15.destructure.generic_struct_fields_unchanged");
                let [x, y] = split_pair(u);
                take!(s, x, 1, p[1], "C15.destructure.generic_struct_fields_unchanged");
                take!(s, y, 2, p[2], "C15.destructure.generic_struct_fields_unchanged");
            }
        }
        chk!(s, all_once(), "C15.destructure.every_field_handed_over_or_dropped_exactly_once");
        cov!(s, shape == 0, "C15.cover.destructure_structs_first");
        cov!(s, shape == 8, "C15.cover.destructure_structs_last");
    }
}

harness! {
    /// kind=bounded tier=quick bound="destructure! on tuples of arity 0,1,2,3 and 16 (with `_` elements and a type annotation), nested tuple/struct/array destructured in two steps; symbolic u32 payloads"
    #[kani::unwind(7)]
    fn c15_destructure_tuples(s) {
        reset();
        let p: [u32; 4] = [s.u32(), s.u32(), s.u32(), s.u32()];
        let shape = s.upto(6);
        match shape {
            0 => {
                let t = ();
                konst::destructure! {() = t}
                let t1 = (fresh(p[0]),);
                konst::destructure! {(a,) = t1}
                take!(s, a, 0, p[0], "C15.destructure.tuple_elements_unchanged");
            }
            1 => {
                let t = (fresh(p[0]), fresh(p[1]));
                konst::destructure! {(a, b) = t}
                take!(s, b, 1, p[1], "C15.destructure.tuple_elements_unchanged");
                take!(s, a, 0, p[0], "C15.destructure.tuple_elements_unchanged");
            }
            2 => {
                let t = (fresh(p[0]), p[3], fresh(p[1]));
                konst::destructure! {(a, w, _): (L, u32, L) = t}
                chk!(s, w == p[3] && count(1) == 1 && count(0) == 0, "C15.destructure.underscore_element_dropped_immediately");
                take!(s, a, 0, p[0], "C15.destructure.tuple_elements_unchanged");
            }
            3 => {
                let t = (fresh(p[0]), fresh(p[1]), fresh(p[2]));
                konst::destructure! {(a, b, c) = t}
                take!(s, a, 0, p[0], "C15.destructure.tuple_elements_unchanged");
                take!(s, b, 1, p[1], "C15.destructure.tuple_elements_unchanged");
                take!(s, c, 2, p[2], "C15.destructure.tuple_elements_unchanged");
            }
            4 => {
                // arity 16 (the documented maximum); ids 0..16, payload of element i is p[i % 4] ^ i
                let q = |i: u32| p[(i % 4) as usize] ^ i;
                let t = (
                    fresh(q(0)), fresh(q(1)), fresh(q(2)), fresh(q(3)), fresh(q(4)), fresh(q(5)), fresh(q(6)), fresh(q(7)),
                    fresh(q(8)), fresh(q(9)), fresh(q(10)), fresh(q(11)), fresh(q(12)), fresh(q(13)), fresh(q(14)), fresh(q(15)),
                );
                konst::destructure! {(e0, e1, _, e3, e4, e5, e6, e7, e8, e9, e10, e11, e12, e13, _, e15) = t}
                chk!(s, count(2) == 1 && count(14) == 1 && range_count(0, 2, 0) && range_count(3, 14, 0) && count(15) == 0,
                     "C15.destructure.underscore_element_dropped_immediately");
                take!(s, e15, 15, q(15), "C15.destructure.tuple16_elements_unchanged");
                take!(s, e0, 0, q(0), "C15.destructure.tuple16_elements_unchanged");
                take!(s, e1, 1, q(1), "C15.destructure.tuple16_elements_unchanged");
                take!(s, e3, 3, q(3), "C15.destructure.tuple16_elements_unchanged");
                take!(s, e4, 4, q(4), "C15.destructure.tuple16_elements_unchanged");
                take!(s, e5, 5, q(5), "C15.destructure.tuple16_elements_unchanged");
                take!(s, e6, 6, q(6), "C15.destructure.tuple16_elements_unchanged");
                take!(s, e7, 7, q(7), "C15.destructure.tuple16_elements_unchanged");
                take!(s, e8, 8, q(8), "C15.destructure.tuple16_elements_unchanged");
                take!(s, e9, 9, q(9), "C15.destructure.tuple16_elements_unchanged");
                take!(s, e10, 10, q(10), "C15.destructure.tuple16_elements_unchanged");
                take!(s, e11, 11, q(11), "C15.destructure.tuple16_elements_unchanged");
                take!(s, e12, 12, q(12), "C15.destructure.tuple16_elements_unchanged");
                take!(s, e13, 13, q(13), "C15.destructure.tuple16_elements_unchanged");
            }
            5 => {
                // nested tuple: two invocations
                let t = (fresh(p[0]), (fresh(p[1]), fresh(p[2])));
                konst::destructure! {(a, tail) = t}
                chk!(s, range_count(0, 3, 0), "C15.destructure.nested_value_moved_whole");
                konst::destructure! {(b, c) = tail}
                take!(s, a, 0, p[0], "C15.destructure.nested_elements_unchanged");
                take!(s, b, 1, p[1], "C15.destructure.nested_elements_unchanged");
                take!(s, c, 2, p[2], "C15.destructure.nested_elements_unchanged");
            }
            _ => {
                // struct containing a tuple struct and an array
                let v = Nest { head: fresh(p[0]), inner: Ts(fresh(p[1]), 7, fresh(p[2])), arr: [fresh(p[3]), fresh(p[0])] };
                konst::destructure! {Nest{head, inner, arr} = v}
                chk!(s, range_count(0, 5, 0), "C15.destructure.nested_value_moved_whole");
                konst::destructure! {Ts(x, k, y) = inner}
                konst::destructure! {[u, w] = arr}
                chk!(s, k == 7, "C15.destructure.nested_elements_unchanged");
                take!(s, w, 4, p[0], "C15.destructure.nested_elements_unchanged");
                take!(s, u, 3, p[3], "C15.destructure.nested_elements_unchanged");
                take!(s, y, 2, p[2], "C15.destructure.nested_elements_unchanged");
                take!(s, x, 1, p[1], "C15.destructure.nested_elements_unchanged");
                take!(s, head, 0, p[0], "C15.destructure.nested_elements_unchanged");
            }
        }
        chk!(s, all_once(), "C15.destructure.every_field_handed_over_or_dropped_exactly_once");
        cov!(s, shape == 0, "C15.cover.destructure_tuples_first");
        cov!(s, shape == 4, "C15.cover.destructure_tuple16");
        cov!(s, shape == 6, "C15.cover.destructure_tuples_last");
    }
}

harness! {
    /// kind=bounded tier=quick bound="destructure! on arrays of length 0..=5: all elements, prefix+rest, prefix+rest+suffix, rest only, unnamed `..` (prefix/suffix kept), `_` elements, parenthesised pattern, type annotation, generic element type; symbolic u32 payloads"
    #[kani::unwind(7)]
    fn c15_destructure_arrays(s) {
        reset();
        let p: [u32; 5] = [s.u32(), s.u32(), s.u32(), s.u32(), s.u32()];
        let shape = s.upto(8);
        match shape {
            0 => {
                let e: [L; 0] = [];
                konst::destructure! {[] = e}
                let arr = [fresh(p[0]), fresh(p[1]), fresh(p[2])];
                konst::destructure! {[a, b, c] = arr}
                take!(s, a, 0, p[0], "C15.destructure.array_elements_unchanged");
                take!(s, b, 1, p[1], "C15.destructure.array_elements_unchanged");
                take!(s, c, 2, p[2], "C15.destructure.array_elements_unchanged");
            }
            1 => {
                let arr = [fresh(p[0]), fresh(p[1]), fresh(p[2]), fresh(p[3]), fresh(p[4])];
                konst::destructure! {[a, rest @ .., z] = arr}
                chk!(s, range_count(0, 5, 0), "C15.destructure.array_elements_unchanged");
                let rest: [L; 3] = rest;
                take!(s, z, 4, p[4], "C15.destructure.array_suffix_unchanged");
                take!(s, a, 0, p[0], "C15.destructure.array_prefix_unchanged");
                let [r0, r1, r2] = rest;
                take!(s, r0, 1, p[1], "C15.destructure.array_rest_unchanged_in_order");
                take!(s, r1, 2, p[2], "C15.destructure.array_rest_unchanged_in_order");
                take!(s, r2, 3, p[3], "C15.destructure.array_rest_unchanged_in_order");
            }
            2 => {
                let arr = [fresh(p[0]), fresh(p[1]), fresh(p[2]), fresh(p[3]), fresh(p[4])];
                konst::destructure! {[a, b, .., z] = arr}
                chk!(s, range_count(2, 4, 1) && range_count(0, 2, 0) && count(4) == 0, "C15.destructure.dotdot_elements_dropped_immediately");
                take!(s, a, 0, p[0], "C15.destructure.array_prefix_unchanged");
                take!(s, b, 1, p[1], "C15.destructure.array_prefix_unchanged");
                take!(s, z, 4, p[4], "C15.destructure.array_suffix_unchanged");
            }
            3 => {
                let arr = [fresh(p[0]), fresh(p[1]), fresh(p[2]), fresh(p[3])];
                konst::destructure! {[_, b, ..]: [L; 4] = arr}
                chk!(s, count(0) == 1 && count(1) == 0 && range_count(2, 4, 1), "C15.destructure.dotdot_elements_dropped_immediately");
                take!(s, b, 1, p[1], "C15.destructure.array_elements_unchanged");
            }
            4 => {
                let arr = [fresh(p[0]), fresh(p[1]), fresh(p[2]), fresh(p[3])];
                konst::destructure! {[.., y, z] = arr}
                chk!(s, range_count(0, 2, 1) && range_count(2, 4, 0), "C15.destructure.dotdot_elements_dropped_immediately");
                take!(s, y, 2, p[2], "C15.destructure.array_suffix_unchanged");
                take!(s, z, 3, p[3], "C15.destructure.array_suffix_unchanged");
            }
            5 => {
                let arr = [fresh(p[0]), fresh(p[1])];
                konst::destructure! {[all @ ..] = arr}
                let all: [L; 2] = all;
                let [x, y] = all;
                take!(s, x, 0, p[0], "C15.destructure.array_rest_unchanged_in_order");
                take!(s, y, 1, p[1], "C15.destructure.array_rest_unchanged_in_order");
            }
            6 => {
                let arr = [fresh(p[0]), fresh(p[1]), fresh(p[2])];
                konst::destructure! {[(mut x), _, rest @ ..] = arr}
                chk!(s, count(1) == 1 && count(0) == 0 && count(2) == 0, "C15.destructure.underscore_element_dropped_immediately");
                x.payload ^= 1;
                take!(s, x, 0, p[0] ^ 1, "C15.destructure.array_elements_unchanged");
                let [r] = rest;
                take!(s, r, 2, p[2], "C15.destructure.array_rest_unchanged_in_order");
            }
            7 => {
                let arr = [fresh(p[0]), fresh(p[1]), fresh(p[2]), fresh(p[3])];
                let (a, rem) = split_first(arr);
                take!(s, a, 0, p[0], "C15.destructure.array_prefix_unchanged");
                let [r0, r1, r2] = rem;
                take!(s, r2, 3, p[3], "C15.destructure.array_rest_unchanged_in_order");
                take!(s, r1, 2, p[2], "C15.destructure.array_rest_unchanged_in_order");
                take!(s, r0, 1, p[1], "C15.destructure.array_rest_unchanged_in_order");
            }
            _ => {
                // empty rest in the middle
                let arr = [fresh(p[0]), fresh(p[1])];
                konst::destructure! {[a, rest @ .., z] = arr}
                let rest: [L; 0] = rest;
                take!(s, a, 0, p[0], "C15.destructure.array_prefix_unchanged");
                take!(s, z, 1, p[1], "C15.destructure.array_suffix_unchanged");
            }
        }
        chk!(s, all_once(), "C15.destructure.every_field_handed_over_or_dropped_exactly_once");
        cov!(s, shape == 1, "C15.cover.destructure_arrays_prefix_rest_suffix");
        cov!(s, shape == 8, "C15.cover.destructure_arrays_last");
    }
}

harness! {
    /// kind=bounded tier=quick bound="destructure! on a #[repr(packed)] struct with two Drop fields at odd offsets (all fields; `_` field) and on a struct with zero-sized fields (counted ZST destructor, (), PhantomData); symbolic u8/u16/u32 field values"
    #[kani::unwind(7)]
    fn c15_destructure_packed_zst(s) {
        reset();
        let p: [u32; 2] = [s.u32(), s.u32()];
        let t = s.u8();
        let w = s.u16();
        let shape = s.upto(3);
        match shape {
            0 => {
                let v = Pk { t, l: fresh(p[0]), w, m: fresh(p[1]) };
                konst::destructure! {Pk{t: tt, l, w: ww, m} = v}
                chk!(s, tt == t && ww == w, "C15.destructure.packed_fields_unchanged");
                take!(s, l, 0, p[0], "C15.destructure.packed_fields_unchanged");
                take!(s, m, 1, p[1], "C15.destructure.packed_fields_unchanged");
            }
            1 => {
                let v = Pk { t, l: fresh(p[0]), w, m: fresh(p[1]) };
                konst::destructure! {Pk{m, w: _, l: _, t: tt} = v}
                chk!(s, tt == t && count(0) == 1 && count(1) == 0, "C15.destructure.underscore_field_dropped_immediately");
                take!(s, m, 1, p[1], "C15.destructure.packed_fields_unchanged");
            }
            2 => {
                let v = Wz { z: Zd, l: fresh(p[0]), u: (), p: core::marker::PhantomData };
                konst::destructure! {Wz{z, l, u, p: _} = v}
                chk!(s, zdrops() == 0, "C15.destructure.zst_field_handed_over_once");
                let _: () = u;
                drop(z);
                chk!(s, zdrops() == 1, "C15.destructure.zst_field_handed_over_once");
                take!(s, l, 0, p[0], "C15.destructure.zst_struct_fields_unchanged");
            }
            _ => {
                let v = Wz { z: Zd, l: fresh(p[0]), u: (), p: core::marker::PhantomData };
                konst::destructure! {Wz{z: _, l, u: _, p: _} = v}
                chk!(s, zdrops() == 1, "C15.destructure.underscore_field_dropped_immediately");
                take!(s, l, 0, p[0], "C15.destructure.zst_struct_fields_unchanged");
            }
        }
        chk!(s, all_once(), "C15.destructure.every_field_handed_over_or_dropped_exactly_once");
        chk!(s, zdrops() == (if shape >= 2 { 1 } else { 0 }), "C15.destructure.zst_field_handed_over_once");
        cov!(s, shape == 0, "C15.cover.destructure_packed");
        cov!(s, shape == 3, "C15.cover.destructure_zst_last");
    }
}

// ---------------------------------------------------------------------------
// Debug impls: formatting visits exactly the live elements (a slot that was taken or never pushed must not be read)

/// element whose `Debug` impl only records its id
pub struct Dz(pub u8);
static mut SEEN: [u8; 8] = [0; 8];
static mut SEEN_N: usize = 0;
impl core::fmt::Debug for Dz {
    fn fmt(&self, _f: &mut core::fmt::Formatter<'_>) -> core::fmt::Result {
        unsafe {
            let n = *addr_of_mut!(SEEN_N);
            if n < 8 {
                (*addr_of_mut!(SEEN))[n] = self.0;
            }
            *addr_of_mut!(SEEN_N) = n + 1;
        }
        Ok(())
    }
}
struct NullW;
impl core::fmt::Write for NullW {
    fn write_str(&mut self, _s: &str) -> core::fmt::Result {
        Ok(())
    }
}
fn seen_reset() {
    unsafe {
        *addr_of_mut!(SEEN_N) = 0;
        *addr_of_mut!(SEEN) = [0; 8];
    }
}
fn seen_is(ids: &[u8; 3], lo: usize, hi: usize) -> bool {
    unsafe {
        let n = *addr_of_mut!(SEEN_N);
        let mut ok = n == hi - lo;
        let mut j = 0;
        while j < 3 {
            if lo + j < hi && j < 8 && (*addr_of_mut!(SEEN))[j] != ids[lo + j] {
                ok = false;
            }
            j += 1;
        }
        ok
    }
}

harness! {
    /// kind=bounded tier=quick bound="N = 3: `{:?}` of an ArrayConsumer after f front and b back takes (f+b <= 3), of its clone, and of an ArrayBuilder after k <= 3 pushes, with an element type whose Debug impl records which elements it is shown: exactly the live elements, in order"
    #[kani::unwind(8)]
    fn c15_debug_visits_exactly_the_live_elements(s) {
        use core::fmt::Write;
        let ids = [s.u8(), s.u8(), s.u8()];
        let f = s.upto(3);
        let b = s.upto(3 - f);
        let mut c = ArrayConsumer::new([Dz(ids[0]), Dz(ids[1]), Dz(ids[2])]);
        let mut j = 0;
        while j < 3 {
            if j < f {
                let _ = c.next();
            } else if j < f + b {
                let _ = c.next_back();
            }
            j += 1;
        }
        seen_reset();
        let _ = write!(NullW, "{:?}", c);
        chk!(s, seen_is(&ids, f, 3 - b), "C15.consumer.debug_visits_exactly_the_remaining_elements");
        cov!(s, f == 1 && b == 1, "C15.cover.debug_consumer_taken_from_both_ends");
        let k = s.upto(3);
        let mut bd = ArrayBuilder::<Dz, 3>::new();
        let mut j = 0;
        while j < 3 {
            if j < k {
                bd.push(Dz(ids[j]));
            }
            j += 1;
        }
        seen_reset();
        let _ = write!(NullW, "{:?}", bd);
        chk!(s, seen_is(&ids, 0, k), "C15.builder.debug_visits_exactly_the_pushed_elements");
        core::mem::forget(c);
        core::mem::forget(bd);
    }
}
