//! C20 (smoke step, NOT counted as proof) — constant instances of `str_concat!`, `str_join!`,
//! `slice_concat!` compared with std's `concat` / `join` / `collect::<String>` evaluated at run time.
//!
//! Kept apart from `c20.rs` on purpose: the macros are const-evaluated by rustc while the harness
//! crate is being BUILT, so a defect in the kernels (wrong length, missing separator, ...) shows up
//! as a compile error (`error[E0080]: evaluation of ... CONC failed` / "bug: konst made an invalid
//! string") of this module rather than as a failed obligation.  Build this module in a run of its
//! own; a build failure of `c20m` on a tree where `c20` builds IS the detection.
//! `string::from_iter!` rides on the iterator DSL (C10): only a handful of constant instances are here.
use crate::hlib::*;

harness! {
    /// kind=bounded tier=quick bound="SMOKE ONLY, not a proof: 6 constant str_concat! instances (rustc evaluates them) compared with std concat/collect at run time"
    #[kani::unwind(24)]
    fn c20_macro_instances_concat(s) {
        use konst::string::str_concat;
        const S: &[&str] = &["these ", "are ", "wörds"];
        const C: &[char] = &['a', 'é', '€', '😀'];
        chk!(s, eq_bytes(str_concat!(&["a", "é", ""]).as_bytes(), ["a", "é", ""].concat().as_bytes()), "C20.macro_instance.str_concat.literal_list");
        chk!(s, eq_bytes(str_concat!(S).as_bytes(), S.concat().as_bytes()), "C20.macro_instance.str_concat.const_list");
        chk!(s, eq_bytes(str_concat!(&[]).as_bytes(), b""), "C20.macro_instance.str_concat.empty_list");
        chk!(s, eq_bytes(str_concat!(&["", ""]).as_bytes(), ["", ""].concat().as_bytes()), "C20.macro_instance.str_concat.only_empty_pieces");
        chk!(s, eq_bytes(str_concat!(C).as_bytes(), C.iter().collect::<String>().as_bytes()), "C20.macro_instance.str_concat.chars");
        chk!(s, eq_bytes(str_concat!(&['q'; 3]).as_bytes(), b"qqq"), "C20.macro_instance.str_concat.char_array_repeat");
        cov!(s, true, "C20.cover.macro_instances_concat_reached");
    }
}

harness! {
    /// kind=bounded tier=quick bound="SMOKE ONLY, not a proof: 5 constant str_join! and 4 constant slice_concat! instances (rustc evaluates them) compared with std join/concat at run time"
    #[kani::unwind(24)]
    fn c20_macro_instances_join_slice(s) {
        use konst::slice::slice_concat;
        use konst::string::str_join;
        const S: &[&str] = &["these", "are", "wörds"];
        const COMMA: &str = ", ";
        chk!(s, eq_bytes(str_join!(", ", &["foo", "bär", ""]).as_bytes(), ["foo", "bär", ""].join(", ").as_bytes()), "C20.macro_instance.str_join.str_sep");
        chk!(s, eq_bytes(str_join!(COMMA, S).as_bytes(), S.join(COMMA).as_bytes()), "C20.macro_instance.str_join.const_args");
        chk!(s, eq_bytes(str_join!('é', &["x", "", "y"]).as_bytes(), ["x", "", "y"].join("é").as_bytes()), "C20.macro_instance.str_join.multibyte_char_sep");
        chk!(s, eq_bytes(str_join!("→", &["only"]).as_bytes(), ["only"].join("→").as_bytes()), "C20.macro_instance.str_join.single_piece");
        chk!(s, eq_bytes(str_join!(",", &[]).as_bytes(), b""), "C20.macro_instance.str_join.empty_list");
        let k1: [u16; 2] = slice_concat!(u16, &[&[1, 2], &[]]);
        let e1: Vec<u16> = [&[1u16, 2][..], &[]].concat();
        chk!(s, k1.len() == e1.len() && k1[0] == e1[0] && k1[1] == e1[1], "C20.macro_instance.slice_concat.with_empty_slice");
        let k2: [u16; 0] = slice_concat!(u16, &[]);
        let k3: [u16; 0] = slice_concat!(u16, &[&[], &[]]);
        chk!(s, k2.len() == 0 && k3.len() == 0, "C20.macro_instance.slice_concat.empty");
        const PIECES: &[&[u8]] = &[b"ab", b"", b"cde"];
        let k4 = slice_concat!(u8, PIECES);
        chk!(s, eq_bytes(&k4, &PIECES.concat()), "C20.macro_instance.slice_concat.const_list");
        cov!(s, true, "C20.cover.macro_instances_join_slice_reached");
    }
}

harness! {
    /// kind=bounded tier=quick bound="SMOKE ONLY, not a proof: 5 constant string::from_iter! instances (str and char items, adapters whose arguments are user constants named CAP / Ret / LEN like identifiers the macros use internally) compared with collect::<String>() at run time"
    #[kani::unwind(24)]
    fn c20_macro_instances_from_iter(s) {
        use konst::string;
        const CAP: usize = 3;
        const LEN: usize = 2;
        const ITEMS: &[&str] = &["a", "bc", "", "d", "e"];
        const CHARS: &[char] = &['x', 'é', '€'];
        chk!(s, eq_bytes(string::from_iter!(ITEMS).as_bytes(), ITEMS.iter().copied().collect::<String>().as_bytes()), "C20.macro_instance.from_iter.strs");
        chk!(s, eq_bytes(string::from_iter!(CHARS, copied()).as_bytes(), CHARS.iter().copied().collect::<String>().as_bytes()), "C20.macro_instance.from_iter.chars");
        chk!(s, eq_bytes(string::from_iter!(ITEMS, take(CAP)).as_bytes(), ITEMS.iter().copied().take(CAP).collect::<String>().as_bytes()), "C20.macro_instance.from_iter.take_user_const_named_cap");
        chk!(s, eq_bytes(string::from_iter!(ITEMS, filter(|x| x.len() < LEN)).as_bytes(), ITEMS.iter().copied().filter(|x| x.len() < LEN).collect::<String>().as_bytes()), "C20.macro_instance.from_iter.filter_user_const_named_len");
        chk!(s, eq_bytes(string::from_iter!(ITEMS, skip(CAP)).as_bytes(), ITEMS.iter().copied().skip(CAP).collect::<String>().as_bytes()), "C20.macro_instance.from_iter.skip_user_const_named_cap");
        cov!(s, true, "C20.cover.macro_instances_from_iter_reached");
    }
}
