//! C06 — string split iterators yield exactly the pieces std's split family yields.
//!
//! Reference = `ref_split_seq` / `ref_rsplit_seq`: the piece boundaries obtained by repeatedly
//! cutting at the first (last) occurrence of the delimiter in the not-yet-split part, and — for
//! the empty delimiter — at every char boundary including both ends (what `str::split("")`
//! does).  Tied to the real `str::split/rsplit/split_terminator` in the `c06_spec_*` harnesses.
//! `split_terminator` = that sequence without a final empty piece; `rsplit_terminator` =
//! `rsplit`'s sequence without a final empty piece (konst's documented mirrored rule, which is
//! what the property states — NOT std's `rsplit_terminator`).
//!
//! Pieces and remainders are compared by address + length inside the input; an EMPTY piece or
//! remainder is only required to be empty (its address carries no information, and konst
//! legitimately hands out `""` literals for the empty-delimiter boundary pieces).
use crate::hlib::*;
use konst::string::{self, Pattern};

pub const MAXP: usize = 9;

#[derive(Clone, Copy)]
pub struct Seq {
    pub a: [usize; MAXP],
    pub b: [usize; MAXP],
    pub n: usize,
}

impl Seq {
    pub fn new() -> Self {
        Seq { a: [0; MAXP], b: [0; MAXP], n: 0 }
    }
    pub fn push(&mut self, a: usize, b: usize) {
        self.a[self.n] = a;
        self.b[self.n] = b;
        self.n += 1;
    }
}

/// `occ[i]` = the (non-empty) delimiter `d` occurs at byte `i` of `h`.
/// Constant loop bounds (`h.len() <= H`, `d.len() <= D`) so that CBMC unrolls them exactly.
pub fn occurrences<const H: usize, const D: usize>(h: &[u8], d: &[u8]) -> [bool; MAXP] {
    let mut occ = [false; MAXP];
    let mut i = 0;
    while i < H {
        let mut m = d.len() > 0 && i + d.len() <= h.len();
        let mut j = 0;
        while j < D {
            if m && j < d.len() && h[i + j] != d[j] {
                m = false;
            }
            j += 1;
        }
        occ[i] = m;
        i += 1;
    }
    occ
}

/// `str::split`: `h` valid UTF-8 (`<= H` bytes), `d` valid UTF-8 (possibly empty); pieces as
/// `[a, b)` byte ranges of `h`: cut at the first occurrence that starts at or after the end of
/// the previous cut, i.e. the first occurrence inside the not-yet-split suffix.
pub fn ref_split_seq<const H: usize>(h: &[u8], dl: usize, occ: &[bool; MAXP]) -> Seq {
    let mut q = Seq::new();
    let len = h.len();
    if dl == 0 {
        // an empty pattern matches at every char boundary, 0 and len included
        q.push(0, 0);
        let mut a = 0;
        let mut i = 1;
        while i <= H {
            if i <= len && ref_boundary(h, i) {
                q.push(a, i);
                a = i;
            }
            i += 1;
        }
        q.push(len, len);
        return q;
    }
    let mut pos = 0;
    let mut i = 0;
    while i < H {
        if i < len && i >= pos && occ[i] {
            q.push(pos, i);
            pos = i + dl;
        }
        i += 1;
    }
    q.push(pos, len);
    q
}

/// `str::rsplit`: cut at the last occurrence that lies inside the not-yet-split prefix
pub fn ref_rsplit_seq<const H: usize>(h: &[u8], dl: usize, occ: &[bool; MAXP]) -> Seq {
    let mut q = Seq::new();
    let len = h.len();
    if dl == 0 {
        q.push(len, len);
        let mut b = len;
        let mut i = H;
        while i > 0 {
            i -= 1;
            if i < len && ref_boundary(h, i) {
                q.push(i, b);
                b = i;
            }
        }
        q.push(0, 0);
        return q;
    }
    let mut end = len;
    let mut i = H;
    while i > 0 {
        i -= 1;
        if i + dl <= end && occ[i] {
            q.push(i + dl, end);
            end = i;
        }
    }
    q.push(0, end);
    q
}

/// number of pieces of the terminator variants: the final piece is dropped iff it is empty
pub fn term_count(q: &Seq) -> usize {
    if q.b[q.n - 1] == q.a[q.n - 1] {
        q.n - 1
    } else {
        q.n
    }
}

/// `p` is `hb[a..b]` as a place; an empty range only requires an empty `p`
pub fn piece_at(hb: &[u8], p: &str, a: usize, b: usize) -> bool {
    if a == b {
        p.len() == 0
    } else {
        is_subslice_at(hb, p.as_bytes(), a, b)
    }
}

/// the delimiter occurs at two overlapping positions of `h`
pub fn overlapping_occurrences(occ: &[bool; MAXP], dl: usize) -> bool {
    let mut i = 0;
    let mut r = false;
    while i < 5 {
        if occ[i] && ((dl >= 2 && occ[i + 1]) || (dl >= 3 && occ[i + 2])) {
            r = true;
        }
        i += 1;
    }
    r
}

/// what a body tells its harness wrapper (for the cover witnesses)
pub struct Facts {
    pub hl: usize,
    pub dl: usize,
    pub n: usize,
    pub steps: usize,
    pub multibyte: bool,
    pub empty_middle: bool,
    pub leading: bool,
    pub trailing: bool,
    pub overlapping: bool,
}

fn facts(hb: &[u8], dl: usize, occ: &[bool; MAXP], q: &Seq, steps: usize) -> Facts {
    Facts {
        hl: hb.len(),
        dl,
        n: q.n,
        steps,
        multibyte: hb.len() > 0 && hb[0] >= 0x80,
        empty_middle: q.n >= 3 && q.a[1] == q.b[1],
        leading: occ[0],
        trailing: dl > 0 && hb.len() >= dl && occ[hb.len() - dl],
        overlapping: overlapping_occurrences(occ, dl),
    }
}

#[derive(Clone, Copy, PartialEq, Eq)]
pub enum Which {
    Split,
    RSplit,
    SplitTerminator,
    RSplitTerminator,
    /// `split(..).rev()` must be `rsplit(..)`, `split(..).next_back()` its first step
    SplitRev,
    /// `rsplit(..).rev()` must be `split(..)`, `rsplit(..).next_back()` its first step
    RSplitRev,
}

/// one body for both delimiter kinds: `d` is what konst gets, `db` its UTF-8 bytes
/// (`h.len() <= H`, `db.len() <= D`)
fn run_one<'a, 'p, S: Src, P: Pattern<'p>, const H: usize, const D: usize, const STEPS: usize>(
    s: &mut S,
    w: Which,
    h: &'a str,
    d: P,
    db: &[u8],
) -> Facts {
    let hb = h.as_bytes();
    let hl = hb.len();
    let dl = db.len();
    let occ = occurrences::<H, D>(hb, db);
    match w {
        Which::Split => {
            let q = ref_split_seq::<H>(hb, dl, &occ);
            let it = string::split(h, d);
            chk!(s, piece_at(hb, it.remainder(), 0, hl), "C06.split.initial_remainder_is_input");
            chk!(s, piece_at(hb, it.copy().remainder(), 0, hl), "C06.split.copy_keeps_remainder");
            let k = run_split::<S, P, STEPS>(s, it, hb, &q, q.n, true);
            facts(hb, dl, &occ, &q, k)
        }
        Which::RSplit => {
            let q = ref_rsplit_seq::<H>(hb, dl, &occ);
            let it = string::rsplit(h, d);
            chk!(s, piece_at(hb, it.remainder(), 0, hl), "C06.rsplit.initial_remainder_is_input");
            chk!(s, piece_at(hb, it.copy().remainder(), 0, hl), "C06.rsplit.copy_keeps_remainder");
            let k = run_rsplit::<S, P, STEPS>(s, it, hb, &q, q.n, false);
            facts(hb, dl, &occ, &q, k)
        }
        Which::SplitTerminator => {
            let q = ref_split_seq::<H>(hb, dl, &occ);
            let it = string::split_terminator(h, d);
            chk!(s, piece_at(hb, it.remainder(), 0, hl), "C06.split_terminator.initial_remainder_is_input");
            chk!(s, piece_at(hb, it.copy().remainder(), 0, hl), "C06.split_terminator.copy_keeps_remainder");
            let k = run_split_terminator::<S, P, STEPS>(s, it, hb, &q, term_count(&q), true);
            facts(hb, dl, &occ, &q, k)
        }
        Which::RSplitTerminator => {
            let q = ref_rsplit_seq::<H>(hb, dl, &occ);
            let it = string::rsplit_terminator(h, d);
            chk!(s, piece_at(hb, it.remainder(), 0, hl), "C06.rsplit_terminator.initial_remainder_is_input");
            chk!(s, piece_at(hb, it.copy().remainder(), 0, hl), "C06.rsplit_terminator.copy_keeps_remainder");
            let k = run_rsplit_terminator::<S, P, STEPS>(s, it, hb, &q, term_count(&q), false);
            facts(hb, dl, &occ, &q, k)
        }
        Which::SplitRev => {
            let q = ref_rsplit_seq::<H>(hb, dl, &occ);
            // one step from the back of the forward iterator == first step of rsplit
            match string::split(h, d).next_back() {
                Some((piece, nx)) => {
                    chk!(s, piece_at(hb, piece, q.a[0], q.b[0]), "C06.split.next_back.piece_eq_std_rsplit_first");
                    let r = nx.remainder();
                    chk!(s, if q.n > 1 { piece_at(hb, r, 0, q.b[1]) } else { r.len() == 0 },
                         "C06.split.next_back.remainder_is_unsplit_prefix");
                }
                None => chk!(s, false, "C06.split.next_back.yields_fewer_than_std_rsplit"),
            }
            let it = string::split(h, d).rev();
            chk!(s, piece_at(hb, it.remainder(), 0, hl), "C06.split_rev.initial_remainder_is_input");
            let k = run_split_rev::<S, P, STEPS>(s, it, hb, &q, q.n, false);
            facts(hb, dl, &occ, &q, k)
        }
        Which::RSplitRev => {
            let q = ref_split_seq::<H>(hb, dl, &occ);
            match string::rsplit(h, d).next_back() {
                Some((piece, nx)) => {
                    chk!(s, piece_at(hb, piece, q.a[0], q.b[0]), "C06.rsplit.next_back.piece_eq_std_split_first");
                    let r = nx.remainder();
                    chk!(s, if q.n > 1 { piece_at(hb, r, q.a[1], hl) } else { r.len() == 0 },
                         "C06.rsplit.next_back.remainder_is_unsplit_suffix");
                }
                None => chk!(s, false, "C06.rsplit.next_back.yields_fewer_than_std_split"),
            }
            let it = string::rsplit(h, d).rev();
            chk!(s, piece_at(hb, it.remainder(), 0, hl), "C06.rsplit_rev.initial_remainder_is_input");
            let k = run_rsplit_rev::<S, P, STEPS>(s, it, hb, &q, q.n, true);
            facts(hb, dl, &occ, &q, k)
        }
    }
}

fn body_str<S: Src, const H: usize, const D: usize, const STEPS: usize>(s: &mut S, w: Which) -> Facts {
    let hs = BStr::<H>::any(s);
    let ds = BStr::<D>::any(s);
    let (h, d) = (hs.as_str(), ds.as_str());
    run_one::<S, &str, H, D, STEPS>(s, w, h, d, d.as_bytes())
}

fn body_char<S: Src, const H: usize, const STEPS: usize>(s: &mut S, w: Which) -> Facts {
    let hs = BStr::<H>::any(s);
    let c = s.char();
    let mut tmp = [0u8; 4];
    let db = c.encode_utf8(&mut tmp).as_bytes();
    run_one::<S, char, H, 4, STEPS>(s, w, hs.as_str(), c, db)
}

// ---------------------------------------------------------------------------
// &str delimiters (empty delimiter included), quick: string<=4 bytes, delimiter<=2 bytes.
// Unwind: the search loop of string::find/rfind backtracks, <= 7 iterations for 4/2 bytes.

harness! {
    /// kind=bounded tier=quick bound="valid UTF-8 string<=4 bytes, &str delimiter<=2 bytes (empty included), every step until exhaustion (<=6 pieces)"
    #[kani::unwind(8)]
    fn c06_split_str(s) {
        let f = body_str::<_, 4, 2, 7>(s, Which::Split);
        cov!(s, f.dl == 0 && f.hl == 4 && f.n == 4 && f.multibyte && f.steps == 4, "C06.cover.split_empty_delim_multibyte");
        cov!(s, f.dl == 0 && f.hl == 4 && f.n == 6 && f.steps == 6, "C06.cover.split_empty_delim_six_pieces");
        cov!(s, f.dl == 1 && f.empty_middle && f.steps == f.n, "C06.cover.split_adjacent_delims");
        cov!(s, f.dl == 2 && f.leading && f.trailing && f.n == 3 && f.steps == 3, "C06.cover.split_leading_and_trailing");
        cov!(s, f.dl == 2 && f.overlapping && f.steps == 2, "C06.cover.split_overlapping_occurrences");
        cov!(s, f.dl == 2 && f.n == 1 && f.hl == 4 && f.steps == 1, "C06.cover.split_absent");
    }
}

harness! {
    /// kind=bounded tier=quick bound="valid UTF-8 string<=4 bytes, &str delimiter<=2 bytes (empty included), every step until exhaustion (<=6 pieces)"
    #[kani::unwind(8)]
    fn c06_rsplit_str(s) {
        let f = body_str::<_, 4, 2, 7>(s, Which::RSplit);
        cov!(s, f.dl == 0 && f.hl == 4 && f.n == 4 && f.multibyte && f.steps == 4, "C06.cover.rsplit_empty_delim_multibyte");
        cov!(s, f.dl == 1 && f.empty_middle && f.steps == f.n, "C06.cover.rsplit_adjacent_delims");
        cov!(s, f.dl == 2 && f.leading && f.trailing && f.n == 3 && f.steps == 3, "C06.cover.rsplit_leading_and_trailing");
        cov!(s, f.dl == 2 && f.overlapping && f.steps == 2, "C06.cover.rsplit_overlapping_occurrences");
    }
}

harness! {
    /// kind=bounded tier=quick bound="valid UTF-8 string<=4 bytes, &str delimiter<=2 bytes (empty included), every step until exhaustion (<=6 pieces)"
    #[kani::unwind(8)]
    fn c06_split_terminator_str(s) {
        let f = body_str::<_, 4, 2, 7>(s, Which::SplitTerminator);
        cov!(s, f.dl == 0 && f.hl == 4 && f.multibyte && f.steps == f.n - 1, "C06.cover.split_terminator_empty_delim");
        cov!(s, f.dl == 2 && f.trailing && f.steps == f.n - 1 && f.n == 2 && f.hl == 4, "C06.cover.split_terminator_drops_trailing_empty");
        cov!(s, f.dl == 1 && !f.trailing && f.steps == f.n && f.n == 3, "C06.cover.split_terminator_keeps_nonempty_last");
        cov!(s, f.dl == 1 && f.trailing && f.empty_middle, "C06.cover.split_terminator_adjacent_trailing");
        cov!(s, f.hl == 0 && f.dl == 1 && f.steps == 0, "C06.cover.split_terminator_empty_input");
    }
}

harness! {
    /// kind=bounded tier=quick bound="valid UTF-8 string<=4 bytes, &str delimiter<=2 bytes (empty included), every step until exhaustion (<=6 pieces)"
    #[kani::unwind(8)]
    fn c06_rsplit_terminator_str(s) {
        let f = body_str::<_, 4, 2, 7>(s, Which::RSplitTerminator);
        cov!(s, f.dl == 0 && f.hl == 4 && f.multibyte && f.steps == f.n - 1, "C06.cover.rsplit_terminator_empty_delim");
        cov!(s, f.dl == 2 && f.leading && f.steps == f.n - 1 && f.n == 2 && f.hl == 4, "C06.cover.rsplit_terminator_drops_leading_empty");
        cov!(s, f.dl == 1 && !f.leading && f.steps == f.n && f.n == 3, "C06.cover.rsplit_terminator_keeps_nonempty_first");
        cov!(s, f.dl == 2 && f.overlapping && f.steps == f.n && f.hl == 3, "C06.cover.rsplit_terminator_overlapping_keeps_both");
    }
}

harness! {
    /// kind=bounded tier=quick bound="valid UTF-8 string<=4 bytes, &str delimiter<=2 bytes (empty included); one next_back() and rev() of split, then every step until exhaustion"
    #[kani::unwind(8)]
    fn c06_split_rev_str(s) {
        let f = body_str::<_, 4, 2, 7>(s, Which::SplitRev);
        cov!(s, f.dl == 1 && f.n == 3 && f.steps == 3 && f.multibyte, "C06.cover.split_rev_three_pieces");
        cov!(s, f.dl == 0 && f.n == 4 && f.steps == 4, "C06.cover.split_rev_empty_delim");
    }
}

harness! {
    /// kind=bounded tier=thorough bound="valid UTF-8 string<=4 bytes, &str delimiter<=2 bytes (empty included); one next_back() and rev() of rsplit, then every step until exhaustion"
    #[kani::unwind(8)]
    fn c06_rsplit_rev_str(s) {
        let f = body_str::<_, 4, 2, 7>(s, Which::RSplitRev);
        cov!(s, f.dl == 1 && f.n == 3 && f.steps == 3 && f.multibyte, "C06.cover.rsplit_rev_three_pieces");
        cov!(s, f.dl == 0 && f.n == 4 && f.steps == 4, "C06.cover.rsplit_rev_empty_delim");
    }
}

// ---------------------------------------------------------------------------
// char delimiters (any char), quick: string<=4 bytes.
// Unwind: the backtracking reverse search needs up to 10 iterations on 4 bytes (a 4-byte
// delimiter whose continuation bytes keep matching).

harness! {
    /// kind=bounded tier=quick bound="valid UTF-8 string<=4 bytes, char delimiter (any char), every step until exhaustion (<=5 pieces)"
    #[kani::unwind(12)]
    fn c06_split_char(s) {
        let f = body_char::<_, 4, 6>(s, Which::Split);
        cov!(s, f.dl == 2 && f.n == 3 && f.steps == 3 && f.hl == 4, "C06.cover.split_char2_three_pieces");
        cov!(s, f.dl == 1 && f.n == 5 && f.steps == 5, "C06.cover.split_char_all_delims");
        cov!(s, f.dl == 4 && f.leading && f.hl == 4 && f.steps == 2, "C06.cover.split_char4_whole");
    }
}

harness! {
    /// kind=bounded tier=quick bound="valid UTF-8 string<=4 bytes, char delimiter (any char), every step until exhaustion (<=5 pieces)"
    #[kani::unwind(12)]
    fn c06_rsplit_char(s) {
        let f = body_char::<_, 4, 6>(s, Which::RSplit);
        cov!(s, f.dl == 2 && f.n == 3 && f.steps == 3 && f.hl == 4, "C06.cover.rsplit_char2_three_pieces");
        cov!(s, f.dl == 1 && f.n == 5 && f.steps == 5, "C06.cover.rsplit_char_all_delims");
    }
}

harness! {
    /// kind=bounded tier=quick bound="valid UTF-8 string<=4 bytes, char delimiter (any char), every step until exhaustion (<=5 pieces)"
    #[kani::unwind(12)]
    fn c06_split_terminator_char(s) {
        let f = body_char::<_, 4, 6>(s, Which::SplitTerminator);
        cov!(s, f.dl == 2 && f.trailing && f.n == 3 && f.steps == 2 && f.hl == 4, "C06.cover.split_terminator_char_drops_trailing_empty");
        cov!(s, f.dl == 1 && !f.trailing && f.n == 3 && f.steps == 3, "C06.cover.split_terminator_char_keeps_last");
    }
}

harness! {
    /// kind=bounded tier=thorough bound="valid UTF-8 string<=4 bytes, char delimiter (any char), every step until exhaustion (<=5 pieces)"
    #[kani::unwind(12)]
    fn c06_rsplit_terminator_char(s) {
        let f = body_char::<_, 4, 6>(s, Which::RSplitTerminator);
        cov!(s, f.dl == 2 && f.leading && f.n == 3 && f.steps == 2 && f.hl == 4, "C06.cover.rsplit_terminator_char_drops_leading_empty");
        cov!(s, f.dl == 1 && !f.leading && f.n == 3 && f.steps == 3, "C06.cover.rsplit_terminator_char_keeps_first");
    }
}

harness! {
    /// kind=bounded tier=thorough bound="valid UTF-8 string<=4 bytes, char delimiter (any char); one next_back() and rev() of split, then every step until exhaustion"
    #[kani::unwind(12)]
    fn c06_split_rev_char(s) {
        let f = body_char::<_, 4, 6>(s, Which::SplitRev);
        cov!(s, f.dl == 1 && f.n == 3 && f.steps == 3, "C06.cover.split_rev_char");
    }
}

harness! {
    /// kind=bounded tier=thorough bound="valid UTF-8 string<=4 bytes, char delimiter (any char); one next_back() and rev() of rsplit, then every step until exhaustion"
    #[kani::unwind(12)]
    fn c06_rsplit_rev_char(s) {
        let f = body_char::<_, 4, 6>(s, Which::RSplitRev);
        cov!(s, f.dl == 1 && f.n == 3 && f.steps == 3, "C06.cover.rsplit_rev_char");
    }
}

// ---------------------------------------------------------------------------
// 3-byte delimiters: the smallest bound at which a delimiter can overlap itself non-trivially
// ("aab" in "aaab", "baa" in "baaa")

harness! {
    /// kind=bounded tier=quick bound="valid UTF-8 string<=4 bytes, &str delimiter of exactly 3 bytes, every step until exhaustion (<=2 pieces)"
    #[kani::unwind(10)]
    fn c06_split_str_delim3(s) {
        let hs = BStr::<4>::any(s);
        let ds = BStr::<3>::any(s);
        let (h, d) = (hs.as_str(), ds.as_str());
        s.assume(d.len() == 3);
        let f = run_one::<_, &str, 4, 3, 3>(s, Which::Split, h, d, d.as_bytes());
        cov!(s, f.n == 2 && f.hl == 4 && f.steps == 2 && !f.leading, "C06.cover.split_delim3_found_at_1");
        cov!(s, f.n == 1 && f.hl == 4 && f.steps == 1, "C06.cover.split_delim3_absent");
    }
}

harness! {
    /// kind=bounded tier=quick bound="valid UTF-8 string<=4 bytes, &str delimiter of exactly 3 bytes, every step until exhaustion (<=2 pieces)"
    #[kani::unwind(10)]
    fn c06_rsplit_str_delim3(s) {
        let hs = BStr::<4>::any(s);
        let ds = BStr::<3>::any(s);
        let (h, d) = (hs.as_str(), ds.as_str());
        s.assume(d.len() == 3);
        let f = run_one::<_, &str, 4, 3, 3>(s, Which::RSplit, h, d, d.as_bytes());
        cov!(s, f.n == 2 && f.hl == 4 && f.steps == 2 && f.leading, "C06.cover.rsplit_delim3_found_at_0");
    }
}

// ---------------------------------------------------------------------------
// thorough twins with larger bounds

macro_rules! c06_str_big {
    ($name:ident, $w:expr) => {
        harness! {
            /// kind=bounded tier=thorough bound="valid UTF-8 string<=5 bytes, &str delimiter<=3 bytes (empty included), every step until exhaustion (<=7 pieces)"
            #[kani::unwind(13)]
            fn $name(s) {
                let f = body_str::<_, 5, 3, 8>(s, $w);
                cov!(s, f.dl == 3 && f.hl == 5 && f.n == 2 && f.steps >= 1, "C06.cover.big_delim3");
                cov!(s, f.dl == 0 && f.hl == 5 && f.steps >= 6, "C06.cover.big_empty_delim");
            }
        }
    };
}
c06_str_big! {c06_split_str_big, Which::Split}
c06_str_big! {c06_rsplit_str_big, Which::RSplit}
c06_str_big! {c06_split_terminator_str_big, Which::SplitTerminator}
c06_str_big! {c06_rsplit_terminator_str_big, Which::RSplitTerminator}

macro_rules! c06_char_big {
    ($name:ident, $w:expr) => {
        harness! {
            /// kind=bounded tier=thorough bound="valid UTF-8 string<=5 bytes, char delimiter (any char), every step until exhaustion (<=6 pieces)"
            #[kani::unwind(14)]
            fn $name(s) {
                let f = body_char::<_, 5, 7>(s, $w);
                cov!(s, f.dl == 2 && f.hl == 5 && f.n == 3 && f.steps >= 2, "C06.cover.big_char2");
                cov!(s, f.dl == 4 && f.hl == 5 && f.n == 2, "C06.cover.big_char4");
            }
        }
    };
}
c06_char_big! {c06_split_char_big, Which::Split}
c06_char_big! {c06_rsplit_char_big, Which::RSplit}
c06_char_big! {c06_split_terminator_char_big, Which::SplitTerminator}
c06_char_big! {c06_rsplit_terminator_char_big, Which::RSplitTerminator}

// ---------------------------------------------------------------------------
// spec adequacy: the reference sequences vs the real std iterators (char delimiters; the empty
// &str delimiter separately — std's non-empty &str searcher is Two-Way and too heavy for CBMC)

macro_rules! c06_spec_char {
    ($name:ident, $refseq:ident, $stdfn:ident, $term:expr, $o_piece:literal, $o_count:literal) => {
        harness! {
            /// kind=bounded tier=thorough bound="spec adequacy: the reference sequence vs the real std iterator of the same name with a closure pattern matching exactly one char (any char), string<=4 bytes"
            #[kani::unwind(8)]
            fn $name(s) {
                let hs = BStr::<4>::any(s);
                let c = s.char();
                let h = hs.as_str();
                let hb = h.as_bytes();
                let mut tmp = [0u8; 4];
                let db = c.encode_utf8(&mut tmp).as_bytes();
                let occ = occurrences::<4, 4>(hb, db);
                let q = $refseq::<4>(hb, db.len(), &occ);
                let n = if $term { term_count(&q) } else { q.n };
                // a closure pattern that matches exactly `c`: same documented result as the `char`
                // pattern, but std then walks `char_indices` instead of the word-at-a-time memchr,
                // which CBMC cannot afford six times in a row (the direct `char` pattern is
                // tied in c06_spec_direct_char on shorter strings)
                let mut it = h.$stdfn(|x: char| x == c);
                let mut k = 0;
                let mut live = true;
                while k < 6 {
                    if live {
                        match it.next() {
                            Some(p) => {
                                chk!(s, k < n && is_subslice_at(hb, p.as_bytes(), q.a[k], q.b[k]), $o_piece);
                            }
                            None => {
                                chk!(s, k == n, $o_count);
                                live = false;
                            }
                        }
                    }
                    k += 1;
                }
                chk!(s, !live, $o_count);
                cov!(s, q.n == 3 && db.len() == 2 && hb.len() == 4, "SPEC.cover.char2_three_pieces");
                cov!(s, q.n == 3 && db.len() == 1 && q.a[2] == q.b[2] && q.a[0] != q.b[0], "SPEC.cover.last_piece_empty");
                cov!(s, q.n == 5, "SPEC.cover.five_pieces");
            }
        }
    };
}
c06_spec_char! {c06_spec_split_char, ref_split_seq, split, false, "SPEC.ref_split_seq.piece_eq_std_split_char", "SPEC.ref_split_seq.count_eq_std_split_char"}
c06_spec_char! {c06_spec_rsplit_char, ref_rsplit_seq, rsplit, false, "SPEC.ref_rsplit_seq.piece_eq_std_rsplit_char", "SPEC.ref_rsplit_seq.count_eq_std_rsplit_char"}
c06_spec_char! {c06_spec_split_terminator_char, ref_split_seq, split_terminator, true, "SPEC.term_count.piece_eq_std_split_terminator_char", "SPEC.term_count.count_eq_std_split_terminator_char"}

harness! {
    /// kind=bounded tier=thorough bound="spec adequacy: the first two pieces of ref_split_seq vs str::split(char) with the char pattern itself (std's memchr path), string<=3 bytes"
    #[kani::unwind(10)]
    fn c06_spec_direct_char(s) {
        let hs = BStr::<3>::any(s);
        let c = s.char();
        let h = hs.as_str();
        let hb = h.as_bytes();
        let mut tmp = [0u8; 4];
        let db = c.encode_utf8(&mut tmp).as_bytes();
        let occ = occurrences::<3, 4>(hb, db);
        let q = ref_split_seq::<3>(hb, db.len(), &occ);
        let mut it = h.split(c);
        chk!(s, match it.next() { Some(p) => is_subslice_at(hb, p.as_bytes(), q.a[0], q.b[0]), None => false },
             "SPEC.ref_split_seq.first_piece_eq_std_split_char_direct");
        let e = if q.n > 1 { Some((q.a[1], q.b[1])) } else { None };
        chk!(s, match (it.next(), e) { (Some(p), Some((a, b))) => is_subslice_at(hb, p.as_bytes(), a, b), (None, None) => true, _ => false },
             "SPEC.ref_split_seq.second_piece_eq_std_split_char_direct");
        cov!(s, q.n == 3, "SPEC.cover.direct_three_pieces");
        cov!(s, q.n == 2 && db.len() == 2, "SPEC.cover.direct_char2");
    }
}

macro_rules! c06_spec_empty {
    ($name:ident, $refseq:ident, $stdfn:ident, $term:expr, $o_piece:literal, $o_count:literal) => {
        harness! {
            /// kind=bounded tier=thorough bound="spec adequacy: the empty-delimiter branch of the reference sequence vs the real std iterator of the same name with an empty &str pattern, string<=4 bytes"
            #[kani::unwind(8)]
            fn $name(s) {
                let hs = BStr::<4>::any(s);
                let h = hs.as_str();
                let hb = h.as_bytes();
                let occ = [false; MAXP];
                let q = $refseq::<4>(hb, 0, &occ);
                let n = if $term { term_count(&q) } else { q.n };
                let mut it = h.$stdfn("");
                let mut k = 0;
                let mut live = true;
                while k < 7 {
                    if live {
                        match it.next() {
                            Some(p) => {
                                chk!(s, k < n && is_subslice_at(hb, p.as_bytes(), q.a[k], q.b[k]), $o_piece);
                            }
                            None => {
                                chk!(s, k == n, $o_count);
                                live = false;
                            }
                        }
                    }
                    k += 1;
                }
                chk!(s, !live, $o_count);
                cov!(s, hb.len() == 4 && q.n == 4 && hb[0] >= 0xC2, "SPEC.cover.empty_delim_multibyte");
                cov!(s, hb.len() == 0, "SPEC.cover.empty_delim_empty_input");
            }
        }
    };
}
c06_spec_empty! {c06_spec_split_empty, ref_split_seq, split, false, "SPEC.ref_split_seq.piece_eq_std_split_empty", "SPEC.ref_split_seq.count_eq_std_split_empty"}
c06_spec_empty! {c06_spec_rsplit_empty, ref_rsplit_seq, rsplit, false, "SPEC.ref_rsplit_seq.piece_eq_std_rsplit_empty", "SPEC.ref_rsplit_seq.count_eq_std_rsplit_empty"}
c06_spec_empty! {c06_spec_split_terminator_empty, ref_split_seq, split_terminator, true, "SPEC.term_count.piece_eq_std_split_terminator_empty", "SPEC.term_count.count_eq_std_split_terminator_empty"}

// ---------------------------------------------------------------------------
// (kept at the end of the file: the runner's template discovery takes the first `macro_rules!`
// that precedes a `harness!` template as the template's name)

/// Generates `fn $fname::<.., STEPS>(s, it, hb, q, n, fwd) -> steps`: runs `it` to exhaustion
/// (`STEPS` = constant step budget > the largest possible `n`); step `k` must yield piece `k` of
/// `q` (only the first `n` pieces are expected), leave as remainder the not-yet-split part
/// (`hb[q.a[k+1]..]` forward, `hb[..q.b[k+1]]` backward, empty after the last piece of the full
/// sequence), and `None` must come exactly after `n` pieces.
macro_rules! seq_checker {
    ($fname:ident, $It:ident, $o_piece:literal, $o_rem:literal, $o_more:literal, $o_fewer:literal) => {
        pub fn $fname<'a, 'p, S: Src, P: Pattern<'p>, const STEPS: usize>(
            s: &mut S,
            mut it: string::$It<'a, 'p, P>,
            hb: &[u8],
            q: &Seq,
            n: usize,
            fwd: bool,
        ) -> usize {
            let len = hb.len();
            let mut steps = 0;
            let mut live = true;
            let mut k = 0;
            while k < STEPS {
                if live {
                    match it.copy().next() {
                        Some((piece, nx)) => {
                            chk!(s, k < n, $o_more);
                            if k < n {
                                chk!(s, piece_at(hb, piece, q.a[k], q.b[k]), $o_piece);
                                let r = nx.remainder();
                                let ok = if k + 1 < q.n {
                                    if fwd { piece_at(hb, r, q.a[k + 1], len) } else { piece_at(hb, r, 0, q.b[k + 1]) }
                                } else {
                                    r.len() == 0
                                };
                                chk!(s, ok, $o_rem);
                                it = nx;
                                steps += 1;
                            } else {
                                live = false;
                            }
                        }
                        None => {
                            chk!(s, k == n, $o_fewer);
                            live = false;
                        }
                    }
                }
                k += 1;
            }
            // the step budget is larger than any reference sequence within the harness bound
            chk!(s, !live, $o_more);
            steps
        }
    };
}

seq_checker! {run_split, Split, "C06.split.step.piece_eq_std", "C06.split.step.remainder_is_unsplit_suffix", "C06.split.yields_more_than_std", "C06.split.yields_fewer_than_std"}
seq_checker! {run_rsplit, RSplit, "C06.rsplit.step.piece_eq_std", "C06.rsplit.step.remainder_is_unsplit_prefix", "C06.rsplit.yields_more_than_std", "C06.rsplit.yields_fewer_than_std"}
seq_checker! {run_split_terminator, SplitTerminator, "C06.split_terminator.step.piece_eq_std", "C06.split_terminator.step.remainder_is_unsplit_suffix", "C06.split_terminator.yields_more_than_std", "C06.split_terminator.yields_fewer_than_std"}
seq_checker! {run_rsplit_terminator, RSplitTerminator, "C06.rsplit_terminator.step.piece_eq_mirrored_rule", "C06.rsplit_terminator.step.remainder_is_unsplit_prefix", "C06.rsplit_terminator.yields_more_than_mirrored_rule", "C06.rsplit_terminator.yields_fewer_than_mirrored_rule"}
seq_checker! {run_split_rev, RSplit, "C06.split_rev.step.piece_eq_std_rsplit", "C06.split_rev.step.remainder_is_unsplit_prefix", "C06.split_rev.yields_more_than_std_rsplit", "C06.split_rev.yields_fewer_than_std_rsplit"}
seq_checker! {run_rsplit_rev, Split, "C06.rsplit_rev.step.piece_eq_std_split", "C06.rsplit_rev.step.remainder_is_unsplit_suffix", "C06.rsplit_rev.yields_more_than_std_split", "C06.rsplit_rev.yields_fewer_than_std_split"}

