//! C06 — string split iterators yield exactly the pieces std's split family yields.
//!
//! Reference = `ref_split_seq` / `ref_rsplit_seq`: the piece boundaries obtained by repeatedly
//! cutting at the first (last) occurrence of the delimiter in the not-yet-split part, and — for
//! the empty delimiter — at every char boundary including both ends (what `str::split("")`
//! does).  Tied to the real `str::split/rsplit/split_terminator` in the `c06_spec_*` harnesses.
//! `split_terminator` = that sequence without a final empty piece; `rsplit_terminator` =
//! `rsplit`'s sequence without a final empty piece (konst's documented mirrored rule, which is
//! what the property states — NOT std's `rsplit_terminator`).
//!
//! Pieces and remainders are compared by address + length inside the input; an EMPTY piece or
//! remainder is only required to be empty (its address carries no information, and konst
//! legitimately hands out `""` literals for the empty-delimiter boundary pieces).
use crate::hlib::*;
use konst::string::{self, Pattern};

pub const MAXP: usize = 9;

#[derive(Clone, Copy)]
pub struct Seq {
    pub a: [usize; MAXP],
    pub b: [usize; MAXP],
    pub n: usize,
}

impl Seq {
    pub fn new() -> Self {
        Seq { a: [0; MAXP], b: [0; MAXP], n: 0 }
    }
    pub fn push(&mut self, a: usize, b: usize) {
        self.a[self.n] = a;
        self.b[self.n] = b;
        self.n += 1;
    }
}

/// `occ[i]` = the (non-empty) delimiter `d` occurs at byte `i` of `h`.
/// Constant loop bounds (`h.len() <= H`, `d.len() <= D`) so that CBMC unrolls them exactly.
pub fn occurrences<const H: usize, const D: usize>(h: &[u8], d: &[u8]) -> [bool; MAXP] {
    let mut occ = [false; MAXP];
    let mut i = 0;
    while i < H {
        let mut m = d.len() > 0 && i + d.len() <= h.len();
        let mut j = 0;
        while j < D {
            if m && j < d.len() && h[i + j] != d[j] {
                m = false;
            }
            j += 1;
        }
        occ[i] = m;
        i += 1;
    }
    occ
}

/// `str::split`: `h` valid UTF-8 (`<= H` bytes), `d` valid UTF-8 (possibly empty); pieces as
/// `[a, b)` byte ranges of `h`: cut at the first occurrence that starts at or after the end of
/// the previous cut, i.e. the first occurrence inside the not-yet-split suffix.
pub fn ref_split_seq<const H: usize>(h: &[u8], dl: usize, occ: &[bool; MAXP]) -> Seq {
    let mut q = Seq::new();
    let len = h.len();
    if dl == 0 {
        // an empty pattern matches at every char boundary, 0 and len included
        q.push(0, 0);
        let mut a = 0;
        let mut i = 1;
        while i <= H {
            if i <= len && ref_boundary(h, i) {
                q.push(a, i);
                a = i;
            }
            i += 1;
        }
        q.push(len, len);
        return q;
    }
    let mut pos = 0;
    let mut i = 0;
    while i < H {
        if i < len && i >= pos && occ[i] {
            q.push(pos, i);
            pos = i + dl;
        }
        i += 1;
    }
    q.push(pos, len);
    q
}

/// `str::rsplit`: cut at the last occurrence that lies inside the not-yet-split prefix
pub fn ref_rsplit_seq<const H: usize>(h: &[u8], dl: usize, occ: &[bool; MAXP]) -> Seq {
    let mut q = Seq::new();
    let len = h.len();
    if dl == 0 {
        q.push(len, len);
        let mut b = len;
        let mut i = H;
        while i > 0 {
            i -= 1;
            if i < len && ref_boundary(h, i) {
                q.push(i, b);
                b = i;
            }
        }
        q.push(0, 0);
        return q;
    }
    let mut end = len;
    let mut i = H;
    while i > 0 {
        i -= 1;
        if i + dl <= end && occ[i] {
            q.push(i + dl, end);
            end = i;
        }
    }
    q.push(0, end);
    q
}

/// number of pieces of the terminator variants: the final piece is dropped iff it is empty
pub fn term_count(q: &Seq) -> usize {
    if q.b[q.n - 1] == q.a[q.n - 1] {
        q.n - 1
    } else {
        q.n
    }
}

/// `p` is `hb[a..b]` as a place; an empty range only requires an empty `p`
pub fn piece_at(hb: &[u8], p: &str, a: usize, b: usize) -> bool {
    if a == b {
        p.len() == 0
    } else {
        is_subslice_at(hb, p.as_bytes(), a, b)
    }
}

/// the delimiter occurs at two overlapping positions of `h`
pub fn overlapping_occurrences(occ: &[bool; MAXP], dl: usize) -> bool {
    let mut i = 0;
    let mut r = false;
    while i + 2 < MAXP {
        if occ[i] && ((dl >= 2 && occ[i + 1]) || (dl >= 3 && occ[i + 2])) {
            r = true;
        }
        i += 1;
    }
    r
}

/// Generates `fn $fname(s, it, hb, q, n, fwd) -> steps`: runs `it` to exhaustion; step `k` must
/// yield piece `k` of `q` (only the first `n` pieces are expected), leave as remainder the
/// not-yet-split part (`hb[q.a[k+1]..]` forward, `hb[..q.b[k+1]]` backward, empty after the
/// last piece of the full sequence), and `None` must come exactly after `n` pieces.
macro_rules! seq_checker {
    ($fname:ident, $It:ident, $o_piece:literal, $o_rem:literal, $o_more:literal, $o_fewer:literal) => {
        pub fn $fname<'a, 'p, S: Src, P: Pattern<'p>>(
            s: &mut S,
            mut it: string::$It<'a, 'p, P>,
            hb: &[u8],
            q: &Seq,
            n: usize,
            fwd: bool,
        ) -> usize {
            let len = hb.len();
            let mut k = 0;
            while k <= n {
                match it.next() {
                    Some((piece, nx)) => {
                        chk!(s, k < n, $o_more);
                        if k >= n {
                            return k + 1;
                        }
                        chk!(s, piece_at(hb, piece, q.a[k], q.b[k]), $o_piece);
                        let r = nx.remainder();
                        let ok = if k + 1 < q.n {
                            if fwd { piece_at(hb, r, q.a[k + 1], len) } else { piece_at(hb, r, 0, q.b[k + 1]) }
                        } else {
                            r.len() == 0
                        };
                        chk!(s, ok, $o_rem);
                        it = nx;
                    }
                    None => {
                        chk!(s, k == n, $o_fewer);
                        return k;
                    }
                }
                k += 1;
            }
            k
        }
    };
}

seq_checker! {run_split, Split, "C06.split.step.piece_eq_std", "C06.split.step.remainder_is_unsplit_suffix", "C06.split.yields_more_than_std", "C06.split.yields_fewer_than_std"}
seq_checker! {run_rsplit, RSplit, "C06.rsplit.step.piece_eq_std", "C06.rsplit.step.remainder_is_unsplit_prefix", "C06.rsplit.yields_more_than_std", "C06.rsplit.yields_fewer_than_std"}
seq_checker! {run_split_terminator, SplitTerminator, "C06.split_terminator.step.piece_eq_std", "C06.split_terminator.step.remainder_is_unsplit_suffix", "C06.split_terminator.yields_more_than_std", "C06.split_terminator.yields_fewer_than_std"}
seq_checker! {run_rsplit_terminator, RSplitTerminator, "C06.rsplit_terminator.step.piece_eq_mirrored_rule", "C06.rsplit_terminator.step.remainder_is_unsplit_prefix", "C06.rsplit_terminator.yields_more_than_mirrored_rule", "C06.rsplit_terminator.yields_fewer_than_mirrored_rule"}
seq_checker! {run_split_rev, RSplit, "C06.split_rev.step.piece_eq_std_rsplit", "C06.split_rev.step.remainder_is_unsplit_prefix", "C06.split_rev.yields_more_than_std_rsplit", "C06.split_rev.yields_fewer_than_std_rsplit"}
seq_checker! {run_rsplit_rev, Split, "C06.rsplit_rev.step.piece_eq_std_split", "C06.rsplit_rev.step.remainder_is_unsplit_suffix", "C06.rsplit_rev.yields_more_than_std_split", "C06.rsplit_rev.yields_fewer_than_std_split"}

/// what a body tells its harness wrapper (for the cover witnesses)
pub struct Facts {
    pub hl: usize,
    pub dl: usize,
    pub n: usize,
    pub steps: usize,
    pub multibyte: bool,
    pub empty_middle: bool,
    pub leading: bool,
    pub trailing: bool,
    pub overlapping: bool,
}

fn facts(hb: &[u8], dl: usize, occ: &[bool; MAXP], q: &Seq, steps: usize) -> Facts {
    Facts {
        hl: hb.len(),
        dl,
        n: q.n,
        steps,
        multibyte: hb.len() > 0 && hb[0] >= 0x80,
        empty_middle: q.n >= 3 && q.a[1] == q.b[1],
        leading: occ[0],
        trailing: dl > 0 && hb.len() >= dl && occ[hb.len() - dl],
        overlapping: overlapping_occurrences(occ, dl),
    }
}

#[derive(Clone, Copy, PartialEq, Eq)]
pub enum Which {
    Split,
    RSplit,
    SplitTerminator,
    RSplitTerminator,
    /// `split(..).rev()` must be `rsplit(..)`, `split(..).next_back()` its first step
    SplitRev,
    /// `rsplit(..).rev()` must be `split(..)`, `rsplit(..).next_back()` its first step
    RSplitRev,
}

/// one body for both delimiter kinds: `d` is what konst gets, `db` its UTF-8 bytes
/// (`h.len() <= H`, `db.len() <= D`)
fn run_one<'a, 'p, S: Src, P: Pattern<'p>, const H: usize, const D: usize>(
    s: &mut S,
    w: Which,
    h: &'a str,
    d: P,
    db: &[u8],
) -> Facts {
    let hb = h.as_bytes();
    let hl = hb.len();
    let dl = db.len();
    let occ = occurrences::<H, D>(hb, db);
    match w {
        Which::Split => {
            let q = ref_split_seq::<H>(hb, dl, &occ);
            let it = string::split(h, d);
            chk!(s, same_str(it.remainder(), h), "C06.split.initial_remainder_is_input");
            chk!(s, same_str(it.copy().remainder(), h), "C06.split.copy_keeps_state");
            let k = run_split(s, it, hb, &q, q.n, true);
            facts(hb, dl, &occ, &q, k)
        }
        Which::RSplit => {
            let q = ref_rsplit_seq::<H>(hb, dl, &occ);
            let it = string::rsplit(h, d);
            chk!(s, same_str(it.remainder(), h), "C06.rsplit.initial_remainder_is_input");
            chk!(s, same_str(it.copy().remainder(), h), "C06.rsplit.copy_keeps_state");
            let k = run_rsplit(s, it, hb, &q, q.n, false);
            facts(hb, dl, &occ, &q, k)
        }
        Which::SplitTerminator => {
            let q = ref_split_seq::<H>(hb, dl, &occ);
            let it = string::split_terminator(h, d);
            chk!(s, same_str(it.remainder(), h), "C06.split_terminator.initial_remainder_is_input");
            chk!(s, same_str(it.copy().remainder(), h), "C06.split_terminator.copy_keeps_state");
            let k = run_split_terminator(s, it, hb, &q, term_count(&q), true);
            facts(hb, dl, &occ, &q, k)
        }
        Which::RSplitTerminator => {
            let q = ref_rsplit_seq::<H>(hb, dl, &occ);
            let it = string::rsplit_terminator(h, d);
            chk!(s, same_str(it.remainder(), h), "C06.rsplit_terminator.initial_remainder_is_input");
            chk!(s, same_str(it.copy().remainder(), h), "C06.rsplit_terminator.copy_keeps_state");
            let k = run_rsplit_terminator(s, it, hb, &q, term_count(&q), false);
            facts(hb, dl, &occ, &q, k)
        }
        Which::SplitRev => {
            let q = ref_rsplit_seq::<H>(hb, dl, &occ);
            // one step from the back of the forward iterator == first step of rsplit
            match string::split(h, d).next_back() {
                Some((piece, nx)) => {
                    chk!(s, piece_at(hb, piece, q.a[0], q.b[0]), "C06.split.next_back.piece_eq_std_rsplit_first");
                    let r = nx.remainder();
                    chk!(s, if q.n > 1 { piece_at(hb, r, 0, q.b[1]) } else { r.len() == 0 },
                         "C06.split.next_back.remainder_is_unsplit_prefix");
                }
                None => chk!(s, false, "C06.split.next_back.yields_fewer_than_std_rsplit"),
            }
            let it = string::split(h, d).rev();
            chk!(s, same_str(it.remainder(), h), "C06.split_rev.initial_remainder_is_input");
            let k = run_split_rev(s, it, hb, &q, q.n, false);
            facts(hb, dl, &occ, &q, k)
        }
        Which::RSplitRev => {
            let q = ref_split_seq::<H>(hb, dl, &occ);
            match string::rsplit(h, d).next_back() {
                Some((piece, nx)) => {
                    chk!(s, piece_at(hb, piece, q.a[0], q.b[0]), "C06.rsplit.next_back.piece_eq_std_split_first");
                    let r = nx.remainder();
                    chk!(s, if q.n > 1 { piece_at(hb, r, q.a[1], hl) } else { r.len() == 0 },
                         "C06.rsplit.next_back.remainder_is_unsplit_suffix");
                }
                None => chk!(s, false, "C06.rsplit.next_back.yields_fewer_than_std_split"),
            }
            let it = string::rsplit(h, d).rev();
            chk!(s, same_str(it.remainder(), h), "C06.rsplit_rev.initial_remainder_is_input");
            let k = run_rsplit_rev(s, it, hb, &q, q.n, true);
            facts(hb, dl, &occ, &q, k)
        }
    }
}

fn body_str<S: Src, const H: usize, const D: usize>(s: &mut S, w: Which) -> Facts {
    let hs = BStr::<H>::any(s);
    let ds = BStr::<D>::any(s);
    let (h, d) = (hs.as_str(), ds.as_str());
    run_one::<S, &str, H, D>(s, w, h, d, d.as_bytes())
}

fn body_char<S: Src, const H: usize>(s: &mut S, w: Which) -> Facts {
    let hs = BStr::<H>::any(s);
    let c = s.char();
    let mut tmp = [0u8; 4];
    let db = c.encode_utf8(&mut tmp).as_bytes();
    run_one::<S, char, H, 4>(s, w, hs.as_str(), c, db)
}

// EXPERIMENTS (to be removed)
harness! {
    /// kind=bounded tier=quick bound="x"
    #[kani::unwind(7)]
    #[kani::stub(konst_kernel::string::non_char_boundary_panic, crate::hlib::stub_non_char_boundary_panic)]
    fn c06_x1(s) {
        let f = body_char::<_, 3>(s, Which::Split);
        cov!(s, f.n == 3, "C06.cover.x1");
    }
}
harness! {
    /// kind=bounded tier=quick bound="x"
    #[kani::unwind(7)]
    #[kani::stub(konst_kernel::string::non_char_boundary_panic, crate::hlib::stub_non_char_boundary_panic)]
    fn c06_x2(s) {
        let f = body_str::<_, 3, 1>(s, Which::Split);
        cov!(s, f.n == 3, "C06.cover.x2");
    }
}
harness! {
    /// kind=bounded tier=quick bound="x"
    #[kani::unwind(7)]
    #[kani::stub(konst_kernel::string::non_char_boundary_panic, crate::hlib::stub_non_char_boundary_panic)]
    fn c06_x3(s) {
        let f = body_str::<_, 3, 2>(s, Which::Split);
        cov!(s, f.n == 3, "C06.cover.x3");
    }
}
harness! {
    /// kind=bounded tier=quick bound="x"
    #[kani::unwind(8)]
    #[kani::stub(konst_kernel::string::non_char_boundary_panic, crate::hlib::stub_non_char_boundary_panic)]
    fn c06_x4(s) {
        let f = body_str::<_, 4, 2>(s, Which::Split);
        cov!(s, f.n == 3, "C06.cover.x4");
    }
}
