//! C19 — Option/Result macros, `try_!`/`try_opt!`, `rebind_if_ok!`/`try_rebind!` and the
//! min/max macros equal their std / `?` / `if let Ok` counterparts.
//!
//! Everything here is loop-free macro expansion, so every harness is `kind=complete`:
//! payloads are `u8` (errors a `u8` newtype so that Ok/Err payloads cannot be mixed up),
//! drawn over their full domain, and every closure/function is "arbitrary" in the sense
//! that its result depends injectively on its argument and on a symbolic salt.
//!
//! Call discipline ("evaluates a fallback closure exactly when std would call it"): every
//! closure body bumps a local `Cell<u8>`, every function-path callee bumps a `static mut`
//! counter; the count observed around the konst macro must equal the count observed around
//! the std method called with the same (instrumented) closure/function.
//!
//! `result::unwrap_err_or_else!` has no std method of that name: the reference is the
//! documented mirror image of `unwrap_or_else` (`Ok(v) => f(v), Err(e) => e`).
//!
//! rebind arities 3..=6 do not compile on the unchanged tree (defect D5) and are kept,
//! uncompiled, in `c19_rebind_arity.rs.txt`.
use crate::hlib::*;
use core::cell::Cell;
use core::cmp::Ordering;
use konst::{option, result};

/// error payload: same information as a `u8`, different type
#[derive(Copy, Clone, PartialEq, Eq, Debug)]
pub struct E(pub u8);

type R = Result<u8, E>;

fn any_opt<S: Src>(s: &mut S) -> Option<u8> {
    let v = s.u8();
    if s.bool() { Some(v) } else { None }
}
fn any_res<S: Src>(s: &mut S) -> R {
    let v = s.u8();
    if s.bool() { Ok(v) } else { Err(E(v)) }
}
fn bump(c: &Cell<u8>) {
    c.set(c.get().wrapping_add(1))
}

/// konst expression vs std expression, closure-literal forms: equal results, equal call counts
macro_rules! both {
    ($s:ident, $ck:ident, $cs:ident, $k:expr, $e:expr, $n1:literal, $n2:literal) => {{
        $ck.set(0);
        $cs.set(0);
        let k = $k;
        let e = $e;
        chk!($s, k == e, $n1);
        chk!($s, $ck.get() == $cs.get(), $n2);
    }};
}

/// same for the function-path forms (shared `static mut` counter, so the two sides run one after the other)
macro_rules! bothf {
    ($s:ident, $k:expr, $e:expr, $n1:literal, $n2:literal) => {{
        f::reset_calls();
        let k = $k;
        let kc = f::calls();
        f::reset_calls();
        let e = $e;
        let ec = f::calls();
        chk!($s, k == e, $n1);
        chk!($s, kc == ec, $n2);
    }};
}

/// instrumented callees for the function-path forms; their behaviour is steered by symbolic statics
pub mod f {
    use super::E;
    static mut CALLS: u8 = 0;
    static mut SALT: u8 = 0;
    static mut FLAG: bool = false;

    pub fn setup(salt: u8, flag: bool) {
        unsafe {
            CALLS = 0;
            SALT = salt;
            FLAG = flag;
        }
    }
    pub fn reset_calls() {
        unsafe { CALLS = 0 }
    }
    pub fn calls() -> u8 {
        unsafe { CALLS }
    }
    fn tick() -> (u8, bool) {
        unsafe {
            CALLS = CALLS.wrapping_add(1);
            (SALT, FLAG)
        }
    }
    // nullary fallbacks
    pub fn fb() -> u8 { tick().0 }
    pub fn fb_err() -> E { E(tick().0) }
    pub fn fb_opt() -> Option<u8> {
        let (v, fl) = tick();
        if fl { Some(v) } else { None }
    }
    // unary, over the Some/Ok payload
    pub fn add(x: u8) -> u8 { x.wrapping_add(tick().0) }
    pub fn add_opt(x: u8) -> Option<u8> {
        let (v, fl) = tick();
        if fl { Some(x.wrapping_add(v)) } else { None }
    }
    pub fn pred(x: &u8) -> bool { x.wrapping_add(tick().0) < 128 }
    pub fn to_err(x: u8) -> E { E(x.wrapping_add(tick().0)) }
    pub fn add_res(x: u8) -> Result<u8, E> {
        let (v, fl) = tick();
        if fl { Ok(x.wrapping_add(v)) } else { Err(E(x ^ v)) }
    }
    // unary, over the Err payload
    pub fn of_err(e: E) -> u8 { e.0.wrapping_add(tick().0) }
    pub fn err_add(e: E) -> E { E(e.0.wrapping_add(tick().0)) }
    pub fn err_res(e: E) -> Result<u8, E> {
        let (v, fl) = tick();
        if fl { Ok(e.0.wrapping_add(v)) } else { Err(E(e.0 ^ v)) }
    }
}

// ---------------------------------------------------------------------------
// option::*

harness! {
    /// kind=complete tier=quick bound="loop-free; Option<u8>, Option<(u8,u8)>, Option<Option<u8>> over the full domain; closure-literal forms (`|| e`, `|x| e`, `|(a, b)| e`, `|&x| e`) with symbolic results"
    fn c19_option_closure(s) {
        let o = any_opt(s);
        let d = s.u8();
        let fl = s.bool();
        let alt = any_opt(s);
        let (ck, cs) = (Cell::new(0u8), Cell::new(0u8));

        both!(s, ck, cs, option::unwrap_or!(o, { bump(&ck); d }), o.unwrap_or({ bump(&cs); d }),
            "C19.option.unwrap_or.eq_std", "C19.option.unwrap_or.value_evaluated_as_std");
        both!(s, ck, cs, option::unwrap_or_else!(o, || { bump(&ck); d }), o.unwrap_or_else(|| { bump(&cs); d }),
            "C19.option.unwrap_or_else.closure.eq_std", "C19.option.unwrap_or_else.closure.called_iff_std");
        both!(s, ck, cs, option::ok_or!(o, { bump(&ck); E(d) }), o.ok_or({ bump(&cs); E(d) }),
            "C19.option.ok_or.eq_std", "C19.option.ok_or.value_evaluated_as_std");
        both!(s, ck, cs, option::ok_or_else!(o, || { bump(&ck); E(d) }), o.ok_or_else(|| { bump(&cs); E(d) }),
            "C19.option.ok_or_else.closure.eq_std", "C19.option.ok_or_else.closure.called_iff_std");
        both!(s, ck, cs, option::map!(o, |x| { bump(&ck); E(x.wrapping_add(d)) }), o.map(|x| { bump(&cs); E(x.wrapping_add(d)) }),
            "C19.option.map.closure.eq_std", "C19.option.map.closure.called_iff_std");
        both!(s, ck, cs,
            option::and_then!(o, |x| { bump(&ck); if fl { Some(E(x.wrapping_add(d))) } else { None } }),
            o.and_then(|x| { bump(&cs); if fl { Some(E(x.wrapping_add(d))) } else { None } }),
            "C19.option.and_then.closure.eq_std", "C19.option.and_then.closure.called_iff_std");
        both!(s, ck, cs, option::or_else!(o, || { bump(&ck); alt }), o.or_else(|| { bump(&cs); alt }),
            "C19.option.or_else.closure.eq_std", "C19.option.or_else.closure.called_iff_std");
        both!(s, ck, cs, option::filter!(o, |x| { bump(&ck); x.wrapping_add(d) < 128 }), o.filter(|x| { bump(&cs); x.wrapping_add(d) < 128 }),
            "C19.option.filter.closure.eq_std", "C19.option.filter.closure.called_iff_std");
        both!(s, ck, cs, option::filter!(o, |&x| { bump(&ck); x.wrapping_add(d) < 128 }), o.filter(|&x| { bump(&cs); x.wrapping_add(d) < 128 }),
            "C19.option.filter.closure_ref_pattern.eq_std", "C19.option.filter.closure_ref_pattern.called_iff_std");

        // destructuring parameter pattern
        let o2: Option<(u8, u8)> = match o { Some(x) => Some((x, d)), None => None };
        both!(s, ck, cs, option::map!(o2, |(a, b)| { bump(&ck); (b, a) }), o2.map(|(a, b)| { bump(&cs); (b, a) }),
            "C19.option.map.closure_tuple_pattern.eq_std", "C19.option.map.closure_tuple_pattern.called_iff_std");
        both!(s, ck, cs,
            option::and_then!(o2, |(a, b)| { bump(&ck); if fl { Some(a ^ b) } else { None } }),
            o2.and_then(|(a, b)| { bump(&cs); if fl { Some(a ^ b) } else { None } }),
            "C19.option.and_then.closure_tuple_pattern.eq_std", "C19.option.and_then.closure_tuple_pattern.called_iff_std");

        // flatten / copied
        let oo: Option<Option<u8>> = if s.bool() { Some(o) } else { None };
        chk!(s, option::flatten!(oo) == oo.flatten(), "C19.option.flatten.eq_std");
        let cell = d;
        let oref: Option<&u8> = if fl { Some(&cell) } else { None };
        chk!(s, option::copied(oref) == oref.copied(), "C19.option.copied.eq_std");

        cov!(s, o.is_some() && fl, "C19.cover.option_closure_some");
        cov!(s, o.is_none() && alt.is_some(), "C19.cover.option_closure_none_alt_some");
        cov!(s, matches!(oo, Some(None)), "C19.cover.option_flatten_some_none");
        cov!(s, o == Some(200) && d == 100, "C19.cover.option_filter_wraps");
    }
}

harness! {
    /// kind=complete tier=quick bound="loop-free; Option<u8> over the full domain; function-path forms (plain and module-qualified paths), callee results symbolic"
    fn c19_option_fnpath(s) {
        let o = any_opt(s);
        let salt = s.u8();
        let fl = s.bool();
        f::setup(salt, fl);
        use self::f::{fb, add, pred};

        bothf!(s, option::unwrap_or_else!(o, fb), o.unwrap_or_else(fb),
            "C19.option.unwrap_or_else.fn.eq_std", "C19.option.unwrap_or_else.fn.called_iff_std");
        bothf!(s, option::unwrap_or_else!(o, f::fb), o.unwrap_or_else(f::fb),
            "C19.option.unwrap_or_else.fn_qualified.eq_std", "C19.option.unwrap_or_else.fn_qualified.called_iff_std");
        bothf!(s, option::ok_or_else!(o, f::fb_err), o.ok_or_else(f::fb_err),
            "C19.option.ok_or_else.fn.eq_std", "C19.option.ok_or_else.fn.called_iff_std");
        bothf!(s, option::map!(o, add), o.map(add),
            "C19.option.map.fn.eq_std", "C19.option.map.fn.called_iff_std");
        bothf!(s, option::map!(o, self::f::to_err), o.map(self::f::to_err),
            "C19.option.map.fn_qualified.eq_std", "C19.option.map.fn_qualified.called_iff_std");
        bothf!(s, option::map!(o, Some), o.map(Some),
            "C19.option.map.fn_constructor.eq_std", "C19.option.map.fn_constructor.called_iff_std");
        bothf!(s, option::and_then!(o, f::add_opt), o.and_then(f::add_opt),
            "C19.option.and_then.fn.eq_std", "C19.option.and_then.fn.called_iff_std");
        bothf!(s, option::or_else!(o, f::fb_opt), o.or_else(f::fb_opt),
            "C19.option.or_else.fn.eq_std", "C19.option.or_else.fn.called_iff_std");
        bothf!(s, option::filter!(o, pred), o.filter(pred),
            "C19.option.filter.fn.eq_std", "C19.option.filter.fn.called_iff_std");
        // a closure held in a variable is also a `path`
        let (ck, cs) = (Cell::new(0u8), Cell::new(0u8));
        let fk = |x: u8| { bump(&ck); x.wrapping_add(salt) };
        let fs = |x: u8| { bump(&cs); x.wrapping_add(salt) };
        both!(s, ck, cs, option::map!(o, fk), o.map(fs),
            "C19.option.map.closure_variable.eq_std", "C19.option.map.closure_variable.called_iff_std");

        cov!(s, o.is_some() && fl, "C19.cover.option_fn_some");
        cov!(s, o.is_none() && !fl, "C19.cover.option_fn_none");
    }
}

// ---------------------------------------------------------------------------
// result::*

harness! {
    /// kind=complete tier=quick bound="loop-free; Result<u8, E(u8)> over the full domain; closure-literal forms with symbolic results"
    fn c19_result_closure(s) {
        let r = any_res(s);
        let d = s.u8();
        let fl = s.bool();
        let (ck, cs) = (Cell::new(0u8), Cell::new(0u8));

        both!(s, ck, cs, result::unwrap_or!(r, { bump(&ck); d }), r.unwrap_or({ bump(&cs); d }),
            "C19.result.unwrap_or.eq_std", "C19.result.unwrap_or.value_evaluated_as_std");
        both!(s, ck, cs, result::unwrap_or_else!(r, |e| { bump(&ck); e.0.wrapping_add(d) }), r.unwrap_or_else(|e| { bump(&cs); e.0.wrapping_add(d) }),
            "C19.result.unwrap_or_else.closure.eq_std", "C19.result.unwrap_or_else.closure.called_iff_std");
        both!(s, ck, cs, result::unwrap_or_else!(r, |E(e)| { bump(&ck); e.wrapping_add(d) }), r.unwrap_or_else(|E(e)| { bump(&cs); e.wrapping_add(d) }),
            "C19.result.unwrap_or_else.closure_struct_pattern.eq_std", "C19.result.unwrap_or_else.closure_struct_pattern.called_iff_std");
        // no std method of this name: documented mirror image of unwrap_or_else
        both!(s, ck, cs, result::unwrap_err_or_else!(r, |v| { bump(&ck); E(v.wrapping_add(d)) }),
            match r { Ok(v) => { bump(&cs); E(v.wrapping_add(d)) } Err(e) => e },
            "C19.result.unwrap_err_or_else.closure.eq_mirror_of_unwrap_or_else", "C19.result.unwrap_err_or_else.closure.called_iff_ok");
        chk!(s, result::ok!(r) == r.ok(), "C19.result.ok.eq_std");
        chk!(s, result::err!(r) == r.err(), "C19.result.err.eq_std");
        both!(s, ck, cs, result::map!(r, |v| { bump(&ck); (v, d) }), r.map(|v| { bump(&cs); (v, d) }),
            "C19.result.map.closure.eq_std", "C19.result.map.closure.called_iff_std");
        both!(s, ck, cs, result::map_err!(r, |e| { bump(&ck); (e.0, d) }), r.map_err(|e| { bump(&cs); (e.0, d) }),
            "C19.result.map_err.closure.eq_std", "C19.result.map_err.closure.called_iff_std");
        both!(s, ck, cs,
            result::and_then!(r, |v| { bump(&ck); if fl { Ok((v, d)) } else { Err(E(v ^ d)) } }),
            r.and_then(|v| { bump(&cs); if fl { Ok((v, d)) } else { Err(E(v ^ d)) } }),
            "C19.result.and_then.closure.eq_std", "C19.result.and_then.closure.called_iff_std");
        both!(s, ck, cs,
            result::or_else!(r, |e| { bump(&ck); if fl { Ok(e.0 ^ d) } else { Err((e.0, d)) } }),
            r.or_else(|e| { bump(&cs); if fl { Ok(e.0 ^ d) } else { Err((e.0, d)) } }),
            "C19.result.or_else.closure.eq_std", "C19.result.or_else.closure.called_iff_std");

        cov!(s, r.is_ok() && !fl, "C19.cover.result_closure_ok");
        cov!(s, r.is_err() && fl, "C19.cover.result_closure_err");
    }
}

harness! {
    /// kind=complete tier=quick bound="loop-free; Result<u8, E(u8)> over the full domain; function forms (paths, qualified paths, closure variables), callee results symbolic"
    fn c19_result_fnpath(s) {
        let r = any_res(s);
        let salt = s.u8();
        let fl = s.bool();
        f::setup(salt, fl);

        bothf!(s, result::unwrap_or_else!(r, f::of_err), r.unwrap_or_else(f::of_err),
            "C19.result.unwrap_or_else.fn.eq_std", "C19.result.unwrap_or_else.fn.called_iff_std");
        bothf!(s, result::unwrap_err_or_else!(r, f::to_err), match r { Ok(v) => f::to_err(v), Err(e) => e },
            "C19.result.unwrap_err_or_else.fn.eq_mirror_of_unwrap_or_else", "C19.result.unwrap_err_or_else.fn.called_iff_ok");
        bothf!(s, result::map!(r, f::add), r.map(f::add),
            "C19.result.map.fn.eq_std", "C19.result.map.fn.called_iff_std");
        bothf!(s, result::map_err!(r, f::err_add), r.map_err(f::err_add),
            "C19.result.map_err.fn.eq_std", "C19.result.map_err.fn.called_iff_std");
        bothf!(s, result::and_then!(r, f::add_res), r.and_then(f::add_res),
            "C19.result.and_then.fn.eq_std", "C19.result.and_then.fn.called_iff_std");
        bothf!(s, result::or_else!(r, f::err_res), r.or_else(f::err_res),
            "C19.result.or_else.fn.eq_std", "C19.result.or_else.fn.called_iff_std");
        let (ck, cs) = (Cell::new(0u8), Cell::new(0u8));
        let fk = |e: E| { bump(&ck); E(e.0.wrapping_add(salt)) };
        let fs = |e: E| { bump(&cs); E(e.0.wrapping_add(salt)) };
        both!(s, ck, cs, result::map_err!(r, fk), r.map_err(fs),
            "C19.result.map_err.closure_variable.eq_std", "C19.result.map_err.closure_variable.called_iff_std");

        cov!(s, r.is_ok() && fl, "C19.cover.result_fn_ok");
        cov!(s, r.is_err() && !fl, "C19.cover.result_fn_err");
    }
}

// ---------------------------------------------------------------------------
// try_! / try_opt!  vs `?`
// (the macros return `Err(e)` as is: no `From` conversion, so the comparison uses one error type;
//  the `map_err = ` form is compared with `.map_err(..)?`)

fn k_try(r: R, after: &Cell<u8>) -> Result<(u8, u8), E> {
    let v = konst::try_!(r);
    bump(after);
    Ok((v, 1))
}
fn s_try(r: R, after: &Cell<u8>) -> Result<(u8, u8), E> {
    let v = r?;
    bump(after);
    Ok((v, 1))
}
fn k_try_map(r: R, d: u8, after: &Cell<u8>, called: &Cell<u8>) -> Result<u8, (u8, u8)> {
    let v = konst::try_!(r, map_err = |e| { bump(called); (e.0, d) });
    bump(after);
    Ok(v)
}
fn s_try_map(r: R, d: u8, after: &Cell<u8>, called: &Cell<u8>) -> Result<u8, (u8, u8)> {
    let v = r.map_err(|e| { bump(called); (e.0, d) })?;
    bump(after);
    Ok(v)
}
fn k_try_map0(r: R, d: u8, after: &Cell<u8>, called: &Cell<u8>) -> Result<u8, u16> {
    let v = konst::try_!(r, map_err = | | { bump(called); d as u16 + 256 },);
    bump(after);
    Ok(v)
}
fn s_try_map0(r: R, d: u8, after: &Cell<u8>, called: &Cell<u8>) -> Result<u8, u16> {
    let v = r.map_err(|_| { bump(called); d as u16 + 256 })?;
    bump(after);
    Ok(v)
}
fn k_try_opt(o: Option<u8>, after: &Cell<u8>) -> Option<(u8, u8)> {
    let v = konst::try_opt!(o);
    bump(after);
    Some((v, 1))
}
fn s_try_opt(o: Option<u8>, after: &Cell<u8>) -> Option<(u8, u8)> {
    let v = o?;
    bump(after);
    Some((v, 1))
}

harness! {
    /// kind=complete tier=quick bound="loop-free; Result<u8, E(u8)> and Option<u8> over the full domain; try_!(e), try_!(e, map_err = |e| ..), try_!(e, map_err = || ..), try_opt!(e)"
    fn c19_try(s) {
        let r = any_res(s);
        let o = any_opt(s);
        let d = s.u8();
        let (ak, as_, ck, cs) = (Cell::new(0u8), Cell::new(0u8), Cell::new(0u8), Cell::new(0u8));
        chk!(s, k_try(r, &ak) == s_try(r, &as_), "C19.try_.eq_question_mark");
        chk!(s, ak.get() == as_.get(), "C19.try_.continues_iff_ok");
        ak.set(0); as_.set(0);
        chk!(s, k_try_map(r, d, &ak, &ck) == s_try_map(r, d, &as_, &cs), "C19.try_.map_err.eq_map_err_question_mark");
        chk!(s, ak.get() == as_.get() && ck.get() == cs.get(), "C19.try_.map_err.closure_called_iff_err");
        ak.set(0); as_.set(0); ck.set(0); cs.set(0);
        chk!(s, k_try_map0(r, d, &ak, &ck) == s_try_map0(r, d, &as_, &cs), "C19.try_.map_err_no_param.eq_map_err_question_mark");
        chk!(s, ak.get() == as_.get() && ck.get() == cs.get(), "C19.try_.map_err_no_param.closure_called_iff_err");
        ak.set(0); as_.set(0);
        chk!(s, k_try_opt(o, &ak) == s_try_opt(o, &as_), "C19.try_opt.eq_question_mark");
        chk!(s, ak.get() == as_.get(), "C19.try_opt.continues_iff_some");
        cov!(s, r.is_ok() && o.is_none(), "C19.cover.try_ok_none");
        cov!(s, r.is_err() && o.is_some(), "C19.cover.try_err_some");
    }
}

/// the first (scrutinee) argument of every macro is evaluated exactly once, like the receiver of the std method
macro_rules! once {
    ($s:ident, $cnt:ident, $e:expr, $n:literal) => {{
        $cnt.set(0);
        let _ = $e;
        chk!($s, $cnt.get() == 1, $n);
    }};
}

harness! {
    /// kind=complete tier=quick bound="loop-free; try_rebind! / rebind_if_ok! of a single place and of a pair, used INSIDE a nested block / if arm / loop body, with the places read after that scope has ended: the macros assign to the existing places (a `let` shadow would be lost at the end of the scope)"
    #[kani::unwind(4)]
    fn c19_rebind_assigns_existing_place_across_scopes(s) {
        let r = any_res(s);
        let init = s.u8();
        let flag = s.bool();
        fn single_in_block(r: R, init: u8) -> Result<u8, E> {
            let mut x = init;
            {
                konst::try_rebind! {x = r}
            }
            Ok(x)
        }
        chk!(s, single_in_block(r, init) == (match r { Ok(v) => Ok(v), Err(e) => Err(e) }), "C19.try_rebind.single_place_in_nested_block_assigns_outer_place");
        fn single_in_if(r: R, init: u8, flag: bool) -> Result<u8, E> {
            let mut x = init;
            if flag {
                konst::try_rebind! {x = r}
            }
            Ok(x)
        }
        chk!(s, single_in_if(r, init, flag) == (if flag { r } else { Ok(init) }), "C19.try_rebind.single_place_in_if_arm_assigns_outer_place");
        fn single_in_loop(r: R, init: u8) -> Result<u8, E> {
            let mut x = init;
            let mut i = 0;
            while i < 2 {
                konst::try_rebind! {x = r}
                i += 1;
            }
            Ok(x)
        }
        chk!(s, single_in_loop(r, init) == r, "C19.try_rebind.single_place_in_loop_body_assigns_outer_place");
        let mut y = init;
        {
            konst::rebind_if_ok! {y = r => }
        }
        chk!(s, y == (match r { Ok(v) => v, Err(_) => init }), "C19.rebind_if_ok.single_place_in_nested_block_assigns_outer_place");
        let r2: Result<(u8, u8), E> = match r { Ok(v) => Ok((v, v ^ 0x55)), Err(e) => Err(e) };
        let (mut p, mut q) = (init, init);
        if flag {
            konst::rebind_if_ok! {(p, q) = r2 => }
        }
        chk!(s, (p, q) == (match (flag, r2) { (true, Ok(t)) => t, _ => (init, init) }), "C19.rebind_if_ok.pair_in_if_arm_assigns_outer_places");
        cov!(s, r.is_ok() && flag && init != 0, "C19.cover.rebind_across_scopes_ok");
    }
}

harness! {
    /// kind=complete tier=quick bound="loop-free; rebind_if_ok! / try_rebind! with components whose ORDER of assignment is observable: (i, arr[i]) with a symbolic index and value, (x, x), (let a, let a) shadowing, and the arity-3 chain (i, arr[i], i); compared with the assignments written out left to right"
    fn c19_rebind_assignment_order(s) {
        let a = (s.u8() % 3) as usize;
        let b = (s.u8() % 3) as usize;
        let v = s.u8();
        let w = s.u8();
        let ok = s.bool();
        // (i, arr[i])
        let r: Result<(usize, u8), E> = if ok { Ok((a, v)) } else { Err(E(v)) };
        let (mut i, mut arr) = (b, [0u8; 3]);
        konst::rebind_if_ok! {(i, arr[i]) = r => }
        let (mut ei, mut earr) = (b, [0u8; 3]);
        if let Ok(t) = r {
            ei = t.0;
            earr[ei] = t.1;
        }
        chk!(s, i == ei && arr[0] == earr[0] && arr[1] == earr[1] && arr[2] == earr[2], "C19.rebind_if_ok.components_assigned_left_to_right");
        fn tr(r: Result<(usize, u8), E>, b: usize) -> Result<(usize, [u8; 3]), E> {
            let (mut i, mut arr) = (b, [0u8; 3]);
            konst::try_rebind! {(i, arr[i]) = r}
            Ok((i, arr))
        }
        match (tr(r, b), r) {
            (Ok((i2, arr2)), Ok(_)) => chk!(s, i2 == ei && arr2[0] == earr[0] && arr2[1] == earr[1] && arr2[2] == earr[2], "C19.try_rebind.components_assigned_left_to_right"),
            (Err(e2), Err(e)) => chk!(s, e2 == e, "C19.try_rebind.components_assigned_left_to_right"),
            _ => chk!(s, false, "C19.try_rebind.components_assigned_left_to_right"),
        }
        // (x, x): the later component wins
        let r2: Result<(u8, u8), E> = if ok { Ok((v, w)) } else { Err(E(v)) };
        let mut x = 0u8;
        konst::rebind_if_ok! {(x, x) = r2 => }
        chk!(s, x == (if ok { w } else { 0 }), "C19.rebind_if_ok.same_place_twice_last_component_wins");
        // (let y, let y): the later binding shadows the earlier one
        let mut seen = None;
        konst::rebind_if_ok! {(let y, let y) = r2 => seen = Some(y); }
        chk!(s, seen == (if ok { Some(w) } else { None }), "C19.rebind_if_ok.let_twice_last_binding_shadows");
        // arity 3: (i, arr[i], i)
        let r3: Result<(usize, u8, usize), E> = if ok { Ok((a, v, b)) } else { Err(E(v)) };
        let (mut j, mut arr3) = (0usize, [0u8; 3]);
        konst::rebind_if_ok! {(j, arr3[j], j) = r3 => }
        let (mut ej, mut earr3) = (0usize, [0u8; 3]);
        if let Ok(t) = r3 {
            ej = t.0;
            earr3[ej] = t.1;
            ej = t.2;
        }
        chk!(s, j == ej && arr3[0] == earr3[0] && arr3[1] == earr3[1] && arr3[2] == earr3[2], "C19.rebind_if_ok.arity3.components_assigned_left_to_right");
        cov!(s, ok && a == 2 && b == 0 && v != 0, "C19.cover.rebind_order_observable");
    }
}

harness! {
    /// kind=complete tier=quick bound="loop-free; Option<u8> / Result<u8, E> over the full domain; every option::/result:: macro (closure and function-path forms), try_! and try_opt! called with a scrutinee EXPRESSION that counts its evaluations: exactly one evaluation, whatever the variant and whatever the callee answers"
    fn c19_scrutinee_evaluated_once(s) {
        let o = any_opt(s);
        let r = any_res(s);
        let d = s.u8();
        let fl = s.bool();
        let alt = any_opt(s);
        f::setup(d, fl);
        let c = Cell::new(0u8);
        let oo: Option<Option<u8>> = if s.bool() { Some(o) } else { None };
        once!(s, c, option::unwrap_or!({ bump(&c); o }, d), "C19.option.unwrap_or.scrutinee_evaluated_once");
        once!(s, c, option::unwrap_or_else!({ bump(&c); o }, || d), "C19.option.unwrap_or_else.closure.scrutinee_evaluated_once");
        once!(s, c, option::unwrap_or_else!({ bump(&c); o }, f::fb), "C19.option.unwrap_or_else.fn.scrutinee_evaluated_once");
        once!(s, c, option::ok_or!({ bump(&c); o }, E(d)), "C19.option.ok_or.scrutinee_evaluated_once");
        once!(s, c, option::ok_or_else!({ bump(&c); o }, || E(d)), "C19.option.ok_or_else.closure.scrutinee_evaluated_once");
        once!(s, c, option::ok_or_else!({ bump(&c); o }, f::fb_err), "C19.option.ok_or_else.fn.scrutinee_evaluated_once");
        once!(s, c, option::map!({ bump(&c); o }, |x| x.wrapping_add(d)), "C19.option.map.closure.scrutinee_evaluated_once");
        once!(s, c, option::map!({ bump(&c); o }, f::add), "C19.option.map.fn.scrutinee_evaluated_once");
        once!(s, c, option::and_then!({ bump(&c); o }, |x| if fl { Some(x) } else { None }), "C19.option.and_then.closure.scrutinee_evaluated_once");
        once!(s, c, option::and_then!({ bump(&c); o }, f::add_opt), "C19.option.and_then.fn.scrutinee_evaluated_once");
        once!(s, c, option::or_else!({ bump(&c); o }, || alt), "C19.option.or_else.closure.scrutinee_evaluated_once");
        once!(s, c, option::or_else!({ bump(&c); o }, f::fb_opt), "C19.option.or_else.fn.scrutinee_evaluated_once");
        once!(s, c, option::filter!({ bump(&c); o }, |x| x.wrapping_add(d) < 128), "C19.option.filter.closure.scrutinee_evaluated_once");
        once!(s, c, option::filter!({ bump(&c); o }, f::pred), "C19.option.filter.fn.scrutinee_evaluated_once");
        once!(s, c, option::flatten!({ bump(&c); oo }), "C19.option.flatten.scrutinee_evaluated_once");
        // the filtered value is the one that was tested (a second evaluation could yield another one)
        let flip = Cell::new(false);
        let got = option::filter!({ flip.set(!flip.get()); if flip.get() { o } else { alt } }, f::pred);
        chk!(s, got.is_none() || got == o, "C19.option.filter.fn.returns_the_tested_value");
        once!(s, c, result::unwrap_or!({ bump(&c); r }, d), "C19.result.unwrap_or.scrutinee_evaluated_once");
        once!(s, c, result::unwrap_or_else!({ bump(&c); r }, |e| e.0), "C19.result.unwrap_or_else.closure.scrutinee_evaluated_once");
        once!(s, c, result::unwrap_or_else!({ bump(&c); r }, f::of_err), "C19.result.unwrap_or_else.fn.scrutinee_evaluated_once");
        once!(s, c, result::unwrap_err_or_else!({ bump(&c); r }, |v| E(v)), "C19.result.unwrap_err_or_else.closure.scrutinee_evaluated_once");
        once!(s, c, result::unwrap_err_or_else!({ bump(&c); r }, f::to_err), "C19.result.unwrap_err_or_else.fn.scrutinee_evaluated_once");
        once!(s, c, result::ok!({ bump(&c); r }), "C19.result.ok.scrutinee_evaluated_once");
        once!(s, c, result::err!({ bump(&c); r }), "C19.result.err.scrutinee_evaluated_once");
        once!(s, c, result::map!({ bump(&c); r }, |v| v.wrapping_add(d)), "C19.result.map.closure.scrutinee_evaluated_once");
        once!(s, c, result::map!({ bump(&c); r }, f::add), "C19.result.map.fn.scrutinee_evaluated_once");
        once!(s, c, result::map_err!({ bump(&c); r }, |e| e.0), "C19.result.map_err.closure.scrutinee_evaluated_once");
        once!(s, c, result::map_err!({ bump(&c); r }, f::err_add), "C19.result.map_err.fn.scrutinee_evaluated_once");
        once!(s, c, result::and_then!({ bump(&c); r }, |v| if fl { Ok(v) } else { Err(E(v)) }), "C19.result.and_then.closure.scrutinee_evaluated_once");
        once!(s, c, result::and_then!({ bump(&c); r }, f::add_res), "C19.result.and_then.fn.scrutinee_evaluated_once");
        once!(s, c, result::or_else!({ bump(&c); r }, |e| if fl { Ok(e.0) } else { Err(e) }), "C19.result.or_else.closure.scrutinee_evaluated_once");
        once!(s, c, result::or_else!({ bump(&c); r }, f::err_res), "C19.result.or_else.fn.scrutinee_evaluated_once");
        fn t1(r: R, c: &Cell<u8>) -> R { let v = konst::try_!({ bump(c); r }); Ok(v) }
        fn t2(o: Option<u8>, c: &Cell<u8>) -> Option<u8> { let v = konst::try_opt!({ bump(c); o }); Some(v) }
        once!(s, c, t1(r, &c), "C19.try_.scrutinee_evaluated_once");
        once!(s, c, t2(o, &c), "C19.try_opt.scrutinee_evaluated_once");
        cov!(s, o.is_some() && r.is_err() && fl, "C19.cover.once_some_err");
        cov!(s, o.is_none() && r.is_ok() && !fl, "C19.cover.once_none_ok");
    }
}

// ---------------------------------------------------------------------------
// rebind_if_ok! / try_rebind!
//
// One wrapper pair per pattern.  Six pre-existing places `p0..p5` are initialised from `init`,
// `let` bindings are copied into `o[i]` by the trailing code, and the wrapper returns what it saw.
// KINDS spells the pattern, one byte per position: p = existing place, l = `let x`,
// t = `let x: u8`, u = `_`.  (The identifiers are passed in because of macro hygiene.)

pub type Places = [u8; 6];
pub type Lets = [Option<u8>; 6];

macro_rules! rb_case {
    ($name:ident, $kinds:literal, $ty:ty, [$($p:ident)*], $o:ident, $pat:tt $(, $($code:tt)*)?) => {
        pub mod $name {
            use super::{E, Lets, Places};
            pub const KINDS: &[u8] = $kinds;
            pub fn rio(r: Result<$ty, E>, init: Places) -> (Places, Lets, bool) {
                let [$(mut $p),*] = init;
                let mut $o: Lets = [None; 6];
                let mut hit = false;
                konst::rebind_if_ok!{$pat = r => hit = true; $($($code)*)? }
                ([$($p),*], $o, hit)
            }
            pub fn trb(r: Result<$ty, E>, init: Places) -> Result<(Places, Lets), E> {
                let [$(mut $p),*] = init;
                let mut $o: Lets = [None; 6];
                konst::try_rebind!{$pat = r}
                $($($code)*)?
                Ok(([$($p),*], $o))
            }
        }
    };
}

pub fn eq_places(a: &Places, b: &Places) -> bool {
    let mut i = 0;
    while i < 6 {
        if a[i] != b[i] {
            return false;
        }
        i += 1;
    }
    true
}
pub fn eq_lets(a: &Lets, b: &Lets) -> bool {
    let mut i = 0;
    while i < 6 {
        if a[i] != b[i] {
            return false;
        }
        i += 1;
    }
    true
}

/// what a hand-written `if let Ok((v0, v1, ..)) = r { p_i = v_i; / let x_i = v_i; / _ }` leaves behind
pub fn rb_expect(kinds: &[u8], vals: &Places, init: &Places) -> (Places, Lets) {
    let mut p = *init;
    let mut o: Lets = [None; 6];
    let mut i = 0;
    while i < 6 {
        if i < kinds.len() {
            if kinds[i] == b'p' {
                p[i] = vals[i];
            } else if kinds[i] == b'l' || kinds[i] == b't' {
                o[i] = Some(vals[i]);
            }
        }
        i += 1;
    }
    (p, o)
}

/// `rebind_if_ok!` == `if let Ok(..)`: on Ok every component lands in its place, in order, and the
/// trailing code runs; on Err nothing is assigned and the code does not run
pub fn rio_ok(kinds: &[u8], ok: Option<Places>, init: &Places, got: (Places, Lets, bool)) -> bool {
    match ok {
        Some(vals) => {
            let (p, o) = rb_expect(kinds, &vals, init);
            got.2 && eq_places(&got.0, &p) && eq_lets(&got.1, &o)
        }
        None => !got.2 && eq_places(&got.0, init) && eq_lets(&got.1, &[None; 6]),
    }
}
/// `try_rebind!` == `let (..) = r?;`
pub fn trb_ok(kinds: &[u8], ok: Option<Places>, err: E, init: &Places, got: Result<(Places, Lets), E>) -> bool {
    match (ok, got) {
        (Some(vals), Ok(g)) => {
            let (p, o) = rb_expect(kinds, &vals, init);
            eq_places(&g.0, &p) && eq_lets(&g.1, &o)
        }
        (None, Err(e)) => e == err,
        _ => false,
    }
}

macro_rules! rb_chk {
    ($s:ident, $case:ident, $r:expr, $vals:expr, $err:expr, $init:expr, $n1:literal, $n2:literal) => {{
        let r = $r;
        let ok: Option<Places> = if r.is_ok() { Some($vals) } else { None };
        chk!($s, rio_ok($case::KINDS, ok, &$init, $case::rio(r, $init)), $n1);
        chk!($s, trb_ok($case::KINDS, ok, $err, &$init, $case::trb(r, $init)), $n2);
    }};
}

// arity 1: the Ok payload is a single value
rb_case! {a1_p, b"p", u8, [p0 p1 p2 p3 p4 p5], o, p0}
rb_case! {a1_pp, b"p", u8, [p0 p1 p2 p3 p4 p5], o, (p0)}
rb_case! {a1_l, b"l", u8, [p0 p1 p2 p3 p4 p5], o, (let x0), o[0] = Some(x0);}
rb_case! {a1_t, b"t", u8, [p0 p1 p2 p3 p4 p5], o, (let x0: u8), o[0] = Some(x0);}
rb_case! {a1_u, b"u", u8, [p0 p1 p2 p3 p4 p5], o, _}

// `place: Type = expr` is accepted by rebind_if_ok! only
pub fn a1_typed_place_rio(r: R, init: Places) -> (Places, bool) {
    let [mut p0, p1, p2, p3, p4, p5] = init;
    let mut hit = false;
    konst::rebind_if_ok! {p0: u8 = r => hit = true; }
    ([p0, p1, p2, p3, p4, p5], hit)
}

// arity 2: all 4^2 patterns
rb_case! {a2_pp, b"pp", (u8, u8), [p0 p1 p2 p3 p4 p5], o, (p0, p1)}
rb_case! {a2_pl, b"pl", (u8, u8), [p0 p1 p2 p3 p4 p5], o, (p0, let x1), o[1] = Some(x1);}
rb_case! {a2_pt, b"pt", (u8, u8), [p0 p1 p2 p3 p4 p5], o, (p0, let x1: u8), o[1] = Some(x1);}
rb_case! {a2_pu, b"pu", (u8, u8), [p0 p1 p2 p3 p4 p5], o, (p0, _)}
rb_case! {a2_lp, b"lp", (u8, u8), [p0 p1 p2 p3 p4 p5], o, (let x0, p1), o[0] = Some(x0);}
rb_case! {a2_ll, b"ll", (u8, u8), [p0 p1 p2 p3 p4 p5], o, (let x0, let x1), o[0] = Some(x0); o[1] = Some(x1);}
rb_case! {a2_lt, b"lt", (u8, u8), [p0 p1 p2 p3 p4 p5], o, (let x0, let x1: u8), o[0] = Some(x0); o[1] = Some(x1);}
rb_case! {a2_lu, b"lu", (u8, u8), [p0 p1 p2 p3 p4 p5], o, (let x0, _), o[0] = Some(x0);}
rb_case! {a2_tp, b"tp", (u8, u8), [p0 p1 p2 p3 p4 p5], o, (let x0: u8, p1), o[0] = Some(x0);}
rb_case! {a2_tl, b"tl", (u8, u8), [p0 p1 p2 p3 p4 p5], o, (let x0: u8, let x1), o[0] = Some(x0); o[1] = Some(x1);}
rb_case! {a2_tt, b"tt", (u8, u8), [p0 p1 p2 p3 p4 p5], o, (let x0: u8, let x1: u8), o[0] = Some(x0); o[1] = Some(x1);}
rb_case! {a2_tu, b"tu", (u8, u8), [p0 p1 p2 p3 p4 p5], o, (let x0: u8, _), o[0] = Some(x0);}
rb_case! {a2_up, b"up", (u8, u8), [p0 p1 p2 p3 p4 p5], o, (_, p1)}
rb_case! {a2_ul, b"ul", (u8, u8), [p0 p1 p2 p3 p4 p5], o, (_, let x1), o[1] = Some(x1);}
rb_case! {a2_ut, b"ut", (u8, u8), [p0 p1 p2 p3 p4 p5], o, (_, let x1: u8), o[1] = Some(x1);}
rb_case! {a2_uu, b"uu", (u8, u8), [p0 p1 p2 p3 p4 p5], o, (_, _)}

// "in order": both components go to the same place, the second assignment must win
pub fn a2_same_place_rio(r: Result<(u8, u8), E>, init: u8) -> u8 {
    let mut p = init;
    konst::rebind_if_ok! {(p, p) = r}
    p
}
pub fn a2_same_place_trb(r: Result<(u8, u8), E>, init: u8) -> Result<u8, E> {
    let mut p = init;
    konst::try_rebind! {(p, p) = r}
    Ok(p)
}
// places that are expressions (tuple fields / array elements) rather than identifiers
pub fn a2_expr_places_rio(r: Result<(u8, u8), E>, init: (u8, u8)) -> ((u8, u8), [u8; 2]) {
    let mut q = (init.0, 0u8);
    let mut arr = [0u8, init.1];
    konst::rebind_if_ok! {(q.0, arr[1]) = r}
    (q, arr)
}
pub fn a2_expr_places_trb(r: Result<(u8, u8), E>, init: (u8, u8)) -> Result<((u8, u8), [u8; 2]), E> {
    let mut q = (init.0, 0u8);
    let mut arr = [0u8, init.1];
    konst::try_rebind! {(q.0, arr[1]) = r}
    Ok((q, arr))
}

harness! {
    /// kind=complete tier=quick bound="constant 6-iteration comparison loops; Ok payload u8 / Err E(u8) and the prior contents of every place over the full domain; arity 1: place, (place), (let x), (let x: T), _, place: T"
    #[kani::unwind(8)]
    fn c19_rebind_arity1(s) {
        let init: Places = s.bytes();
        let v = s.u8();
        let e = E(s.u8());
        let r: R = if s.bool() { Ok(v) } else { Err(e) };
        let vals: Places = [v, 0, 0, 0, 0, 0];
        rb_chk!(s, a1_p, r, vals, e, init, "C19.rebind_if_ok.arity1.place", "C19.try_rebind.arity1.place");
        rb_chk!(s, a1_pp, r, vals, e, init, "C19.rebind_if_ok.arity1.parenthesised_place", "C19.try_rebind.arity1.parenthesised_place");
        rb_chk!(s, a1_l, r, vals, e, init, "C19.rebind_if_ok.arity1.let", "C19.try_rebind.arity1.let");
        rb_chk!(s, a1_t, r, vals, e, init, "C19.rebind_if_ok.arity1.typed_let", "C19.try_rebind.arity1.typed_let");
        rb_chk!(s, a1_u, r, vals, e, init, "C19.rebind_if_ok.arity1.underscore", "C19.try_rebind.arity1.underscore");
        let (p, hit) = a1_typed_place_rio(r, init);
        let mut want = init;
        if r.is_ok() {
            want[0] = v;
        }
        chk!(s, hit == r.is_ok() && eq_places(&p, &want), "C19.rebind_if_ok.arity1.typed_place");
        cov!(s, r.is_ok() && v != init[0], "C19.cover.rebind1_ok_changes");
        cov!(s, r.is_err() && e.0 != init[0], "C19.cover.rebind1_err");
    }
}

harness! {
    /// kind=complete tier=quick bound="constant 6-iteration comparison loops; Ok payload (u8,u8) / Err E(u8) and the prior contents of every place over the full domain; arity 2, first position a place or `let x`: 8 of the 16 patterns over {place, let x, let x: T, _}"
    #[kani::unwind(8)]
    fn c19_rebind_arity2_a(s) {
        let init: Places = s.bytes();
        let (v0, v1) = (s.u8(), s.u8());
        let e = E(s.u8());
        let r: Result<(u8, u8), E> = if s.bool() { Ok((v0, v1)) } else { Err(e) };
        let vals: Places = [v0, v1, 0, 0, 0, 0];
        rb_chk!(s, a2_pp, r, vals, e, init, "C19.rebind_if_ok.arity2.place_place", "C19.try_rebind.arity2.place_place");
        rb_chk!(s, a2_pl, r, vals, e, init, "C19.rebind_if_ok.arity2.place_let", "C19.try_rebind.arity2.place_let");
        rb_chk!(s, a2_pt, r, vals, e, init, "C19.rebind_if_ok.arity2.place_typed", "C19.try_rebind.arity2.place_typed");
        rb_chk!(s, a2_pu, r, vals, e, init, "C19.rebind_if_ok.arity2.place_underscore", "C19.try_rebind.arity2.place_underscore");
        rb_chk!(s, a2_lp, r, vals, e, init, "C19.rebind_if_ok.arity2.let_place", "C19.try_rebind.arity2.let_place");
        rb_chk!(s, a2_ll, r, vals, e, init, "C19.rebind_if_ok.arity2.let_let", "C19.try_rebind.arity2.let_let");
        rb_chk!(s, a2_lt, r, vals, e, init, "C19.rebind_if_ok.arity2.let_typed", "C19.try_rebind.arity2.let_typed");
        rb_chk!(s, a2_lu, r, vals, e, init, "C19.rebind_if_ok.arity2.let_underscore", "C19.try_rebind.arity2.let_underscore");
        cov!(s, r.is_ok() && v0 != v1 && v0 != init[0] && v1 != init[1], "C19.cover.rebind2a_ok_changes");
        cov!(s, r.is_err(), "C19.cover.rebind2a_err");
    }
}

harness! {
    /// kind=complete tier=quick bound="constant 6-iteration comparison loops; Ok payload (u8,u8) / Err E(u8) and the prior contents of every place over the full domain; arity 2, first position `let x: T` or `_`: the other 8 patterns; (p, p) for the order of assignment; expression places"
    #[kani::unwind(8)]
    fn c19_rebind_arity2_b(s) {
        let init: Places = s.bytes();
        let (v0, v1) = (s.u8(), s.u8());
        let e = E(s.u8());
        let r: Result<(u8, u8), E> = if s.bool() { Ok((v0, v1)) } else { Err(e) };
        let vals: Places = [v0, v1, 0, 0, 0, 0];
        rb_chk!(s, a2_tp, r, vals, e, init, "C19.rebind_if_ok.arity2.typed_place", "C19.try_rebind.arity2.typed_place");
        rb_chk!(s, a2_tl, r, vals, e, init, "C19.rebind_if_ok.arity2.typed_let", "C19.try_rebind.arity2.typed_let");
        rb_chk!(s, a2_tt, r, vals, e, init, "C19.rebind_if_ok.arity2.typed_typed", "C19.try_rebind.arity2.typed_typed");
        rb_chk!(s, a2_tu, r, vals, e, init, "C19.rebind_if_ok.arity2.typed_underscore", "C19.try_rebind.arity2.typed_underscore");
        rb_chk!(s, a2_up, r, vals, e, init, "C19.rebind_if_ok.arity2.underscore_place", "C19.try_rebind.arity2.underscore_place");
        rb_chk!(s, a2_ul, r, vals, e, init, "C19.rebind_if_ok.arity2.underscore_let", "C19.try_rebind.arity2.underscore_let");
        rb_chk!(s, a2_ut, r, vals, e, init, "C19.rebind_if_ok.arity2.underscore_typed", "C19.try_rebind.arity2.underscore_typed");
        rb_chk!(s, a2_uu, r, vals, e, init, "C19.rebind_if_ok.arity2.underscore_underscore", "C19.try_rebind.arity2.underscore_underscore");
        // order of the assignments
        chk!(s, a2_same_place_rio(r, init[0]) == (if r.is_ok() { v1 } else { init[0] }), "C19.rebind_if_ok.arity2.assigns_in_order");
        chk!(s, a2_same_place_trb(r, init[0]) == (if r.is_ok() { Ok(v1) } else { Err(e) }), "C19.try_rebind.arity2.assigns_in_order");
        // expression places
        let i2 = (init[0], init[1]);
        chk!(s, a2_expr_places_rio(r, i2) == (if r.is_ok() { ((v0, 0), [0, v1]) } else { ((i2.0, 0), [0, i2.1]) }),
            "C19.rebind_if_ok.arity2.expression_places");
        chk!(s, a2_expr_places_trb(r, i2) == (if r.is_ok() { Ok(((v0, 0), [0, v1])) } else { Err(e) }),
            "C19.try_rebind.arity2.expression_places");
        cov!(s, r.is_ok() && v0 != v1 && v0 != init[0] && v1 != init[1], "C19.cover.rebind2b_ok_changes");
        cov!(s, r.is_err(), "C19.cover.rebind2b_err");
    }
}

// ---------------------------------------------------------------------------
// min! / max! and the _by / _by_key forms: the same ARGUMENT as core::cmp's functions.
// An argument is a (key, tag) pair; only the key takes part in the comparison, so the
// tag tells which of two equal-keyed arguments came back.

/// for `min!`/`max!`, which need `ConstCmp` (and `Ord` on the std side): ordered by `key` only
#[derive(Copy, Clone, Debug)]
pub struct Kt {
    pub key: u8,
    pub tag: u8,
}
impl PartialEq for Kt {
    fn eq(&self, o: &Self) -> bool { self.key == o.key }
}
impl Eq for Kt {}
impl PartialOrd for Kt {
    fn partial_cmp(&self, o: &Self) -> Option<Ordering> { Some(self.key.cmp(&o.key)) }
}
impl Ord for Kt {
    fn cmp(&self, o: &Self) -> Ordering { self.key.cmp(&o.key) }
}
konst::impl_cmp! {
    impl Kt;
    pub const fn const_eq(&self, other: &Self) -> bool {
        self.key == other.key
    }
    pub const fn const_cmp(&self, other: &Self) -> Ordering {
        if self.key < other.key {
            Ordering::Less
        } else if self.key > other.key {
            Ordering::Greater
        } else {
            Ordering::Equal
        }
    }
}
fn same_kt(a: Kt, b: Kt) -> bool {
    a.key == b.key && a.tag == b.tag
}

type P = (u8, u8);
fn cmp_key(l: &P, r: &P) -> Ordering { l.0.cmp(&r.0) }
fn key_of(x: &P) -> u8 { x.0 }
pub mod mm {
    pub fn key_signed(x: &(u8, u8)) -> i8 { x.0 as i8 }
}

harness! {
    /// kind=complete tier=quick bound="loop-free; every pair of (key u8, tag u8) arguments; min!/max! on a ConstCmp type ordered by key only, and on u8 / i8 values"
    fn c19_minmax(s) {
        let a = Kt { key: s.u8(), tag: s.u8() };
        let b = Kt { key: s.u8(), tag: s.u8() };
        chk!(s, same_kt(konst::min!(a, b), core::cmp::min(a, b)), "C19.min.same_argument_as_std");
        chk!(s, same_kt(konst::max!(a, b), core::cmp::max(a, b)), "C19.max.same_argument_as_std");
        if a.key == b.key {
            chk!(s, konst::min!(a, b).tag == a.tag, "C19.min.tie_returns_first");
            chk!(s, konst::max!(a, b).tag == b.tag, "C19.max.tie_returns_second");
        }
        // primitives (argument identity is unobservable here: values only)
        let (x, y) = (a.key, b.key);
        chk!(s, konst::min!(x, y) == core::cmp::min(x, y) && konst::max!(x, y) == core::cmp::max(x, y), "C19.minmax.u8.eq_std");
        let (xi, yi) = (x as i8, y as i8);
        chk!(s, konst::min!(xi, yi) == core::cmp::min(xi, yi) && konst::max!(xi, yi) == core::cmp::max(xi, yi), "C19.minmax.i8.eq_std");
        cov!(s, a.key == b.key && a.tag != b.tag, "C19.cover.minmax_tie_distinct_tags");
        cov!(s, a.key > b.key && (a.key as i8) < (b.key as i8), "C19.cover.minmax_sign_matters");
    }
}

harness! {
    /// kind=complete tier=quick bound="loop-free; every pair of (key, tag) arguments; comparator forms: |l, r| e, typed params, reference patterns, `-> Ordering {block}`, function path, and a comparator returning an arbitrary symbolic Ordering"
    fn c19_minmax_by(s) {
        let a: P = (s.u8(), s.u8());
        let b: P = (s.u8(), s.u8());
        chk!(s, konst::min_by!(a, b, |l, r| l.0.cmp(&r.0)) == core::cmp::min_by(a, b, |l, r| l.0.cmp(&r.0)), "C19.min_by.closure.same_argument_as_std");
        chk!(s, konst::max_by!(a, b, |l, r| l.0.cmp(&r.0)) == core::cmp::max_by(a, b, |l, r| l.0.cmp(&r.0)), "C19.max_by.closure.same_argument_as_std");
        chk!(s, konst::min_by!(a, b, |l: &P, r: &P| l.0.cmp(&r.0)) == core::cmp::min_by(a, b, cmp_key), "C19.min_by.typed_closure.same_argument_as_std");
        chk!(s, konst::max_by!(a, b, |l: &P, r: &P| l.0.cmp(&r.0)) == core::cmp::max_by(a, b, cmp_key), "C19.max_by.typed_closure.same_argument_as_std");
        chk!(s, konst::min_by!(a, b, |&(l, _), &(r, _)| l.cmp(&r)) == core::cmp::min_by(a, b, cmp_key), "C19.min_by.pattern_closure.same_argument_as_std");
        chk!(s, konst::max_by!(a, b, |&(l, _), &(r, _)| l.cmp(&r)) == core::cmp::max_by(a, b, cmp_key), "C19.max_by.pattern_closure.same_argument_as_std");
        chk!(s, konst::min_by!(a, b, |l, r| -> Ordering { l.0.cmp(&r.0) }) == core::cmp::min_by(a, b, cmp_key), "C19.min_by.block_closure.same_argument_as_std");
        chk!(s, konst::max_by!(a, b, |l, r| -> Ordering { l.0.cmp(&r.0) }) == core::cmp::max_by(a, b, cmp_key), "C19.max_by.block_closure.same_argument_as_std");
        chk!(s, konst::min_by!(a, b, cmp_key) == core::cmp::min_by(a, b, cmp_key), "C19.min_by.fn.same_argument_as_std");
        chk!(s, konst::max_by!(a, b, cmp_key) == core::cmp::max_by(a, b, cmp_key), "C19.max_by.fn.same_argument_as_std");
        // any comparator outcome at all
        let ord = match s.upto(2) { 0 => Ordering::Less, 1 => Ordering::Equal, _ => Ordering::Greater };
        chk!(s, konst::min_by!(a, b, |_, _| ord) == core::cmp::min_by(a, b, |_, _| ord), "C19.min_by.arbitrary_ordering.same_argument_as_std");
        chk!(s, konst::max_by!(a, b, |_, _| ord) == core::cmp::max_by(a, b, |_, _| ord), "C19.max_by.arbitrary_ordering.same_argument_as_std");
        if a.0 == b.0 {
            chk!(s, konst::min_by!(a, b, cmp_key) == a && konst::min_by!(a, b, |l, r| l.0.cmp(&r.0)) == a, "C19.min_by.tie_returns_first");
            chk!(s, konst::max_by!(a, b, cmp_key) == b && konst::max_by!(a, b, |l, r| l.0.cmp(&r.0)) == b, "C19.max_by.tie_returns_second");
        }
        cov!(s, a.0 == b.0 && a.1 != b.1, "C19.cover.minmax_by_tie_distinct_tags");
        cov!(s, a.0 > b.0 && a.1 < b.1, "C19.cover.minmax_by_greater");
        cov!(s, ord == Ordering::Equal && a != b, "C19.cover.minmax_by_arbitrary_equal");
    }
}

harness! {
    /// kind=complete tier=quick bound="loop-free; every pair of (key, tag) arguments; key-function forms: |x| e, typed param, reference pattern, function path, qualified path with a different key type (i8)"
    fn c19_minmax_by_key(s) {
        let a: P = (s.u8(), s.u8());
        let b: P = (s.u8(), s.u8());
        chk!(s, konst::min_by_key!(a, b, |x| x.0) == core::cmp::min_by_key(a, b, |x| x.0), "C19.min_by_key.closure.same_argument_as_std");
        chk!(s, konst::max_by_key!(a, b, |x| x.0) == core::cmp::max_by_key(a, b, |x| x.0), "C19.max_by_key.closure.same_argument_as_std");
        chk!(s, konst::min_by_key!(a, b, |x: &P| x.0) == core::cmp::min_by_key(a, b, key_of), "C19.min_by_key.typed_closure.same_argument_as_std");
        chk!(s, konst::max_by_key!(a, b, |x: &P| x.0) == core::cmp::max_by_key(a, b, key_of), "C19.max_by_key.typed_closure.same_argument_as_std");
        chk!(s, konst::min_by_key!(a, b, |&(k, _)| k) == core::cmp::min_by_key(a, b, key_of), "C19.min_by_key.pattern_closure.same_argument_as_std");
        chk!(s, konst::max_by_key!(a, b, |&(k, _)| k) == core::cmp::max_by_key(a, b, key_of), "C19.max_by_key.pattern_closure.same_argument_as_std");
        chk!(s, konst::min_by_key!(a, b, key_of) == core::cmp::min_by_key(a, b, key_of), "C19.min_by_key.fn.same_argument_as_std");
        chk!(s, konst::max_by_key!(a, b, key_of) == core::cmp::max_by_key(a, b, key_of), "C19.max_by_key.fn.same_argument_as_std");
        chk!(s, konst::min_by_key!(a, b, mm::key_signed) == core::cmp::min_by_key(a, b, mm::key_signed), "C19.min_by_key.fn_qualified_i8.same_argument_as_std");
        chk!(s, konst::max_by_key!(a, b, mm::key_signed) == core::cmp::max_by_key(a, b, mm::key_signed), "C19.max_by_key.fn_qualified_i8.same_argument_as_std");
        // a key function that collapses many arguments onto one key
        chk!(s, konst::min_by_key!(a, b, |x| x.0 / 64) == core::cmp::min_by_key(a, b, |x| x.0 / 64), "C19.min_by_key.coarse_key.same_argument_as_std");
        chk!(s, konst::max_by_key!(a, b, |x| x.0 / 64) == core::cmp::max_by_key(a, b, |x| x.0 / 64), "C19.max_by_key.coarse_key.same_argument_as_std");
        if a.0 == b.0 {
            chk!(s, konst::min_by_key!(a, b, key_of) == a && konst::min_by_key!(a, b, |x| x.0) == a, "C19.min_by_key.tie_returns_first");
            chk!(s, konst::max_by_key!(a, b, key_of) == b && konst::max_by_key!(a, b, |x| x.0) == b, "C19.max_by_key.tie_returns_second");
        }
        cov!(s, a.0 == b.0 && a.1 != b.1, "C19.cover.minmax_by_key_tie_distinct_tags");
        cov!(s, a.0 / 64 == b.0 / 64 && a.0 > b.0, "C19.cover.minmax_by_key_coarse_tie");
        cov!(s, a.0 > b.0 && (a.0 as i8) < (b.0 as i8), "C19.cover.minmax_by_key_sign_matters");
    }
}
