//! C09 — range iteration yields exactly the values std ranges yield.
//!
//! konst's range iterators (`RangeIter`, `RangeInclusiveIter`, their `Rev` twins, `RangeFromIter`)
//! are loop-free, so every harness below ranges over the FULL domain of `(start, end)`: `kind=complete`.
//! Oracle: the real `core::ops::{Range, RangeInclusive, RangeFrom}` iterators (and `Rev` of them).
//!
//! The iterators' fields are private, so a state is observed through behaviour.  Shape of the
//! step harnesses: build the konst iterator with `konst::iter::into_iter!` (owned or borrowed
//! range, optionally `.rev()`), take ONE step of symbolic direction on konst and on std, compare
//! the items, then take a further `next` AND a further `next_back` on copies of both successors
//! and compare those.  Why this is an induction over every history (both ends, any length): a
//! konst state is just the pair of fields `(start, end)`, and `into_iter!` reaches every pair, so
//! the successor `K'` is `into_iter!(a''..b'')` for some pair; the harness instance for
//! `(a'', b'')` says that state shows std's `(a''..b'')` observations, and the successor checks
//! say it shows the observations of std's successor `S'`; for std ranges the two observations
//! (first item from the front, first item from the back) determine the range up to "empty", so
//! `K'` behaves like a fresh konst iterator over a range equivalent to `S'`, for which the
//! harness holds again.  (`RangeInclusive`: std's `exhausted` flag and konst's `(MAX, MIN)`
//! encoding are both just "empty" under this observation.)
//!
//! `RangeFrom` is checked under `start < MAX` (and the successor is stepped again only if it is
//! `< MAX`): at `MAX` both std and konst panic in a build with debug assertions.
//!
//! The "through konst's iteration macros" clause: whole iterations with `konst::iter::for_each!`
//! (forward and `,rev()`) in lock-step with the std iterator for every u8 / i8 pair — thorough tier.
use crate::hlib::*;
use core::ops::{Range, RangeFrom, RangeInclusive};
use konst::iter::{for_each, into_iter};
use konst_kernel::into_iter::range_into_iter::{
    RangeFromIter, RangeInclusiveIter, RangeInclusiveIterRev, RangeIter, RangeIterRev,
};

// ---------------------------------------------------------------------------
// templates (kept in front of every other macro: the runner finds the `harness!` of a template
// by scanning forward from `macro_rules! <name>`)

macro_rules! c09_range_q {
    ($name:ident, $t:ty) => {
        harness! {
            /// kind=complete tier=quick bound="every (start,end) of the type; start..end owned/borrowed, forward and rev(); one step of either direction + both observations of the successor; loop-free"
            fn $name(s) {
                let a = <$t as Dom>::draw(s);
                let b = <$t as Dom>::draw(s);
                let _ = range_body::<$t, _>(s, a, b);
            }
        }
    };
}

macro_rules! c09_range_t {
    ($name:ident, $t:ty) => {
        harness! {
            /// kind=complete tier=thorough bound="every (start,end) of the type; start..end owned/borrowed, forward and rev(); one step of either direction + both observations of the successor; loop-free"
            fn $name(s) {
                let a = <$t as Dom>::draw(s);
                let b = <$t as Dom>::draw(s);
                let _ = range_body::<$t, _>(s, a, b);
            }
        }
    };
}

macro_rules! c09_rangeinc_q {
    ($name:ident, $t:ty) => {
        harness! {
            /// kind=complete tier=quick bound="every (start,end) of the type; start..=end owned/borrowed, forward and rev(); one step of either direction + both observations of the successor; loop-free"
            fn $name(s) {
                let a = <$t as Dom>::draw(s);
                let b = <$t as Dom>::draw(s);
                let _ = rangeinc_body::<$t, _>(s, a, b);
            }
        }
    };
}

macro_rules! c09_rangeinc_t {
    ($name:ident, $t:ty) => {
        harness! {
            /// kind=complete tier=thorough bound="every (start,end) of the type; start..=end owned/borrowed, forward and rev(); one step of either direction + both observations of the successor; loop-free"
            fn $name(s) {
                let a = <$t as Dom>::draw(s);
                let b = <$t as Dom>::draw(s);
                let _ = rangeinc_body::<$t, _>(s, a, b);
            }
        }
    };
}

macro_rules! c09_rangefrom_q {
    ($name:ident, $t:ty) => {
        harness! {
            /// kind=complete tier=quick bound="every start < MAX of the type; start.. owned/borrowed; one step + one observation of the successor (if it is < MAX); loop-free"
            fn $name(s) {
                let a = <$t as Dom>::draw(s);
                let _ = rangefrom_body::<$t, _>(s, a);
            }
        }
    };
}

macro_rules! c09_rangefrom_t {
    ($name:ident, $t:ty) => {
        harness! {
            /// kind=complete tier=thorough bound="every start < MAX of the type; start.. owned/borrowed; one step + one observation of the successor (if it is < MAX); loop-free"
            fn $name(s) {
                let a = <$t as Dom>::draw(s);
                let _ = rangefrom_body::<$t, _>(s, a);
            }
        }
    };
}

macro_rules! c09_mixed_q {
    ($name:ident, $t:ty) => {
        harness! {
            /// kind=bounded tier=quick bound="every (start,end) of the type, start..end and start..=end, every front/back history of 4 steps from the fresh iterator (direct check of the both-ends clause; the step harnesses cover every length by induction)"
            #[kani::unwind(6)]
            fn $name(s) {
                let a = <$t as Dom>::draw(s);
                let b = <$t as Dom>::draw(s);
                let (it, fr) = mixed_body::<$t, _>(s, a, b);
                cov!(s, it[3].is_some() && fr[0] && !fr[1] && fr[2] && !fr[3], "C09.cover.mixed_alternating_ends");
                cov!(s, it[0].is_some() && it[1].is_some() && it[2].is_none() && fr[0] != fr[1], "C09.cover.mixed_two_items_then_none");
            }
        }
    };
}

macro_rules! c09_whole_t {
    ($name:ident, $t:ty, |$a:ident, $b:ident| [$($k:tt)*], $sd:expr, $full:expr) => {
        harness! {
            /// kind=complete tier=thorough bound="every (start,end) pair of an 8-bit type, whole iteration through konst::iter::for_each!; loop bounded by the 256 values of the type (unwinding assertion on)"
            #[kani::unwind(258)]
            fn $name(s) {
                let $a = <$t as Dom>::draw(s);
                let $b = <$t as Dom>::draw(s);
                let mut sd = $sd;
                let mut n = 0u32;
                for_each! {x in $($k)* =>
                    let e = sd.next();
                    chk!(s, e == Some(x), "C09.for_each.item_in_order_eq_std");
                    n += 1;
                }
                chk!(s, sd.next().is_none(), "C09.for_each.same_length_as_std");
                cov!(s, n == $full, "C09.cover.for_each_whole_type");
                cov!(s, n == 0 && $a > $b, "C09.cover.for_each_inverted_is_empty");
                cov!(s, n == 3, "C09.cover.for_each_three_items");
            }
        }
    };
}

// ---------------------------------------------------------------------------
// support

/// the symbolic domain of one `Step` type; bounds taken from std, not from konst's `Step` consts
trait Dom: konst::iter::Step + PartialOrd + PartialEq + Copy {
    const LO: Self;
    const HI: Self;
    fn draw<S: Src>(s: &mut S) -> Self;
}

macro_rules! impl_dom {
    ($($t:ty, $f:ident, $lo:expr, $hi:expr;)*) => {$(
        impl Dom for $t {
            const LO: Self = $lo;
            const HI: Self = $hi;
            fn draw<S: Src>(s: &mut S) -> Self { s.$f() }
        }
    )*};
}
impl_dom! {
    u8, u8, u8::MIN, u8::MAX;
    u16, u16, u16::MIN, u16::MAX;
    u32, u32, u32::MIN, u32::MAX;
    u64, u64, u64::MIN, u64::MAX;
    u128, u128, u128::MIN, u128::MAX;
    usize, usize, usize::MIN, usize::MAX;
    i8, i8, i8::MIN, i8::MAX;
    i16, i16, i16::MIN, i16::MAX;
    i32, i32, i32::MIN, i32::MAX;
    i64, i64, i64::MIN, i64::MAX;
    i128, i128, i128::MIN, i128::MAX;
    isize, isize, isize::MIN, isize::MAX;
    char, char, '\0', char::MAX;
}

/// konst's by-value iterator protocol, so that the four double-ended range iterators share the bodies
trait KIter<T>: Sized {
    fn knext(self) -> Option<(T, Self)>;
    fn knext_back(self) -> Option<(T, Self)>;
    fn kcopy(&self) -> Self;
}

macro_rules! impl_kiter {
    ($($it:ident)*) => {$(
        impl<T: konst::iter::Step> KIter<T> for $it<T> {
            fn knext(self) -> Option<(T, Self)> { self.next() }
            fn knext_back(self) -> Option<(T, Self)> { self.next_back() }
            fn kcopy(&self) -> Self { self.copy() }
        }
    )*};
}
impl_kiter! {RangeIter RangeIterRev RangeInclusiveIter RangeInclusiveIterRev}

/// one step of konst iterator `k` (front or back); a `None` leaves the iterator where it was
fn kstep<T, K: KIter<T>>(k: K, front: bool) -> (Option<T>, K) {
    let keep = k.kcopy();
    let r = if front { k.knext() } else { k.knext_back() };
    match r {
        Some((x, n)) => (Some(x), n),
        None => (None, keep),
    }
}

fn sstep<T, D: DoubleEndedIterator<Item = T>>(d: &mut D, front: bool) -> Option<T> {
    if front { d.next() } else { d.next_back() }
}

/// one step of symbolic direction on both sides, then both observations of the two successors;
/// -> (item, successor's next item, successor's next_back item) as std gives them
macro_rules! lockstep {
    ($s:expr, $k:expr, $sd:expr, $item:literal, $succ_next:literal, $succ_back:literal) => {{
        let front = $s.bool();
        let mut sd = $sd;
        let (ki, k1) = kstep($k, front);
        let si = sstep(&mut sd, front);
        chk!($s, ki == si, $item);
        let (kf, _) = kstep(k1.kcopy(), true);
        let sf = sd.clone().next();
        chk!($s, kf == sf, $succ_next);
        let (kb, _) = kstep(k1, false);
        let sb = sd.clone().next_back();
        chk!($s, kb == sb, $succ_back);
        (si, sf, sb)
    }};
}

type Obs<T> = (Option<T>, Option<T>, Option<T>);

fn range_body<T: Dom, S: Src>(s: &mut S, a: T, b: T) -> Obs<T>
where
    Range<T>: DoubleEndedIterator<Item = T> + Clone,
{
    let r: Range<T> = a..b;
    let k: RangeIter<T> = if s.bool() { into_iter!(&r) } else { into_iter!(a..b) };
    let rev = s.bool();
    let o = if rev {
        lockstep!(s, k.rev(), r.clone().rev(), "C09.range_rev.step.item_eq_std", "C09.range_rev.successor.next_eq_std", "C09.range_rev.successor.next_back_eq_std")
    } else {
        lockstep!(s, k, r.clone(), "C09.range.step.item_eq_std", "C09.range.successor.next_eq_std", "C09.range.successor.next_back_eq_std")
    };
    cov!(s, a < b && o.0 == Some(a) && !rev, "C09.cover.range_first_is_start");
    cov!(s, a < b && b == T::HI && a == T::LO && rev, "C09.cover.range_whole_type_rev");
    cov!(s, a > b && o.0.is_none(), "C09.cover.range_inverted");
    cov!(s, a == b && o.0.is_none(), "C09.cover.range_empty");
    cov!(s, o.0.is_some() && o.1.is_none() && o.2.is_none(), "C09.cover.range_single_item");
    cov!(s, o.0.is_some() && o.1.is_some() && o.1 != o.2, "C09.cover.range_three_or_more");
    o
}

fn rangeinc_body<T: Dom, S: Src>(s: &mut S, a: T, b: T) -> Obs<T>
where
    RangeInclusive<T>: DoubleEndedIterator<Item = T> + Clone,
{
    let r: RangeInclusive<T> = a..=b;
    let k: RangeInclusiveIter<T> = if s.bool() { into_iter!(&r) } else { into_iter!(a..=b) };
    let rev = s.bool();
    let o = if rev {
        lockstep!(s, k.rev(), r.clone().rev(), "C09.range_inclusive_rev.step.item_eq_std", "C09.range_inclusive_rev.successor.next_eq_std", "C09.range_inclusive_rev.successor.next_back_eq_std")
    } else {
        lockstep!(s, k, r.clone(), "C09.range_inclusive.step.item_eq_std", "C09.range_inclusive.successor.next_eq_std", "C09.range_inclusive.successor.next_back_eq_std")
    };
    cov!(s, a < b && o.0 == Some(b) && !rev, "C09.cover.rangeinc_back_is_end");
    cov!(s, a == T::LO && b == T::HI && o.0 == Some(T::HI), "C09.cover.rangeinc_whole_type_yields_max");
    cov!(s, a == T::HI && b == T::HI && o.0 == Some(T::HI) && o.1.is_none(), "C09.cover.rangeinc_max_max_then_exhausted");
    cov!(s, a == T::LO && b == T::LO && o.0 == Some(T::LO) && o.2.is_none(), "C09.cover.rangeinc_min_min_then_exhausted");
    cov!(s, a > b && o.0.is_none(), "C09.cover.rangeinc_inverted");
    cov!(s, a == T::HI && b == T::LO && o.0.is_none(), "C09.cover.rangeinc_max_min_inverted");
    cov!(s, o.0.is_some() && o.1.is_some() && o.1 != o.2, "C09.cover.rangeinc_three_or_more");
    o
}

/// -> (item, the successor's item if it was observed)
fn rangefrom_body<T: Dom, S: Src>(s: &mut S, a: T) -> (Option<T>, Option<T>)
where
    RangeFrom<T>: Iterator<Item = T> + Clone,
{
    s.assume(a < T::HI);
    let mut sd: RangeFrom<T> = a..;
    let k: RangeFromIter<T> = if s.bool() { into_iter!(&sd) } else { into_iter!(a..) };
    let (ki, k1) = match k.next() {
        Some((x, n)) => (Some(x), Some(n)),
        None => (None, None),
    };
    let si = sd.next();
    chk!(s, ki == si, "C09.range_from.step.item_eq_std");
    chk!(s, k1.is_some(), "C09.range_from.never_ends");
    let mut second = None;
    if sd.start < T::HI {
        let kf = match k1 {
            Some(n) => match n.next() { Some((x, _)) => Some(x), None => None },
            None => None,
        };
        second = sd.next();
        chk!(s, kf == second, "C09.range_from.successor.next_eq_std");
    }
    cov!(s, a == T::LO && si == Some(T::LO), "C09.cover.range_from_min");
    cov!(s, second.is_some() && sd.start == T::HI, "C09.cover.range_from_reaches_max");
    (si, second)
}

/// 4 steps of symbolic direction from the fresh iterator, `start..end` or `start..=end`
fn mixed_body<T: Dom, S: Src>(s: &mut S, a: T, b: T) -> ([Option<T>; 4], [bool; 4])
where
    Range<T>: DoubleEndedIterator<Item = T> + Clone,
    RangeInclusive<T>: DoubleEndedIterator<Item = T> + Clone,
{
    let mut items = [None; 4];
    let mut fronts = [false; 4];
    if s.bool() {
        let mut k = into_iter!(a..b);
        let mut sd = a..b;
        let mut i = 0;
        while i < 4 {
            let front = s.bool();
            let (ki, nk) = kstep(k, front);
            k = nk;
            let si = sstep(&mut sd, front);
            chk!(s, ki == si, "C09.range.history.item_eq_std");
            items[i] = si;
            fronts[i] = front;
            i += 1;
        }
    } else {
        let mut k = into_iter!(a..=b);
        let mut sd = a..=b;
        let mut i = 0;
        while i < 4 {
            let front = s.bool();
            let (ki, nk) = kstep(k, front);
            k = nk;
            let si = sstep(&mut sd, front);
            chk!(s, ki == si, "C09.range_inclusive.history.item_eq_std");
            items[i] = si;
            fronts[i] = front;
            i += 1;
        }
    }
    (items, fronts)
}

// ---------------------------------------------------------------------------
// integers

c09_range_q! {c09_range_u8, u8}
c09_range_q! {c09_range_i8, i8}
c09_range_q! {c09_range_u32, u32}
c09_range_q! {c09_range_i128, i128}
c09_range_q! {c09_range_usize, usize}
c09_range_q! {c09_range_u16, u16}
c09_range_q! {c09_range_u64, u64}
c09_range_q! {c09_range_u128, u128}
c09_range_q! {c09_range_i16, i16}
c09_range_q! {c09_range_i32, i32}
c09_range_q! {c09_range_i64, i64}
c09_range_q! {c09_range_isize, isize}

c09_rangeinc_q! {c09_rangeinc_u8, u8}
c09_rangeinc_q! {c09_rangeinc_i8, i8}
c09_rangeinc_q! {c09_rangeinc_u32, u32}
c09_rangeinc_q! {c09_rangeinc_i128, i128}
c09_rangeinc_q! {c09_rangeinc_usize, usize}
c09_rangeinc_q! {c09_rangeinc_u16, u16}
c09_rangeinc_q! {c09_rangeinc_u64, u64}
c09_rangeinc_q! {c09_rangeinc_u128, u128}
c09_rangeinc_q! {c09_rangeinc_i16, i16}
c09_rangeinc_q! {c09_rangeinc_i32, i32}
c09_rangeinc_q! {c09_rangeinc_i64, i64}
c09_rangeinc_q! {c09_rangeinc_isize, isize}

c09_rangefrom_q! {c09_rangefrom_u8, u8}
c09_rangefrom_q! {c09_rangefrom_i8, i8}
c09_rangefrom_q! {c09_rangefrom_u32, u32}
c09_rangefrom_q! {c09_rangefrom_i128, i128}
c09_rangefrom_q! {c09_rangefrom_usize, usize}
c09_rangefrom_q! {c09_rangefrom_u16, u16}
c09_rangefrom_q! {c09_rangefrom_u64, u64}
c09_rangefrom_q! {c09_rangefrom_u128, u128}
c09_rangefrom_q! {c09_rangefrom_i16, i16}
c09_rangefrom_q! {c09_rangefrom_i32, i32}
c09_rangefrom_q! {c09_rangefrom_i64, i64}
c09_rangefrom_q! {c09_rangefrom_isize, isize}

c09_mixed_q! {c09_mixed_u8, u8}
c09_mixed_q! {c09_mixed_i8, i8}

// ---------------------------------------------------------------------------
// char (written out: the surrogate-gap witnesses only make sense for this type)

const GAP_LO: char = '\u{D7FF}';
const GAP_HI: char = '\u{E000}';

harness! {
    /// kind=complete tier=quick bound="every (start,end) pair of chars; start..end owned/borrowed, forward and rev(); one step of either direction + both observations of the successor; loop-free"
    fn c09_range_char(s) {
        let a = s.char();
        let b = s.char();
        let o = range_body::<char, _>(s, a, b);
        cov!(s, o.0 == Some(GAP_LO) && o.1 == Some(GAP_HI), "C09.cover.range_char_steps_up_over_gap");
        cov!(s, o.0 == Some(GAP_HI) && o.2 == Some(GAP_LO), "C09.cover.range_char_steps_down_over_gap");
        cov!(s, a < GAP_LO && b > GAP_HI && o.0.is_some(), "C09.cover.range_char_spans_gap");
        cov!(s, b == char::MAX && o.0 == Some('\u{10FFFE}'), "C09.cover.range_char_below_max");
    }
}

harness! {
    /// kind=complete tier=quick bound="every (start,end) pair of chars; start..=end owned/borrowed, forward and rev(); one step of either direction + both observations of the successor; loop-free"
    fn c09_rangeinc_char(s) {
        let a = s.char();
        let b = s.char();
        let o = rangeinc_body::<char, _>(s, a, b);
        cov!(s, o.0 == Some(GAP_LO) && o.1 == Some(GAP_HI), "C09.cover.rangeinc_char_steps_up_over_gap");
        cov!(s, o.0 == Some(GAP_HI) && o.2 == Some(GAP_LO), "C09.cover.rangeinc_char_steps_down_over_gap");
        cov!(s, a == GAP_LO && b == GAP_HI && o.0.is_some() && o.1 == o.2 && o.1.is_some(), "C09.cover.rangeinc_char_gap_edges_only");
    }
}

harness! {
    /// kind=complete tier=quick bound="every start char < char::MAX; start.. owned/borrowed; one step + one observation of the successor (if it is < MAX); loop-free"
    fn c09_rangefrom_char(s) {
        let a = s.char();
        let o = rangefrom_body::<char, _>(s, a);
        cov!(s, o.0 == Some(GAP_LO) && o.1 == Some(GAP_HI), "C09.cover.range_from_char_steps_over_gap");
    }
}

harness! {
    /// kind=bounded tier=quick bound="every (start,end) pair of chars, start..end and start..=end, every front/back history of 4 steps from the fresh iterator"
    #[kani::unwind(6)]
    fn c09_mixed_char(s) {
        let a = s.char();
        let b = s.char();
        let (it, fr) = mixed_body::<char, _>(s, a, b);
        cov!(s, it[0] == Some(GAP_LO) && fr[0] && it[1] == Some(GAP_HI) && !fr[1] && it[2].is_none(), "C09.cover.mixed_char_gap_from_both_ends");
        cov!(s, it[0] == Some('\u{D7FE}') && it[1] == Some('\u{E001}') && it[2] == Some(GAP_LO) && it[3] == Some(GAP_HI), "C09.cover.mixed_char_closing_in_on_gap");
        cov!(s, it[3].is_some() && fr[0] && !fr[1] && fr[2] && !fr[3], "C09.cover.mixed_char_alternating_ends");
    }
}

// ---------------------------------------------------------------------------
// whole iterations through `for_each!` (thorough)

macro_rules! c09_for_range_q {
    ($name:ident, $t:ty) => {
        harness! {
            /// kind=bounded tier=quick bound="konst::for_range!{x in a..b => ..} for every (a,b) of the type, observed for the first 6 iterations: same number of iterations (0 for empty and inverted ranges) and the same values in the same order as `a..b` of std; the body breaks after 6 iterations"
            #[kani::unwind(9)]
            fn $name(s) {
                let a = <$t as Dom>::draw(s);
                let b = <$t as Dom>::draw(s);
                let mut got: [Option<$t>; 6] = [None; 6];
                let mut n = 0usize;
                konst::for_range! {x in a..b =>
                    if n >= 6 {
                        break;
                    }
                    got[n] = Some(x);
                    n += 1;
                }
                let mut it = a..b;
                let mut k = 0usize;
                let mut same = true;
                while k < 6 {
                    if got[k] != it.next() {
                        same = false;
                    }
                    k += 1;
                }
                chk!(s, same, "C09.for_range.first_six_values_eq_std");
                cov!(s, n == 3, "C09.cover.for_range_three_iterations");
                cov!(s, n == 0 && a > b, "C09.cover.for_range_inverted");
            }
        }
    };
}
c09_for_range_q! {c09_for_range_u8, u8}
c09_for_range_q! {c09_for_range_i8, i8}
c09_for_range_q! {c09_for_range_usize, usize}
c09_for_range_q! {c09_for_range_i128, i128}

c09_whole_t! {c09_for_each_range_u8, u8, |a, b| [a..b], a..b, 255}
c09_whole_t! {c09_for_each_range_rev_u8, u8, |a, b| [a..b, rev()], (a..b).rev(), 255}
c09_whole_t! {c09_for_each_rangeinc_u8, u8, |a, b| [a..=b], a..=b, 256}
c09_whole_t! {c09_for_each_rangeinc_rev_u8, u8, |a, b| [a..=b, rev()], (a..=b).rev(), 256}
c09_whole_t! {c09_for_each_range_i8, i8, |a, b| [a..b], a..b, 255}
c09_whole_t! {c09_for_each_range_rev_i8, i8, |a, b| [a..b, rev()], (a..b).rev(), 255}
c09_whole_t! {c09_for_each_rangeinc_i8, i8, |a, b| [a..=b], a..=b, 256}
c09_whole_t! {c09_for_each_rangeinc_rev_i8, i8, |a, b| [a..=b, rev()], (a..=b).rev(), 256}
