//! C12 — integer / bool parsing accepts std's language and returns the same value.
//!
//! Oracle: the real `str::parse::<T>()` (every harness calls it; no hand-written integer
//! reference), minus std's optional leading '+' which konst documents as rejected.
//! Prefix parsing (`Parser::parse_<int>`): the harness scans "optional '-' (signed only) +
//! longest run of ASCII digits" itself and hands exactly that prefix to `str::parse`.
//!
//! Every harness stubs `konst_kernel::string::non_char_boundary_panic` (reachable only syntactically,
//! through `string::str_from` in the parse methods): unstubbed, its 256-byte message loops are
//! unrolled `unwind` times and a 39-digit harness does not finish in 10 min (measured: 5 s stubbed).
//! The stub still panics, so reaching it would be reported as a failed check.
use crate::hlib::*;
use konst::parsing::{HasParser, ParseError, Parser};
use konst::primitive as prim;

/// the 12 integer types behind one interface, so that each obligation is written once
pub trait KInt: Copy + PartialEq + core::str::FromStr {
    const SIGNED: bool;
    fn whole(s: &str) -> Option<Self>;
    fn prefix<'a>(p: Parser<'a>) -> Result<(Self, Parser<'a>), ParseError<'a>>;
    fn via_has_parser<'a>(p: Parser<'a>) -> Result<(Self, Parser<'a>), ParseError<'a>>;
}

fn is_digit(b: u8) -> bool {
    b >= b'0' && b <= b'9'
}

fn ascii_str(b: &[u8]) -> &str {
    // callers pass ASCII-only slices (checked by their assumptions / scans)
    unsafe { core::str::from_utf8_unchecked(b) }
}

/// whole-string parsing == `str::parse` on strings without a leading '+'
fn check_whole<T: KInt, S: Src>(s: &mut S, h: &str) {
    let k = T::whole(h);
    let e: Option<T> = h.parse::<T>().ok();
    let hb = h.as_bytes();
    let plus = hb.len() > 0 && hb[0] == b'+';
    let expect = if plus { None } else { e };
    chk!(s, k.is_some() == expect.is_some(), "C12.primitive_parse_int.ok_iff_std_ok_and_no_leading_plus");
    chk!(s, match (k, expect) { (Some(a), Some(b)) => a == b, _ => true }, "C12.primitive_parse_int.same_value_as_std");
}

/// length of "optional '-' (signed only) + longest digit run", and the digit count
fn scan_prefix(hb: &[u8], signed: bool) -> (usize, usize) {
    let neg = signed && hb.len() > 0 && hb[0] == b'-';
    let mut n = neg as usize;
    while n < hb.len() && is_digit(hb[n]) {
        n += 1;
    }
    (n, n - neg as usize)
}

/// prefix parsing through `Parser::new(h)`; returns (consumed length, std's value of the prefix)
fn check_prefix<T: KInt, S: Src>(s: &mut S, h: &str) -> (usize, Option<T>) {
    let (n, digits) = scan_prefix(h.as_bytes(), T::SIGNED);
    check_prefix_at::<T, S>(s, h, n, digits)
}

/// the same with the extent of "optional '-' + longest digit run" (`n` bytes, `digits` of them digits) given
fn check_prefix_at<T: KInt, S: Src>(s: &mut S, h: &str, n: usize, digits: usize) -> (usize, Option<T>) {
    let hb = h.as_bytes();
    let expect: Option<T> = if digits == 0 { None } else { ascii_str(&hb[..n]).parse::<T>().ok() };
    match T::prefix(Parser::new(h)) {
        Ok((v, p)) => {
            chk!(s, digits > 0, "C12.parser_parse_int.err_when_no_digit");
            chk!(s, digits == 0 || expect.is_some(), "C12.parser_parse_int.err_when_number_does_not_fit");
            chk!(s, match expect { Some(e) => e == v, None => true }, "C12.parser_parse_int.value_of_longest_digit_run");
            chk!(s, is_subslice_at(hb, p.remainder().as_bytes(), n, hb.len()), "C12.parser_parse_int.remainder_is_unconsumed_rest");
        }
        Err(e) => {
            chk!(s, expect.is_none(), "C12.parser_parse_int.ok_when_digits_fit");
            // "fails without consuming anything": no parser comes back, and the error points at the start
            chk!(s, e.offset() == 0, "C12.parser_parse_int.error_at_start_nothing_consumed");
        }
    }
    (n, expect)
}

/// `[-+]?[0-9]*` of at most CAP bytes (every such string), optionally continued by arbitrary ASCII
fn any_numeric<const CAP: usize, S: Src>(s: &mut S, min_len: usize, with_tail: bool) -> ([u8; CAP], usize) {
    let raw: [u8; CAP] = s.bytes();
    let len = s.upto(CAP);
    s.assume(len >= min_len);
    let m = if with_tail { s.upto(CAP) } else { CAP };
    let mut i = 0;
    while i < CAP {
        if i < len {
            let b = raw[i];
            let ok = if i < m { is_digit(b) || (i == 0 && (b == b'-' || b == b'+')) } else { b < 0x80 };
            s.assume(ok);
        }
        i += 1;
    }
    (raw, len)
}

// ---------------------------------------------------------------------------
// 8-bit types: every valid UTF-8 string of <= 4 bytes

harness! {
    /// kind=bounded tier=quick bound="u8: every valid UTF-8 string<=4 bytes (all 256 values with leading zeros, '-0', '+', letters, spaces, non-ASCII digits)"
    #[kani::unwind(8)]
    fn c12_whole_u8(s) {
        let bs = BStr::<4>::any(s);
        let h = bs.as_str();
        check_whole::<u8, _>(s, h);
        let r = prim::parse_u8(h);
        cov!(s, r == Ok(255), "C12.cover.u8_max");
        cov!(s, h.len() == 4 && r == Ok(7), "C12.cover.u8_leading_zeros");
        cov!(s, h.len() == 2 && h.as_bytes()[0] == b'+' && h.parse::<u8>().is_ok(), "C12.cover.u8_plus_std_ok");
        cov!(s, h.len() == 2 && h.as_bytes()[0] == 0xD9 && h.as_bytes()[1] == 0xA1, "C12.cover.u8_arabic_indic_digit");
        cov!(s, h.len() == 3 && h.as_bytes()[0] == b'2' && h.as_bytes()[1] == b'5' && h.as_bytes()[2] == b'6' && r.is_err(), "C12.cover.u8_256");
    }
}

harness! {
    /// kind=bounded tier=quick bound="i8: every valid UTF-8 string<=4 bytes (all 256 values, '-0', '-128', '-129', '+', '--1', letters, non-ASCII)"
    #[kani::unwind(8)]
    fn c12_whole_i8(s) {
        let bs = BStr::<4>::any(s);
        let h = bs.as_str();
        check_whole::<i8, _>(s, h);
        let r = prim::parse_i8(h);
        cov!(s, r == Ok(-128), "C12.cover.i8_min");
        cov!(s, r == Ok(127), "C12.cover.i8_max");
        cov!(s, h.len() == 2 && h.as_bytes()[0] == b'-' && r == Ok(0), "C12.cover.i8_minus_zero");
        cov!(s, h.len() == 4 && h.as_bytes()[0] == b'-' && h.as_bytes()[3] == b'9' && h.as_bytes()[1] == b'1' && h.as_bytes()[2] == b'2' && r.is_err(), "C12.cover.i8_below_min");
        cov!(s, h.len() == 1 && h.as_bytes()[0] == b'-' && r.is_err(), "C12.cover.i8_lone_minus");
    }
}

harness! {
    /// kind=bounded tier=quick bound="u8/i8 prefix parsing: every valid UTF-8 string<=5 bytes (number followed by an arbitrary suffix)"
    #[kani::unwind(9)]
    fn c12_prefix_8(s) {
        let bs = BStr::<5>::any(s);
        let h = bs.as_str();
        let (nu, eu) = check_prefix::<u8, _>(s, h);
        let (ni, ei) = check_prefix::<i8, _>(s, h);
        cov!(s, nu == 3 && h.len() == 5 && eu.is_some() && h.as_bytes()[3] >= 0xC2, "C12.cover.prefix_u8_then_multibyte");
        cov!(s, nu == 3 && eu.is_none(), "C12.cover.prefix_u8_overflow");
        cov!(s, ni == 4 && ei == Some(-128) && h.len() == 5, "C12.cover.prefix_i8_min_then_suffix");
        cov!(s, ni == 1 && h.len() == 3, "C12.cover.prefix_i8_minus_without_digit");
        cov!(s, nu == 0 && h.len() > 0, "C12.cover.prefix_no_digit");
    }
}

// ---------------------------------------------------------------------------
// 16-bit types

harness! {
    /// kind=bounded tier=quick bound="u16: every valid UTF-8 string<=6 bytes (all 65536 values, one extra digit / leading zero, '+', letters, non-ASCII)"
    #[kani::unwind(10)]
    fn c12_whole_u16(s) {
        let bs = BStr::<6>::any(s);
        let h = bs.as_str();
        check_whole::<u16, _>(s, h);
        let r = prim::parse_u16(h);
        cov!(s, r == Ok(65535), "C12.cover.u16_max");
        cov!(s, h.len() == 6 && r == Ok(65535), "C12.cover.u16_max_leading_zero");
        cov!(s, h.len() == 5 && h.as_bytes()[0] == b'6' && h.as_bytes()[4] == b'6' && r.is_err() && h.as_bytes()[1] == b'5' && h.as_bytes()[2] == b'5' && h.as_bytes()[3] == b'3', "C12.cover.u16_65536");
    }
}

harness! {
    /// kind=bounded tier=quick bound="i16: every valid UTF-8 string<=6 bytes (all 65536 values, '-32768', '-32769', '-0', '+', letters, non-ASCII)"
    #[kani::unwind(10)]
    fn c12_whole_i16(s) {
        let bs = BStr::<6>::any(s);
        let h = bs.as_str();
        check_whole::<i16, _>(s, h);
        let r = prim::parse_i16(h);
        cov!(s, r == Ok(-32768), "C12.cover.i16_min");
        cov!(s, r == Ok(32767), "C12.cover.i16_max");
        cov!(s, h.len() == 6 && h.as_bytes()[0] == b'-' && h.as_bytes()[5] == b'9' && h.as_bytes()[1] == b'3' && h.as_bytes()[2] == b'2' && h.as_bytes()[3] == b'7' && h.as_bytes()[4] == b'6' && r.is_err(), "C12.cover.i16_below_min");
    }
}

harness! {
    /// kind=bounded tier=quick bound="u16 prefix parsing: [-+]?digits of <=m bytes continued by arbitrary ASCII, total<=7 bytes, m symbolic"
    #[kani::unwind(11)]
    fn c12_prefix_u16(s) {
        let (buf, len) = any_numeric::<7, _>(s, 0, true);
        let h = ascii_str(&buf[..len]);
        let (nu, eu) = check_prefix::<u16, _>(s, h);
        cov!(s, nu == 5 && eu == Some(65535) && len == 7, "C12.cover.prefix_u16_max_then_suffix");
        cov!(s, nu == 5 && eu.is_none() && len == 6, "C12.cover.prefix_u16_overflow");
        cov!(s, nu == 0 && len == 3 && buf[0] == b'-' && is_digit(buf[1]), "C12.cover.prefix_u16_minus_rejected");
    }
}

harness! {
    /// kind=bounded tier=quick bound="i16 prefix parsing: [-+]?digits of <=m bytes continued by arbitrary ASCII, total<=7 bytes, m symbolic"
    #[kani::unwind(11)]
    fn c12_prefix_i16(s) {
        let (buf, len) = any_numeric::<7, _>(s, 0, true);
        let h = ascii_str(&buf[..len]);
        let (ni, ei) = check_prefix::<i16, _>(s, h);
        cov!(s, ni == 6 && ei == Some(-32768) && len == 7, "C12.cover.prefix_i16_min_then_suffix");
        cov!(s, ni == 6 && ei.is_none(), "C12.cover.prefix_i16_below_min");
        cov!(s, ni == 0 && len == 2 && buf[0] == b'+', "C12.cover.prefix_i16_plus_rejected");
    }
}

// ---------------------------------------------------------------------------
// wider types.  Two families:
//  * c12_near_<T> (quick) / c12_near_<T>_deep (thorough): the leading digits of MAX (which MIN shares)
//    concrete, the last d digits symbolic, all 9 combinations of sign {none,'-','+'} and extra leading
//    digit {none,'0','1'}: every value within 10^d of MIN/MAX, leading zero, one extra digit, '+'.
//  * c12_wide_<T>[_extra]: sign in {none,'-','+'} and EVERY digit symbolic (k = digits of MAX, k+1 for
//    _extra).  Affordable for the unsigned types and i32; for i64/i128/isize the equivalence of konst's
//    unsigned accumulation with std's signed checked arithmetic over 19+ symbolic digits did not
//    finish in 40 min, so those types have the near/deep harnesses only.

/// sign (none, '-' or '+') followed by exactly `k` symbolic digits (`CAP >= k + 1`)
fn fixed_numeric<const CAP: usize, S: Src>(s: &mut S, k: usize) -> ([u8; CAP], usize) {
    let raw: [u8; CAP] = s.bytes();
    let sign = s.upto(2);
    let mut buf = [0u8; CAP];
    let off = if sign == 0 { 0 } else { 1 };
    if sign == 1 {
        buf[0] = b'-';
    } else if sign == 2 {
        buf[0] = b'+';
    }
    let mut i = 0;
    while i < k {
        s.assume(is_digit(raw[i]));
        buf[off + i] = raw[i];
        i += 1;
    }
    (buf, off + k)
}

/// one wide-type check; returns (string length, konst's result, the string's bytes)
fn wide<T: KInt, const CAP: usize, S: Src>(s: &mut S, k: usize) -> (usize, Option<T>, [u8; CAP]) {
    let (buf, len) = fixed_numeric::<CAP, _>(s, k);
    let h = ascii_str(&buf[..len]);
    check_whole::<T, _>(s, h);
    (len, T::whole(h), buf)
}

/// neighbourhood strings with a *concrete* layout (sign: 0 none, 1 '-', 2 '+'; lead: 0 none, else
/// that extra leading digit): the first `m.len() - d` digits of `m` (the decimal digits of the type's
/// MAX, which MIN shares up to the last digit), then `d` symbolic digits.  Returns the buffer, the
/// length, with one more symbolic ASCII byte stored behind the end (for prefix parsing).
fn near_str<const CAP: usize, S: Src>(s: &mut S, sign: usize, lead: u8, m: &[u8], d: usize) -> ([u8; CAP], usize) {
    let mut buf = [0u8; CAP];
    let mut n = 0;
    if sign == 1 {
        buf[n] = b'-';
        n += 1;
    } else if sign == 2 {
        buf[n] = b'+';
        n += 1;
    }
    if lead != 0 {
        buf[n] = lead;
        n += 1;
    }
    let mut i = 0;
    while i < m.len() - d {
        buf[n] = m[i];
        n += 1;
        i += 1;
    }
    let mut j = 0;
    while j < d {
        let b = s.u8();
        s.assume(is_digit(b));
        buf[n] = b;
        n += 1;
        j += 1;
    }
    let tail = s.u8();
    s.assume(tail < 0x80);
    buf[n] = tail;
    (buf, n)
}

fn near_one<T: KInt, const CAP: usize, S: Src>(s: &mut S, sign: usize, lead: u8, m: &[u8], d: usize) -> (usize, Option<T>, [u8; CAP]) {
    let (buf, n) = near_str::<CAP, S>(s, sign, lead, m, d);
    let h = ascii_str(&buf[..n]);
    check_whole::<T, _>(s, h);
    (n, T::whole(h), buf)
}

/// nine layouts (3 signs x {no extra digit, leading '0', leading '1'}), each explored with constant positions
fn near<T: KInt, const CAP: usize, S: Src>(s: &mut S, m: &[u8], d: usize) -> (usize, Option<T>, [u8; CAP]) {
    match s.upto(8) {
        0 => near_one::<T, CAP, S>(s, 0, 0, m, d),
        1 => near_one::<T, CAP, S>(s, 1, 0, m, d),
        2 => near_one::<T, CAP, S>(s, 2, 0, m, d),
        3 => near_one::<T, CAP, S>(s, 0, b'0', m, d),
        4 => near_one::<T, CAP, S>(s, 1, b'0', m, d),
        5 => near_one::<T, CAP, S>(s, 2, b'0', m, d),
        6 => near_one::<T, CAP, S>(s, 0, b'1', m, d),
        7 => near_one::<T, CAP, S>(s, 1, b'1', m, d),
        _ => near_one::<T, CAP, S>(s, 2, b'1', m, d),
    }
}

/// prefix parsing of a neighbourhood string (sign none or '-', no extra digit) continued by one symbolic
/// non-digit ASCII byte, so the extent of the number is known by construction
fn near_prefix<T: KInt, const CAP: usize, S: Src>(s: &mut S, m: &[u8], d: usize) -> (usize, Option<T>) {
    if s.bool() {
        let (buf, n) = near_str::<CAP, S>(s, 1, 0, m, d);
        s.assume(!is_digit(buf[n]));
        if T::SIGNED {
            check_prefix_at::<T, _>(s, ascii_str(&buf[..n + 1]), n, n - 1)
        } else {
            check_prefix_at::<T, _>(s, ascii_str(&buf[..n + 1]), 0, 0)
        }
    } else {
        let (buf, n) = near_str::<CAP, S>(s, 0, 0, m, d);
        s.assume(!is_digit(buf[n]));
        check_prefix_at::<T, _>(s, ascii_str(&buf[..n + 1]), n, n)
    }
}

harness! {
    /// kind=bounded tier=quick bound="u32: sign in {none,'-','+'}, optional extra leading '0' or '1', the first 7 digits of u32::MAX, 3 symbolic digits"
    #[kani::unwind(16)]
    fn c12_near_u32(s) {
        let (len, r, buf) = near::<u32, 14, _>(s, b"4294967295", 3);
        cov!(s, r == Some(u32::MAX) && len == 10, "C12.cover.u32_near_max");
        cov!(s, r == Some(u32::MAX) && len == 11, "C12.cover.u32_near_max_leading_zero");
        cov!(s, r == Some(u32::MAX - 2), "C12.cover.u32_near_max_minus_2");
        cov!(s, r.is_none() && len == 10 && buf[0] != b'+' && buf[0] != b'-' && buf[9] == b'6' && buf[8] == b'9' && buf[7] == b'2' && buf[6] == b'7', "C12.cover.u32_near_max_plus_1");
        cov!(s, r.is_none() && len == 11 && buf[0] == b'1', "C12.cover.u32_near_extra_digit");
        cov!(s, r.is_none() && buf[0] == b'+', "C12.cover.u32_near_plus_rejected");
        cov!(s, r.is_none() && buf[0] == b'-', "C12.cover.u32_near_minus_rejected");
    }
}

harness! {
    /// kind=bounded tier=quick bound="u32: sign in {none,'-','+'} followed by exactly 10 symbolic digits (u32::MAX has 10 digits)"
    #[kani::unwind(14)]
    fn c12_wide_u32(s) {
        let (len, r, buf) = wide::<u32, 13, _>(s, 10);
        cov!(s, r == Some(u32::MAX), "C12.cover.u32_max");
        cov!(s, r == Some(7), "C12.cover.u32_leading_zeros");
        cov!(s, r.is_none() && len == 10 && buf[0] == b'4' && buf[1] == b'2', "C12.cover.u32_overflow_near_max");
    }
}

harness! {
    /// kind=bounded tier=quick bound="u32: sign in {none,'-','+'} followed by exactly 11 symbolic digits (one more than u32::MAX has)"
    #[kani::unwind(15)]
    fn c12_wide_u32_extra(s) {
        let (len, r, buf) = wide::<u32, 13, _>(s, 11);
        cov!(s, r == Some(u32::MAX), "C12.cover.u32_max_leading_zero");
        cov!(s, r.is_none() && len == 11 && buf[0] == b'1', "C12.cover.u32_extra_digit_overflow");
    }
}

harness! {
    /// kind=bounded tier=quick bound="i32: sign in {none,'-','+'}, optional extra leading '0' or '1', the first 7 digits of i32::MAX, 3 symbolic digits"
    #[kani::unwind(16)]
    fn c12_near_i32(s) {
        let (len, r, buf) = near::<i32, 14, _>(s, b"2147483647", 3);
        cov!(s, r == Some(i32::MAX) && len == 10, "C12.cover.i32_near_max");
        cov!(s, r == Some(i32::MAX) && len == 11, "C12.cover.i32_near_max_leading_zero");
        cov!(s, r == Some(i32::MAX - 2), "C12.cover.i32_near_max_minus_2");
        cov!(s, r.is_none() && len == 10 && buf[0] != b'+' && buf[0] != b'-' && buf[9] == b'8' && buf[8] == b'4' && buf[7] == b'6' && buf[6] == b'3', "C12.cover.i32_near_max_plus_1");
        cov!(s, r.is_none() && len == 11 && buf[0] == b'1', "C12.cover.i32_near_extra_digit");
        cov!(s, r.is_none() && buf[0] == b'+', "C12.cover.i32_near_plus_rejected");
        cov!(s, r == Some(i32::MIN) && len == 11, "C12.cover.i32_near_min");
        cov!(s, r == Some(i32::MIN) && len == 12, "C12.cover.i32_near_min_leading_zero");
        cov!(s, r == Some(i32::MIN + 2), "C12.cover.i32_near_min_plus_2");
        cov!(s, r.is_none() && len == 11 && buf[0] == b'-' && buf[10] == b'9' && buf[9] == b'4' && buf[8] == b'6' && buf[7] == b'3', "C12.cover.i32_near_min_minus_1");
    }
}

harness! {
    /// kind=bounded tier=thorough bound="i32: sign in {none,'-','+'} followed by exactly 10 symbolic digits (i32::MAX has 10 digits)"
    #[kani::unwind(14)]
    fn c12_wide_i32(s) {
        let (len, r, buf) = wide::<i32, 13, _>(s, 10);
        cov!(s, r == Some(i32::MAX), "C12.cover.i32_max");
        cov!(s, r == Some(7), "C12.cover.i32_leading_zeros");
        cov!(s, r.is_none() && len == 10 && buf[0] == b'2' && buf[1] == b'1', "C12.cover.i32_overflow_near_max");
        cov!(s, r == Some(i32::MIN), "C12.cover.i32_min");
        cov!(s, r == Some(0) && buf[0] == b'-', "C12.cover.i32_minus_zero");
    }
}

harness! {
    /// kind=bounded tier=thorough bound="i32: sign in {none,'-','+'} followed by exactly 11 symbolic digits (one more than i32::MAX has)"
    #[kani::unwind(15)]
    fn c12_wide_i32_extra(s) {
        let (len, r, buf) = wide::<i32, 13, _>(s, 11);
        cov!(s, r == Some(i32::MAX), "C12.cover.i32_max_leading_zero");
        cov!(s, r.is_none() && len == 11 && buf[0] == b'1', "C12.cover.i32_extra_digit_overflow");
        cov!(s, r == Some(i32::MIN), "C12.cover.i32_min_leading_zero");
    }
}

harness! {
    /// kind=bounded tier=quick bound="u64: sign in {none,'-','+'}, optional extra leading '0' or '1', the first 17 digits of u64::MAX, 3 symbolic digits"
    #[kani::unwind(26)]
    fn c12_near_u64(s) {
        let (len, r, buf) = near::<u64, 24, _>(s, b"18446744073709551615", 3);
        cov!(s, r == Some(u64::MAX) && len == 20, "C12.cover.u64_near_max");
        cov!(s, r == Some(u64::MAX) && len == 21, "C12.cover.u64_near_max_leading_zero");
        cov!(s, r == Some(u64::MAX - 2), "C12.cover.u64_near_max_minus_2");
        cov!(s, r.is_none() && len == 20 && buf[0] != b'+' && buf[0] != b'-' && buf[19] == b'6' && buf[18] == b'1' && buf[17] == b'6' && buf[16] == b'1', "C12.cover.u64_near_max_plus_1");
        cov!(s, r.is_none() && len == 21 && buf[0] == b'1', "C12.cover.u64_near_extra_digit");
        cov!(s, r.is_none() && buf[0] == b'+', "C12.cover.u64_near_plus_rejected");
        cov!(s, r.is_none() && buf[0] == b'-', "C12.cover.u64_near_minus_rejected");
    }
}

harness! {
    /// kind=bounded tier=quick bound="u64: sign in {none,'-','+'} followed by exactly 20 symbolic digits (u64::MAX has 20 digits)"
    #[kani::unwind(24)]
    fn c12_wide_u64(s) {
        let (len, r, buf) = wide::<u64, 23, _>(s, 20);
        cov!(s, r == Some(u64::MAX), "C12.cover.u64_max");
        cov!(s, r == Some(7), "C12.cover.u64_leading_zeros");
        cov!(s, r.is_none() && len == 20 && buf[0] == b'1' && buf[1] == b'8', "C12.cover.u64_overflow_near_max");
    }
}

harness! {
    /// kind=bounded tier=quick bound="u64: sign in {none,'-','+'} followed by exactly 21 symbolic digits (one more than u64::MAX has)"
    #[kani::unwind(25)]
    fn c12_wide_u64_extra(s) {
        let (len, r, buf) = wide::<u64, 23, _>(s, 21);
        cov!(s, r == Some(u64::MAX), "C12.cover.u64_max_leading_zero");
        cov!(s, r.is_none() && len == 21 && buf[0] == b'1', "C12.cover.u64_extra_digit_overflow");
    }
}

harness! {
    /// kind=bounded tier=quick bound="i64: sign in {none,'-','+'}, optional extra leading '0' or '1', the first 16 digits of i64::MAX, 3 symbolic digits"
    #[kani::unwind(25)]
    fn c12_near_i64(s) {
        let (len, r, buf) = near::<i64, 23, _>(s, b"9223372036854775807", 3);
        cov!(s, r == Some(i64::MAX) && len == 19, "C12.cover.i64_near_max");
        cov!(s, r == Some(i64::MAX) && len == 20, "C12.cover.i64_near_max_leading_zero");
        cov!(s, r == Some(i64::MAX - 2), "C12.cover.i64_near_max_minus_2");
        cov!(s, r.is_none() && len == 19 && buf[0] != b'+' && buf[0] != b'-' && buf[18] == b'8' && buf[17] == b'0' && buf[16] == b'8' && buf[15] == b'5', "C12.cover.i64_near_max_plus_1");
        cov!(s, r.is_none() && len == 20 && buf[0] == b'1', "C12.cover.i64_near_extra_digit");
        cov!(s, r.is_none() && buf[0] == b'+', "C12.cover.i64_near_plus_rejected");
        cov!(s, r == Some(i64::MIN) && len == 20, "C12.cover.i64_near_min");
        cov!(s, r == Some(i64::MIN) && len == 21, "C12.cover.i64_near_min_leading_zero");
        cov!(s, r == Some(i64::MIN + 2), "C12.cover.i64_near_min_plus_2");
        cov!(s, r.is_none() && len == 20 && buf[0] == b'-' && buf[19] == b'9' && buf[18] == b'0' && buf[17] == b'8' && buf[16] == b'5', "C12.cover.i64_near_min_minus_1");
    }
}

harness! {
    /// kind=bounded tier=quick bound="u128: sign in {none,'-','+'}, optional extra leading '0' or '1', the first 36 digits of u128::MAX, 3 symbolic digits"
    #[kani::unwind(45)]
    fn c12_near_u128(s) {
        let (len, r, buf) = near::<u128, 43, _>(s, b"340282366920938463463374607431768211455", 3);
        cov!(s, r == Some(u128::MAX) && len == 39, "C12.cover.u128_near_max");
        cov!(s, r == Some(u128::MAX) && len == 40, "C12.cover.u128_near_max_leading_zero");
        cov!(s, r == Some(u128::MAX - 2), "C12.cover.u128_near_max_minus_2");
        cov!(s, r.is_none() && len == 39 && buf[0] != b'+' && buf[0] != b'-' && buf[38] == b'6' && buf[37] == b'5' && buf[36] == b'4' && buf[35] == b'1', "C12.cover.u128_near_max_plus_1");
        cov!(s, r.is_none() && len == 40 && buf[0] == b'1', "C12.cover.u128_near_extra_digit");
        cov!(s, r.is_none() && buf[0] == b'+', "C12.cover.u128_near_plus_rejected");
        cov!(s, r.is_none() && buf[0] == b'-', "C12.cover.u128_near_minus_rejected");
    }
}

harness! {
    /// kind=bounded tier=thorough bound="u128: sign in {none,'-','+'} followed by exactly 39 symbolic digits (u128::MAX has 39 digits)"
    #[kani::unwind(43)]
    fn c12_wide_u128(s) {
        let (len, r, buf) = wide::<u128, 42, _>(s, 39);
        cov!(s, r == Some(u128::MAX), "C12.cover.u128_max");
        cov!(s, r == Some(7), "C12.cover.u128_leading_zeros");
        cov!(s, r.is_none() && len == 39 && buf[0] == b'3' && buf[1] == b'4', "C12.cover.u128_overflow_near_max");
    }
}

harness! {
    /// kind=bounded tier=thorough bound="u128: sign in {none,'-','+'} followed by exactly 40 symbolic digits (one more than u128::MAX has)"
    #[kani::unwind(44)]
    fn c12_wide_u128_extra(s) {
        let (len, r, buf) = wide::<u128, 42, _>(s, 40);
        cov!(s, r == Some(u128::MAX), "C12.cover.u128_max_leading_zero");
        cov!(s, r.is_none() && len == 40 && buf[0] == b'1', "C12.cover.u128_extra_digit_overflow");
    }
}

harness! {
    /// kind=bounded tier=quick bound="i128: sign in {none,'-','+'}, optional extra leading '0' or '1', the first 36 digits of i128::MAX, 3 symbolic digits"
    #[kani::unwind(45)]
    fn c12_near_i128(s) {
        let (len, r, buf) = near::<i128, 43, _>(s, b"170141183460469231731687303715884105727", 3);
        cov!(s, r == Some(i128::MAX) && len == 39, "C12.cover.i128_near_max");
        cov!(s, r == Some(i128::MAX) && len == 40, "C12.cover.i128_near_max_leading_zero");
        cov!(s, r == Some(i128::MAX - 2), "C12.cover.i128_near_max_minus_2");
        cov!(s, r.is_none() && len == 39 && buf[0] != b'+' && buf[0] != b'-' && buf[38] == b'8' && buf[37] == b'2' && buf[36] == b'7' && buf[35] == b'5', "C12.cover.i128_near_max_plus_1");
        cov!(s, r.is_none() && len == 40 && buf[0] == b'1', "C12.cover.i128_near_extra_digit");
        cov!(s, r.is_none() && buf[0] == b'+', "C12.cover.i128_near_plus_rejected");
        cov!(s, r == Some(i128::MIN) && len == 40, "C12.cover.i128_near_min");
        cov!(s, r == Some(i128::MIN) && len == 41, "C12.cover.i128_near_min_leading_zero");
        cov!(s, r == Some(i128::MIN + 2), "C12.cover.i128_near_min_plus_2");
        cov!(s, r.is_none() && len == 40 && buf[0] == b'-' && buf[39] == b'9' && buf[38] == b'2' && buf[37] == b'7' && buf[36] == b'5', "C12.cover.i128_near_min_minus_1");
    }
}

harness! {
    /// kind=bounded tier=quick bound="usize: sign in {none,'-','+'}, optional extra leading '0' or '1', the first 17 digits of usize::MAX, 3 symbolic digits"
    #[kani::unwind(26)]
    fn c12_near_usize(s) {
        let (len, r, buf) = near::<usize, 24, _>(s, b"18446744073709551615", 3);
        cov!(s, r == Some(usize::MAX) && len == 20, "C12.cover.usize_near_max");
        cov!(s, r == Some(usize::MAX) && len == 21, "C12.cover.usize_near_max_leading_zero");
        cov!(s, r == Some(usize::MAX - 2), "C12.cover.usize_near_max_minus_2");
        cov!(s, r.is_none() && len == 20 && buf[0] != b'+' && buf[0] != b'-' && buf[19] == b'6' && buf[18] == b'1' && buf[17] == b'6' && buf[16] == b'1', "C12.cover.usize_near_max_plus_1");
        cov!(s, r.is_none() && len == 21 && buf[0] == b'1', "C12.cover.usize_near_extra_digit");
        cov!(s, r.is_none() && buf[0] == b'+', "C12.cover.usize_near_plus_rejected");
        cov!(s, r.is_none() && buf[0] == b'-', "C12.cover.usize_near_minus_rejected");
    }
}

harness! {
    /// kind=bounded tier=quick bound="usize: sign in {none,'-','+'} followed by exactly 20 symbolic digits (usize::MAX has 20 digits)"
    #[kani::unwind(24)]
    fn c12_wide_usize(s) {
        let (len, r, buf) = wide::<usize, 23, _>(s, 20);
        cov!(s, r == Some(usize::MAX), "C12.cover.usize_max");
        cov!(s, r == Some(7), "C12.cover.usize_leading_zeros");
        cov!(s, r.is_none() && len == 20 && buf[0] == b'1' && buf[1] == b'8', "C12.cover.usize_overflow_near_max");
    }
}

harness! {
    /// kind=bounded tier=quick bound="usize: sign in {none,'-','+'} followed by exactly 21 symbolic digits (one more than usize::MAX has)"
    #[kani::unwind(25)]
    fn c12_wide_usize_extra(s) {
        let (len, r, buf) = wide::<usize, 23, _>(s, 21);
        cov!(s, r == Some(usize::MAX), "C12.cover.usize_max_leading_zero");
        cov!(s, r.is_none() && len == 21 && buf[0] == b'1', "C12.cover.usize_extra_digit_overflow");
    }
}

harness! {
    /// kind=bounded tier=quick bound="isize: sign in {none,'-','+'}, optional extra leading '0' or '1', the first 16 digits of isize::MAX, 3 symbolic digits"
    #[kani::unwind(25)]
    fn c12_near_isize(s) {
        let (len, r, buf) = near::<isize, 23, _>(s, b"9223372036854775807", 3);
        cov!(s, r == Some(isize::MAX) && len == 19, "C12.cover.isize_near_max");
        cov!(s, r == Some(isize::MAX) && len == 20, "C12.cover.isize_near_max_leading_zero");
        cov!(s, r == Some(isize::MAX - 2), "C12.cover.isize_near_max_minus_2");
        cov!(s, r.is_none() && len == 19 && buf[0] != b'+' && buf[0] != b'-' && buf[18] == b'8' && buf[17] == b'0' && buf[16] == b'8' && buf[15] == b'5', "C12.cover.isize_near_max_plus_1");
        cov!(s, r.is_none() && len == 20 && buf[0] == b'1', "C12.cover.isize_near_extra_digit");
        cov!(s, r.is_none() && buf[0] == b'+', "C12.cover.isize_near_plus_rejected");
        cov!(s, r == Some(isize::MIN) && len == 20, "C12.cover.isize_near_min");
        cov!(s, r == Some(isize::MIN) && len == 21, "C12.cover.isize_near_min_leading_zero");
        cov!(s, r == Some(isize::MIN + 2), "C12.cover.isize_near_min_plus_2");
        cov!(s, r.is_none() && len == 20 && buf[0] == b'-' && buf[19] == b'9' && buf[18] == b'0' && buf[17] == b'8' && buf[16] == b'5', "C12.cover.isize_near_min_minus_1");
    }
}

harness! {
    /// kind=bounded tier=quick bound="u32 prefix parsing: sign none or '-', the first 7 digits of u32::MAX, 3 symbolic digits, then one symbolic non-digit ASCII byte"
    #[kani::unwind(16)]
    fn c12_prefix_near_u32(s) {
        let (n, e) = near_prefix::<u32, 14, _>(s, b"4294967295", 3);
        cov!(s, n == 10 && e == Some(u32::MAX), "C12.cover.prefix_u32_max_then_byte");
        cov!(s, n == 10 && e.is_none(), "C12.cover.prefix_u32_overflow");
        cov!(s, n == 0, "C12.cover.prefix_u32_minus_rejected");
    }
}

harness! {
    /// kind=bounded tier=quick bound="i32 prefix parsing: sign none or '-', the first 7 digits of i32::MAX, 3 symbolic digits, then one symbolic non-digit ASCII byte"
    #[kani::unwind(16)]
    fn c12_prefix_near_i32(s) {
        let (n, e) = near_prefix::<i32, 14, _>(s, b"2147483647", 3);
        cov!(s, n == 10 && e == Some(i32::MAX), "C12.cover.prefix_i32_max_then_byte");
        cov!(s, n == 10 && e.is_none(), "C12.cover.prefix_i32_overflow");
        cov!(s, n == 11 && e == Some(i32::MIN), "C12.cover.prefix_i32_min_then_byte");
        cov!(s, n == 11 && e.is_none(), "C12.cover.prefix_i32_below_min");
    }
}

harness! {
    /// kind=bounded tier=quick bound="u64 prefix parsing: sign none or '-', the first 17 digits of u64::MAX, 3 symbolic digits, then one symbolic non-digit ASCII byte"
    #[kani::unwind(26)]
    fn c12_prefix_near_u64(s) {
        let (n, e) = near_prefix::<u64, 24, _>(s, b"18446744073709551615", 3);
        cov!(s, n == 20 && e == Some(u64::MAX), "C12.cover.prefix_u64_max_then_byte");
        cov!(s, n == 20 && e.is_none(), "C12.cover.prefix_u64_overflow");
        cov!(s, n == 0, "C12.cover.prefix_u64_minus_rejected");
    }
}

harness! {
    /// kind=bounded tier=quick bound="i64 prefix parsing: sign none or '-', the first 16 digits of i64::MAX, 3 symbolic digits, then one symbolic non-digit ASCII byte"
    #[kani::unwind(25)]
    fn c12_prefix_near_i64(s) {
        let (n, e) = near_prefix::<i64, 23, _>(s, b"9223372036854775807", 3);
        cov!(s, n == 19 && e == Some(i64::MAX), "C12.cover.prefix_i64_max_then_byte");
        cov!(s, n == 19 && e.is_none(), "C12.cover.prefix_i64_overflow");
        cov!(s, n == 20 && e == Some(i64::MIN), "C12.cover.prefix_i64_min_then_byte");
        cov!(s, n == 20 && e.is_none(), "C12.cover.prefix_i64_below_min");
    }
}

harness! {
    /// kind=bounded tier=quick bound="u128 prefix parsing: sign none or '-', the first 36 digits of u128::MAX, 3 symbolic digits, then one symbolic non-digit ASCII byte"
    #[kani::unwind(45)]
    fn c12_prefix_near_u128(s) {
        let (n, e) = near_prefix::<u128, 43, _>(s, b"340282366920938463463374607431768211455", 3);
        cov!(s, n == 39 && e == Some(u128::MAX), "C12.cover.prefix_u128_max_then_byte");
        cov!(s, n == 39 && e.is_none(), "C12.cover.prefix_u128_overflow");
        cov!(s, n == 0, "C12.cover.prefix_u128_minus_rejected");
    }
}

harness! {
    /// kind=bounded tier=quick bound="i128 prefix parsing: sign none or '-', the first 36 digits of i128::MAX, 3 symbolic digits, then one symbolic non-digit ASCII byte"
    #[kani::unwind(45)]
    fn c12_prefix_near_i128(s) {
        let (n, e) = near_prefix::<i128, 43, _>(s, b"170141183460469231731687303715884105727", 3);
        cov!(s, n == 39 && e == Some(i128::MAX), "C12.cover.prefix_i128_max_then_byte");
        cov!(s, n == 39 && e.is_none(), "C12.cover.prefix_i128_overflow");
        cov!(s, n == 40 && e == Some(i128::MIN), "C12.cover.prefix_i128_min_then_byte");
        cov!(s, n == 40 && e.is_none(), "C12.cover.prefix_i128_below_min");
    }
}

harness! {
    /// kind=bounded tier=quick bound="usize prefix parsing: sign none or '-', the first 17 digits of usize::MAX, 3 symbolic digits, then one symbolic non-digit ASCII byte"
    #[kani::unwind(26)]
    fn c12_prefix_near_usize(s) {
        let (n, e) = near_prefix::<usize, 24, _>(s, b"18446744073709551615", 3);
        cov!(s, n == 20 && e == Some(usize::MAX), "C12.cover.prefix_usize_max_then_byte");
        cov!(s, n == 20 && e.is_none(), "C12.cover.prefix_usize_overflow");
        cov!(s, n == 0, "C12.cover.prefix_usize_minus_rejected");
    }
}

harness! {
    /// kind=bounded tier=quick bound="isize prefix parsing: sign none or '-', the first 16 digits of isize::MAX, 3 symbolic digits, then one symbolic non-digit ASCII byte"
    #[kani::unwind(25)]
    fn c12_prefix_near_isize(s) {
        let (n, e) = near_prefix::<isize, 23, _>(s, b"9223372036854775807", 3);
        cov!(s, n == 19 && e == Some(isize::MAX), "C12.cover.prefix_isize_max_then_byte");
        cov!(s, n == 19 && e.is_none(), "C12.cover.prefix_isize_overflow");
        cov!(s, n == 20 && e == Some(isize::MIN), "C12.cover.prefix_isize_min_then_byte");
        cov!(s, n == 20 && e.is_none(), "C12.cover.prefix_isize_below_min");
    }
}

harness! {
    /// kind=bounded tier=thorough bound="i64: sign in {none,'-','+'}, optional extra leading '0' or '1', the first 11 digits of i64::MAX, 8 symbolic digits (all-symbolic 19-digit strings are out of reach for the signed 64/128-bit types: >40 min)"
    #[kani::unwind(25)]
    fn c12_near_i64_deep(s) {
        let (len, r, buf) = near::<i64, 23, _>(s, b"9223372036854775807", 8);
        cov!(s, r == Some(i64::MAX), "C12.cover.i64_deep_max");
        cov!(s, r == Some(i64::MIN), "C12.cover.i64_deep_min");
        cov!(s, r.is_none() && len == 20 && buf[0] == b'-', "C12.cover.i64_deep_below_min");
    }
}

harness! {
    /// kind=bounded tier=quick bound="i128 at the MAX of its unsigned twin (the accumulator type): sign in {none,'-','+'}, optional extra leading '0' or '1', the first 36 digits of u128::MAX, 3 symbolic digits; every such string must be rejected like str::parse does"
    #[kani::unwind(45)]
    fn c12_near_i128_twin_max(s) {
        let (len, r, buf) = near::<i128, 43, _>(s, b"340282366920938463463374607431768211455", 3);
        cov!(s, r.is_none() && len == 39 && buf[38] == b'1' && buf[37] == b'6' && buf[36] == b'4', "C12.cover.i128_twin_max_plus_6_rejected");
        cov!(s, r.is_none() && len == 40 && buf[0] == b'-', "C12.cover.i128_twin_max_negative_rejected");
    }
}

harness! {
    /// kind=bounded tier=thorough bound="i128: sign in {none,'-','+'}, optional extra leading '0' or '1', the first 31 digits of i128::MAX, 8 symbolic digits (all-symbolic 39-digit strings are out of reach for the signed 64/128-bit types: >40 min)"
    #[kani::unwind(45)]
    fn c12_near_i128_deep(s) {
        let (len, r, buf) = near::<i128, 43, _>(s, b"170141183460469231731687303715884105727", 8);
        cov!(s, r == Some(i128::MAX), "C12.cover.i128_deep_max");
        cov!(s, r == Some(i128::MIN), "C12.cover.i128_deep_min");
        cov!(s, r.is_none() && len == 40 && buf[0] == b'-', "C12.cover.i128_deep_below_min");
    }
}

harness! {
    /// kind=bounded tier=thorough bound="isize: sign in {none,'-','+'}, optional extra leading '0' or '1', the first 11 digits of isize::MAX, 8 symbolic digits (all-symbolic 19-digit strings are out of reach for the signed 64/128-bit types: >40 min)"
    #[kani::unwind(25)]
    fn c12_near_isize_deep(s) {
        let (len, r, buf) = near::<isize, 23, _>(s, b"9223372036854775807", 8);
        cov!(s, r == Some(isize::MAX), "C12.cover.isize_deep_max");
        cov!(s, r == Some(isize::MIN), "C12.cover.isize_deep_min");
        cov!(s, r.is_none() && len == 20 && buf[0] == b'-', "C12.cover.isize_deep_below_min");
    }
}

harness! {
    /// kind=bounded tier=thorough bound="i32: every string [-+]?[0-9]* of <=12 bytes, length symbolic (i32::MIN has sign + 10 digits)"
    #[kani::unwind(16)]
    fn c12_anylen_i32(s) {
        let (buf, len) = any_numeric::<12, _>(s, 0, false);
        let h = ascii_str(&buf[..len]);
        check_whole::<i32, _>(s, h);
        let r = prim::parse_i32(h);
        cov!(s, r == Ok(i32::MIN) && len == 11, "C12.cover.i32_anylen_min");
        cov!(s, r == Ok(i32::MIN) && len == 12, "C12.cover.i32_anylen_min_leading_zero");
        cov!(s, r == Ok(i32::MAX), "C12.cover.i32_anylen_max");
        cov!(s, len == 0, "C12.cover.i32_anylen_empty");
    }
}

// ---------------------------------------------------------------------------
// bool

harness! {
    /// kind=bounded tier=quick bound="bool: every valid UTF-8 string<=6 bytes (whole string), <=7 bytes (prefix parsing)"
    #[kani::unwind(10)]
    fn c12_bool(s) {
        let bs = BStr::<7>::any(s);
        let h = bs.as_str();
        let hb = h.as_bytes();
        let t = ref_occurs_at(hb, b"true", 0);
        let f = ref_occurs_at(hb, b"false", 0);
        // prefix semantics of Parser::parse_bool
        match Parser::new(h).parse_bool() {
            Ok((v, p)) => {
                chk!(s, t || f, "C12.parser_parse_bool.err_unless_true_or_false_prefix");
                chk!(s, v == t, "C12.parser_parse_bool.value");
                chk!(s, is_subslice_at(hb, p.remainder().as_bytes(), if t { 4 } else { 5 }, hb.len()), "C12.parser_parse_bool.remainder_is_unconsumed_rest");
            }
            Err(e) => {
                chk!(s, !t && !f, "C12.parser_parse_bool.ok_on_true_or_false_prefix");
                chk!(s, e.offset() == 0, "C12.parser_parse_bool.error_at_start_nothing_consumed");
            }
        }
        // whole-string semantics == str::parse::<bool>
        if hb.len() <= 6 {
            let k = prim::parse_bool(h);
            let e = h.parse::<bool>();
            chk!(s, k.is_ok() == e.is_ok(), "C12.primitive_parse_bool.ok_iff_std_ok");
            chk!(s, match (k, e) { (Ok(a), Ok(b)) => a == b, _ => true }, "C12.primitive_parse_bool.same_value_as_std");
        }
        cov!(s, f && hb.len() == 7 && hb[5] >= 0xC2, "C12.cover.bool_false_then_multibyte");
        cov!(s, t && hb.len() == 4 && prim::parse_bool(h) == Ok(true), "C12.cover.bool_true_whole");
        cov!(s, f && hb.len() == 5 && prim::parse_bool(h) == Ok(false), "C12.cover.bool_false_whole");
        cov!(s, t && hb.len() == 5 && prim::parse_bool(h).is_err(), "C12.cover.bool_true_with_trailing_byte_rejected");
        cov!(s, hb.len() == 4 && hb[0] == b'T' && hb[1] == b'r', "C12.cover.bool_capitalised");
    }
}

// ---------------------------------------------------------------------------
// HasParser / StdParser (parsing/get_parser.rs) delegate to the Parser methods

fn check_delegation<T: KInt, S: Src>(s: &mut S, h: &str) {
    let a = T::prefix(Parser::new(h));
    let b = T::via_has_parser(Parser::new(h));
    chk!(s, match (a, b) {
        (Ok((x, p)), Ok((y, q))) => x == y && same_str(p.remainder(), q.remainder()) && p.start_offset() == q.start_offset(),
        (Err(e), Err(f)) => e.offset() == f.offset(),
        _ => false,
    }, "C12.std_parser.parse_with_is_the_parser_method");
}

harness! {
    /// kind=bounded tier=quick bound="StdParser::<T>::parse_with, T in {u8,i8,u16,i16,bool}: every valid UTF-8 string<=5 bytes"
    #[kani::unwind(9)]
    fn c12_has_parser_small(s) {
        let bs = BStr::<5>::any(s);
        let h = bs.as_str();
        match s.upto(4) {
            0 => check_delegation::<u8, _>(s, h),
            1 => check_delegation::<i8, _>(s, h),
            2 => check_delegation::<u16, _>(s, h),
            3 => check_delegation::<i16, _>(s, h),
            _ => {
                let a = Parser::new(h).parse_bool();
                let b = <<bool as HasParser>::Parser>::parse_with(Parser::new(h));
                chk!(s, match (a, b) {
                    (Ok((x, p)), Ok((y, q))) => x == y && same_str(p.remainder(), q.remainder()),
                    (Err(e), Err(f)) => e.offset() == f.offset(),
                    _ => false,
                }, "C12.std_parser.parse_with_is_parse_bool");
            }
        }
        cov!(s, h.len() == 3 && Parser::new(h).parse_i8().is_ok(), "C12.cover.has_parser_small_ok");
        cov!(s, h.len() == 3 && Parser::new(h).parse_u8().is_err(), "C12.cover.has_parser_small_err");
        cov!(s, h.len() == 5 && Parser::new(h).parse_bool().is_ok(), "C12.cover.has_parser_bool_ok");
    }
}

harness! {
    /// kind=bounded tier=quick bound="StdParser::<T>::parse_with, T in {u32,i32,u64,i64}: every valid UTF-8 string<=3 bytes"
    #[kani::unwind(7)]
    fn c12_has_parser_mid(s) {
        let bs = BStr::<3>::any(s);
        let h = bs.as_str();
        match s.upto(3) {
            0 => check_delegation::<u32, _>(s, h),
            1 => check_delegation::<i32, _>(s, h),
            2 => check_delegation::<u64, _>(s, h),
            _ => check_delegation::<i64, _>(s, h),
        }
        cov!(s, h.len() == 3 && Parser::new(h).parse_i32().is_ok(), "C12.cover.has_parser_mid_ok");
        cov!(s, h.len() == 3 && Parser::new(h).parse_u32().is_err(), "C12.cover.has_parser_mid_err");
    }
}

harness! {
    /// kind=bounded tier=quick bound="StdParser::<T>::parse_with, T in {u128,i128,usize,isize}: every valid UTF-8 string<=3 bytes"
    #[kani::unwind(7)]
    fn c12_has_parser_big(s) {
        let bs = BStr::<3>::any(s);
        let h = bs.as_str();
        match s.upto(3) {
            0 => check_delegation::<u128, _>(s, h),
            1 => check_delegation::<i128, _>(s, h),
            2 => check_delegation::<usize, _>(s, h),
            _ => check_delegation::<isize, _>(s, h),
        }
        cov!(s, h.len() == 3 && Parser::new(h).parse_i128().is_ok(), "C12.cover.has_parser_big_ok");
        cov!(s, h.len() == 3 && Parser::new(h).parse_u128().is_err(), "C12.cover.has_parser_big_err");
    }
}

// ---------------------------------------------------------------------------
// (kept at the end of the file: the runner's template discovery scans forward from every `macro_rules!`)
macro_rules! c12_impl_kint {
    ($($t:ty, $signed:literal, $f:ident;)*) => {$(
        impl KInt for $t {
            const SIGNED: bool = $signed;
            fn whole(s: &str) -> Option<Self> {
                match prim::$f(s) { Ok(v) => Some(v), Err(_) => None }
            }
            fn prefix<'a>(p: Parser<'a>) -> Result<(Self, Parser<'a>), ParseError<'a>> {
                p.$f()
            }
            fn via_has_parser<'a>(p: Parser<'a>) -> Result<(Self, Parser<'a>), ParseError<'a>> {
                <<$t as HasParser>::Parser>::parse_with(p)
            }
        }
    )*};
}
c12_impl_kint! {
    u8, false, parse_u8; i8, true, parse_i8;
    u16, false, parse_u16; i16, true, parse_i16;
    u32, false, parse_u32; i32, true, parse_i32;
    u64, false, parse_u64; i64, true, parse_i64;
    u128, false, parse_u128; i128, true, parse_i128;
    usize, false, parse_usize; isize, true, parse_isize;
}
