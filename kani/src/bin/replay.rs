//! Native replay of a recorded Kani counterexample:
//!   replay <harness> <v0>/<v1>/...   (each value: comma-separated bytes, little endian)
//! Prints one line `REPLAY harness=<h> outcome=<ok|failed|panicked|assumption-violated|exhausted> failed=<names>`.
#[cfg(kani)]
fn main() {}

#[cfg(not(kani))]
use kh::hlib::{AssumeViolated, VecSrc};

#[cfg(not(kani))]
fn main() {
    let args: Vec<String> = std::env::args().collect();
    if args.len() < 2 {
        eprintln!("usage: replay <harness> [values]");
        std::process::exit(2);
    }
    let name = &args[1];
    let vals: Vec<Vec<u8>> = if args.len() > 2 && !args[2].is_empty() {
        args[2]
            .split('/')
            .map(|v| {
                if v.is_empty() {
                    Vec::new()
                } else {
                    v.split(',').map(|b| b.trim().parse::<u8>().expect("byte")).collect()
                }
            })
            .collect()
    } else {
        Vec::new()
    };
    let f = match kh::registry::REG.iter().find(|(n, _)| n == name) {
        Some((_, f)) => *f,
        None => {
            println!("REPLAY harness={} outcome=unknown-harness failed=", name);
            std::process::exit(2);
        }
    };
    let mut src = VecSrc::new(vals);
    std::panic::set_hook(Box::new(|_| {}));
    let r = std::panic::catch_unwind(std::panic::AssertUnwindSafe(|| f(&mut src)));
    let mut outcome = "ok";
    let mut panic_msg = String::new();
    match r {
        Ok(()) => {}
        Err(e) => {
            if e.downcast_ref::<AssumeViolated>().is_some() {
                outcome = "assumption-violated";
            } else {
                outcome = "panicked";
                if let Some(s) = e.downcast_ref::<&str>() {
                    panic_msg = s.to_string();
                } else if let Some(s) = e.downcast_ref::<String>() {
                    panic_msg = s.clone();
                }
            }
        }
    }
    if src.assumption_violated {
        outcome = "assumption-violated";
    } else if src.exhausted && outcome == "ok" && src.failed.is_empty() {
        outcome = "exhausted";
    } else if !src.failed.is_empty() && outcome == "ok" {
        outcome = "failed";
    }
    println!(
        "REPLAY harness={} outcome={} failed={} panic={:?}",
        name,
        outcome,
        src.failed.join(","),
        panic_msg
    );
    std::process::exit(if outcome == "ok" { 0 } else { 1 });
}
