//! C01 — safe API never triggers UB: the remaining `unsafe` sites not reached by the other
//! modules' harnesses (layout-transparent casts and pointer/NonNull helpers).  Loop-free, full
//! domain of the scalar inputs: `kind=complete`.  Kani's pointer/validity checks are the obligations.
#![allow(deprecated)]
use crate::hlib::*;
use core::mem::{ManuallyDrop, MaybeUninit};

harness! {
    /// kind=complete tier=quick bound="none: every u64 payload"
    fn c01_manually_drop_casts(s) {
        let v = s.u64();
        let mut md = ManuallyDrop::new(v);
        let r: &u64 = konst::manually_drop::as_inner(&md);
        chk!(s, *r == v && core::ptr::eq(r, &*md), "C01.manually_drop.as_inner.same_place_and_value");
        let w = s.u64();
        {
            let m: &mut u64 = konst::manually_drop::as_inner_mut(&mut md);
            *m = w;
        }
        chk!(s, *md == w, "C01.manually_drop.as_inner_mut.writes_through");
        cov!(s, v != w, "C01.cover.md_changed");
    }
}

harness! {
    /// kind=complete tier=quick bound="none: every u32 payload"
    fn c01_maybe_uninit_write(s) {
        let v = s.u32();
        let mut mu: MaybeUninit<u32> = MaybeUninit::uninit();
        let base = mu.as_ptr() as usize;
        let r: &mut u32 = konst::maybe_uninit::write(&mut mu, v);
        chk!(s, *r == v && (r as *mut u32 as usize) == base, "C01.maybe_uninit.write.initialised_in_place");
        let back = unsafe { mu.assume_init() };
        chk!(s, back == v, "C01.maybe_uninit.write.value_readable");
        cov!(s, v == 7, "C01.cover.mu_value");
    }
}

harness! {
    /// kind=complete tier=quick bound="none: pointer null or to a live u16 (symbolic choice)"
    fn c01_ptr_helpers(s) {
        let mut x: u16 = s.u16();
        let use_null = s.bool();
        let p: *const u16 = if use_null { core::ptr::null() } else { &x };
        chk!(s, konst::ptr::is_null(p) == p.is_null(), "C01.ptr.is_null.eq_std");
        let pm: *mut u16 = if use_null { core::ptr::null_mut() } else { &mut x };
        let nn = konst::ptr::nonnull::new(pm);
        chk!(s, nn.is_some() == !use_null, "C01.ptr.nonnull_new.some_iff_nonnull");
        chk!(s, match nn { Some(n) => n.as_ptr() == pm, None => true }, "C01.ptr.nonnull_new.same_address");
        let fr = konst::ptr::nonnull::from_ref(&x);
        chk!(s, fr.as_ptr() as *const u16 == &x as *const u16, "C01.ptr.nonnull_from_ref.same_address");
        let fm = konst::ptr::nonnull::from_mut(&mut x);
        chk!(s, unsafe { *fm.as_ptr() } == x, "C01.ptr.nonnull_from_mut.points_to_value");
        cov!(s, use_null, "C01.cover.null");
        cov!(s, !use_null, "C01.cover.nonnull");
    }
}

/// `string_to_char` ends in `from_u32_unchecked`: every char the string iterators hand out must be a Unicode scalar
/// value (anything else is an invalid `char`, which is UB in safe code).
fn is_scalar(c: char) -> bool {
    let n = c as u32;
    n < 0xD800 || (n >= 0xE000 && n <= 0x10FFFF)
}

harness! {
    /// kind=bounded tier=quick bound="valid UTF-8 string<=5 bytes, every front/back history of 4 steps of Chars and CharIndices"
    #[kani::unwind(8)]
    fn c01_string_iterators_yield_valid_chars(s) {
        let bs = BStr::<5>::any(s);
        let h = bs.as_str();
        let mut k = konst::string::chars(h);
        let mut ki = konst::string::char_indices(h);
        let mut yielded = 0usize;
        let mut i = 0;
        while i < 4 {
            let front = s.bool();
            let r = if front { k.copy().next() } else { k.copy().next_back() };
            if let Some((c, n)) = r {
                k = n;
                chk!(s, is_scalar(c), "C01.string.chars.item_is_unicode_scalar_value");
                yielded += 1;
            }
            let r = if front { ki.copy().next() } else { ki.copy().next_back() };
            if let Some(((o, c), n)) = r {
                ki = n;
                chk!(s, is_scalar(c) && o < h.len(), "C01.string.char_indices.item_is_unicode_scalar_value_in_range");
            }
            i += 1;
        }
        cov!(s, yielded == 4, "C01.cover.chars_four_items");
        cov!(s, yielded == 1 && h.len() == 4, "C01.cover.chars_one_four_byte_char");
    }
}
