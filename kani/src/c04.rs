//! C04 — pattern search finds the same first / last occurrence as std.
//! Reference = naive first/last occurrence (`hlib::ref_find/ref_rfind`), which is
//! what `str::find`/`rfind` compute; tied to the real std in `c04_spec_find_vs_std` / `c04_spec_rfind_vs_std`.
use crate::hlib::*;
use konst::{slice, string};


macro_rules! t_c04_bytes_find {
    ($name:ident, $h:literal, $n:literal, $u:literal) => {
        harness! {
            /// kind=bounded tier=quick bound="hay<=4 bytes, needle<=3 bytes (non-empty for reverse search), all byte values"
            #[kani::unwind($u)]
            fn $name(s) {
                let h: [u8; $h] = s.bytes();
                let n: [u8; $n] = s.bytes();
                let hl = s.upto($h);
                let nl = s.upto($n);
                let (hay, nee) = (&h[..hl], &n[..nl]);
                let r = slice::bytes_find(hay, nee);
                let e = ref_find(hay, nee);
                chk!(s, r == e, "C04.bytes_find.first_occurrence");
                chk!(s, nl != 0 || r == Some(0), "C04.bytes_find.empty_pattern_matches_at_0");
                chk!(s, slice::bytes_contain(hay, nee) == e.is_some(), "C04.bytes_contain.iff_occurs");
                cov!(s, nl == 3 && e == Some(1), "C04.cover.found_at_1");
                cov!(s, nl > 0 && e.is_none(), "C04.cover.absent");
            }
        }
    };
}
t_c04_bytes_find! {c04_bytes_find, 4, 3, 15}
t_c04_bytes_find! {c04_bytes_find_big, 6, 3, 22} //  bound="hay<=6 bytes, needle<=3 bytes, all byte values" tier=quick

macro_rules! t_c04_bytes_rfind {
    ($name:ident, $h:literal, $n:literal, $u:literal) => {
        harness! {
            /// kind=bounded tier=quick bound="hay<=4 bytes, needle<=3 bytes (non-empty for reverse search), all byte values"
            #[kani::unwind($u)]
            fn $name(s) {
                let h: [u8; $h] = s.bytes();
                let n: [u8; $n] = s.bytes();
                let hl = s.upto($h);
                let nl = s.upto($n);
                s.assume(nl > 0);
                let (hay, nee) = (&h[..hl], &n[..nl]);
                let r = slice::bytes_rfind(hay, nee);
                let e = ref_rfind(hay, nee);
                chk!(s, r == e, "C04.bytes_rfind.last_occurrence");
                chk!(s, slice::bytes_rcontain(hay, nee) == e.is_some(), "C04.bytes_rcontain.iff_occurs");
                cov!(s, nl == 3 && e == Some(1), "C04.cover.rfound_at_1");
            }
        }
    };
}
t_c04_bytes_rfind! {c04_bytes_rfind, 4, 3, 15}
t_c04_bytes_rfind! {c04_bytes_rfind_big, 6, 3, 22} // tier=thorough bound="hay<=6 bytes, needle<=3 bytes, all byte values"

macro_rules! t_c04_bytes_find_skip_keep {
    ($name:ident, $h:literal, $n:literal, $u:literal) => {
        harness! {
            /// kind=bounded tier=quick bound="hay<=4 bytes, needle<=3 bytes (non-empty for reverse search), all byte values"
            #[kani::unwind($u)]
            fn $name(s) {
                let h: [u8; $h] = s.bytes();
                let n: [u8; $n] = s.bytes();
                let hl = s.upto($h);
                let nl = s.upto($n);
                let (hay, nee) = (&h[..hl], &n[..nl]);
                let e = ref_find(hay, nee);
                let sk = slice::bytes_find_skip(hay, nee);
                let kp = slice::bytes_find_keep(hay, nee);
                match e {
                    None => {
                        chk!(s, sk.is_none(), "C04.bytes_find_skip.none_iff_absent");
                        chk!(s, kp.is_none(), "C04.bytes_find_keep.none_iff_absent");
                    }
                    Some(p) => {
                        // documented: an empty needle returns the input unchanged
                        let skip_to = if nl == 0 { 0 } else { p + nl };
                        chk!(s, match sk { Some(x) => is_subslice_at(hay, x, skip_to, hl), None => false },
                             "C04.bytes_find_skip.suffix_after_first");
                        chk!(s, match kp { Some(x) => is_subslice_at(hay, x, p, hl), None => false },
                             "C04.bytes_find_keep.suffix_from_first");
                    }
                }
                cov!(s, nl == 2 && e == Some(2), "C04.cover.skip_found");
            }
        }
    };
}
t_c04_bytes_find_skip_keep! {c04_bytes_find_skip_keep, 4, 3, 15}
t_c04_bytes_find_skip_keep! {c04_bytes_find_skip_keep_big, 6, 3, 22} //  bound="hay<=6 bytes, needle<=3 bytes, all byte values" tier=quick

macro_rules! t_c04_bytes_rfind_skip_keep {
    ($name:ident, $h:literal, $n:literal, $u:literal) => {
        harness! {
            /// kind=bounded tier=quick bound="hay<=4 bytes, needle<=3 bytes (non-empty for reverse search), all byte values"
            #[kani::unwind($u)]
            fn $name(s) {
                let h: [u8; $h] = s.bytes();
                let n: [u8; $n] = s.bytes();
                let hl = s.upto($h);
                let nl = s.upto($n);
                let (hay, nee) = (&h[..hl], &n[..nl]);
                let sk = slice::bytes_rfind_skip(hay, nee);
                let kp = slice::bytes_rfind_keep(hay, nee);
                if nl == 0 {
                    chk!(s, match sk { Some(x) => is_subslice_at(hay, x, 0, hl), None => false },
                         "C04.bytes_rfind_skip.empty_needle_identity");
                    chk!(s, match kp { Some(x) => is_subslice_at(hay, x, 0, hl), None => false },
                         "C04.bytes_rfind_keep.empty_needle_identity");
                } else {
                    match ref_rfind(hay, nee) {
                        None => {
                            chk!(s, sk.is_none(), "C04.bytes_rfind_skip.none_iff_absent");
                            chk!(s, kp.is_none(), "C04.bytes_rfind_keep.none_iff_absent");
                        }
                        Some(p) => {
                            chk!(s, match sk { Some(x) => is_subslice_at(hay, x, 0, p), None => false },
                                 "C04.bytes_rfind_skip.prefix_before_last");
                            chk!(s, match kp { Some(x) => is_subslice_at(hay, x, 0, p + nl), None => false },
                                 "C04.bytes_rfind_keep.prefix_through_last");
                        }
                    }
                }
                cov!(s, nl == 2 && ref_rfind(hay, nee) == Some(1), "C04.cover.rskip_found");
            }
        }
    };
}
t_c04_bytes_rfind_skip_keep! {c04_bytes_rfind_skip_keep, 4, 3, 15}
t_c04_bytes_rfind_skip_keep! {c04_bytes_rfind_skip_keep_big, 6, 3, 22} // tier=thorough bound="hay<=6 bytes, needle<=3 bytes, all byte values"

macro_rules! t_c04_str_find_strpat {
    ($name:ident, $h:literal, $n:literal, $u:literal) => {
        harness! {
            /// kind=bounded tier=quick bound="valid UTF-8 string<=4 bytes, &str pattern<=2 bytes"
            #[kani::unwind($u)]
            fn $name(s) {
                let hs = BStr::<$h>::any(s);
                let ps = BStr::<$n>::any(s);
                let (h, p) = (hs.as_str(), ps.as_str());
                let e = ref_find(h.as_bytes(), p.as_bytes());
                chk!(s, string::find(h, p) == e, "C04.string_find.str.first_occurrence");
                chk!(s, string::contains(h, p) == e.is_some(), "C04.string_contains.str");
                if p.len() > 0 {
                    let er = ref_rfind(h.as_bytes(), p.as_bytes());
                    chk!(s, string::rfind(h, p) == er, "C04.string_rfind.str.last_occurrence");
                    chk!(s, string::rcontains(h, p) == er.is_some(), "C04.string_rcontains.str");
                }
                cov!(s, p.len() == 2 && p.as_bytes()[0] >= 0xC2 && e == Some(2), "C04.cover.str_multibyte_found");
            }
        }
    };
}
t_c04_str_find_strpat! {c04_str_find_strpat, 4, 2, 11}
t_c04_str_find_strpat! {c04_str_find_strpat_p3, 4, 3, 15} // tier=quick bound="valid UTF-8 string<=4 bytes, &str pattern<=3 bytes"
t_c04_str_find_strpat! {c04_str_find_strpat_big, 5, 3, 18} // tier=thorough bound="valid UTF-8 string<=5 bytes, &str pattern<=3 bytes"

macro_rules! t_c04_str_find_charpat {
    ($name:ident, $h:literal, $u:literal) => {
        harness! {
            /// kind=bounded tier=quick bound="valid UTF-8 string<=5 bytes, char pattern (any char)"
            #[kani::unwind($u)]
            fn $name(s) {
                let hs = BStr::<$h>::any(s);
                let c = s.char();
                let h = hs.as_str();
                let mut tmp = [0u8; 4];
                let p: &str = c.encode_utf8(&mut tmp);
                let e = ref_find(h.as_bytes(), p.as_bytes());
                let er = ref_rfind(h.as_bytes(), p.as_bytes());
                chk!(s, string::find(h, c) == e, "C04.string_find.char.first_occurrence");
                chk!(s, string::rfind(h, c) == er, "C04.string_rfind.char.last_occurrence");
                chk!(s, string::contains(h, c) == e.is_some(), "C04.string_contains.char");
                chk!(s, string::rcontains(h, c) == e.is_some(), "C04.string_rcontains.char");
                cov!(s, p.len() == 3 && e == Some(2), "C04.cover.char4_found");
            }
        }
    };
}
t_c04_str_find_charpat! {c04_str_find_charpat, 5, 22} // tier=thorough
t_c04_str_find_charpat! {c04_str_find_charpat_big, 6, 26} // tier=thorough bound="valid UTF-8 string<=6 bytes, char pattern (any char)"

macro_rules! t_c04_str_find_skip_keep {
    ($name:ident, $h:literal, $n:literal, $u:literal) => {
        harness! {
            /// kind=bounded tier=quick bound="valid UTF-8 string<=4 bytes, &str pattern<=2 bytes"
            #[kani::unwind($u)]
            fn $name(s) {
                let hs = BStr::<$h>::any(s);
                let ps = BStr::<$n>::any(s);
                let (h, p) = (hs.as_str(), ps.as_str());
                let (hb, pl) = (h.as_bytes(), p.len());
                let e = ref_find(hb, p.as_bytes());
                let sk = string::find_skip(h, p);
                let kp = string::find_keep(h, p);
                match e {
                    None => {
                        chk!(s, sk.is_none() && kp.is_none(), "C04.string_find_skip_keep.none_iff_absent");
                    }
                    Some(at) => {
                        let skip_to = if pl == 0 { 0 } else { at + pl };
                        chk!(s, match sk { Some(x) => is_subslice_at(hb, x.as_bytes(), skip_to, hb.len()), None => false },
                             "C04.string_find_skip.suffix_after_first");
                        chk!(s, match kp { Some(x) => is_subslice_at(hb, x.as_bytes(), at, hb.len()), None => false },
                             "C04.string_find_keep.suffix_from_first");
                    }
                }
                let rsk = string::rfind_skip(h, p);
                let rkp = string::rfind_keep(h, p);
                if pl > 0 {
                    match ref_rfind(hb, p.as_bytes()) {
                        None => {
                            chk!(s, rsk.is_none() && rkp.is_none(), "C04.string_rfind_skip_keep.none_iff_absent");
                        }
                        Some(at) => {
                            chk!(s, match rsk { Some(x) => is_subslice_at(hb, x.as_bytes(), 0, at), None => false },
                                 "C04.string_rfind_skip.prefix_before_last");
                            chk!(s, match rkp { Some(x) => is_subslice_at(hb, x.as_bytes(), 0, at + pl), None => false },
                                 "C04.string_rfind_keep.prefix_through_last");
                        }
                    }
                }
                cov!(s, pl == 2 && e == Some(1), "C04.cover.str_skip_found");
            }
        }
    };
}
t_c04_str_find_skip_keep! {c04_str_find_skip_keep, 4, 2, 11} // tier=quick
t_c04_str_find_skip_keep! {c04_str_find_skip_keep_big, 5, 3, 18} // tier=thorough bound="valid UTF-8 string<=5 bytes, &str pattern<=3 bytes"

macro_rules! t_c04_split_once {
    ($name:ident, $h:literal, $n:literal, $u:literal) => {
        harness! {
            /// kind=bounded tier=quick bound="valid UTF-8 string<=4 bytes, &str pattern<=2 bytes"
            #[kani::unwind($u)]
            fn $name(s) {
                let hs = BStr::<$h>::any(s);
                let ps = BStr::<$n>::any(s);
                let (h, p) = (hs.as_str(), ps.as_str());
                let (hb, pl) = (h.as_bytes(), p.len());
                let r = string::split_once(h, p);
                match ref_find(hb, p.as_bytes()) {
                    None => chk!(s, r.is_none(), "C04.split_once.none_iff_absent"),
                    Some(at) => chk!(s, match r {
                            Some((a, b)) => is_subslice_at(hb, a.as_bytes(), 0, at)
                                && is_subslice_at(hb, b.as_bytes(), at + pl, hb.len()),
                            None => false,
                        }, "C04.split_once.around_first"),
                }
                if pl > 0 {
                    let rr = string::rsplit_once(h, p);
                    match ref_rfind(hb, p.as_bytes()) {
                        None => chk!(s, rr.is_none(), "C04.rsplit_once.none_iff_absent"),
                        Some(at) => chk!(s, match rr {
                                Some((a, b)) => is_subslice_at(hb, a.as_bytes(), 0, at)
                                    && is_subslice_at(hb, b.as_bytes(), at + pl, hb.len()),
                                None => false,
                            }, "C04.rsplit_once.around_last"),
                    }
                }
                cov!(s, pl > 0 && r.is_some(), "C04.cover.split_once_found");
            }
        }
    };
}
t_c04_split_once! {c04_split_once, 4, 2, 11}
t_c04_split_once! {c04_split_once_long, 6, 1, 16} // bound="valid UTF-8 string<=6 bytes (room for a 4-byte character next to the delimiter), &str pattern<=1 byte"
t_c04_split_once! {c04_split_once_big, 5, 3, 18} // tier=thorough bound="valid UTF-8 string<=5 bytes, &str pattern<=3 bytes"

fn same_opt_pair(x: Option<(&str, &str)>, y: Option<(&str, &str)>) -> bool {
    match (x, y) {
        (None, None) => true,
        (Some((a, b)), Some((c, d))) => same_str(a, c) && same_str(b, d),
        _ => false,
    }
}

harness! {
    /// kind=bounded tier=quick bound="pattern-kind independence at the string level, forward family: every valid UTF-8 string <= 4 bytes, ANY char c; find_skip / find_keep / split_once called with the char give the same result (same place) as called with the char's encoding as a &str"
    #[kani::unwind(19)]
    fn c04_str_char_kind_eq_str_kind_fwd(s) {
        let hs = BStr::<4>::any(s);
        let c = s.char();
        let h = hs.as_str();
        let mut tmp = [0u8; 4];
        let p: &str = c.encode_utf8(&mut tmp);
        chk!(s, same_opt_str(string::find_skip(h, c), string::find_skip(h, p)), "C04.string_find_skip.char_eq_str_kind");
        chk!(s, same_opt_str(string::find_keep(h, c), string::find_keep(h, p)), "C04.string_find_keep.char_eq_str_kind");
        let r = string::split_once(h, c);
        chk!(s, same_opt_pair(r, string::split_once(h, p)), "C04.split_once.char_eq_str_kind");
        cov!(s, p.len() == 3 && matches!(r, Some((a, _)) if a.len() == 1), "C04.cover.split_once_three_byte_char_after_ascii");
    }
}

harness! {
    /// kind=bounded tier=quick bound="pattern-kind independence at the string level, reverse family: every valid UTF-8 string <= 5 bytes, ANY char c; rfind_skip / rfind_keep / rsplit_once with the char vs with its encoding as a &str"
    #[kani::unwind(24)]
    fn c04_str_char_kind_eq_str_kind_rev(s) {
        let hs = BStr::<5>::any(s);
        let c = s.char();
        let h = hs.as_str();
        let mut tmp = [0u8; 4];
        let p: &str = c.encode_utf8(&mut tmp);
        chk!(s, same_opt_str(string::rfind_skip(h, c), string::rfind_skip(h, p)), "C04.string_rfind_skip.char_eq_str_kind");
        chk!(s, same_opt_str(string::rfind_keep(h, c), string::rfind_keep(h, p)), "C04.string_rfind_keep.char_eq_str_kind");
        let r = string::rsplit_once(h, c);
        chk!(s, same_opt_pair(r, string::rsplit_once(h, p)), "C04.rsplit_once.char_eq_str_kind");
        cov!(s, p.len() == 3 && matches!(r, Some((a, _)) if a.len() == 1), "C04.cover.rsplit_once_three_byte_char_after_ascii");
    }
}

harness! {
    /// kind=bounded tier=quick bound="pattern-kind independence, find / rfind / contains / rcontains: every valid UTF-8 string <= 4 bytes, ANY char c vs its encoding as a &str"
    #[kani::unwind(19)]
    fn c04_str_char_kind_eq_str_kind_find(s) {
        let hs = BStr::<4>::any(s);
        let c = s.char();
        let h = hs.as_str();
        let mut tmp = [0u8; 4];
        let p: &str = c.encode_utf8(&mut tmp);
        chk!(s, string::find(h, c) == string::find(h, p), "C04.string_find.char_eq_str_kind");
        chk!(s, string::rfind(h, c) == string::rfind(h, p), "C04.string_rfind.char_eq_str_kind");
        chk!(s, string::contains(h, c) == string::contains(h, p), "C04.string_contains.char_eq_str_kind");
        chk!(s, string::rcontains(h, c) == string::rcontains(h, p), "C04.string_rcontains.char_eq_str_kind");
        cov!(s, p.len() == 3 && string::find(h, c) == Some(1), "C04.cover.three_byte_char_found_after_ascii");
    }
}

harness! {
    /// kind=bounded tier=quick bound="LONG haystacks (word-at-a-time fast paths need one): ASCII haystack of 17..=20 bytes, any bytes < 0x80, one-byte ASCII needle; string::find / rfind and slice::bytes_find / bytes_rfind against the first/last-occurrence reference"
    #[kani::unwind(23)]
    fn c04_long_haystack_one_byte_needle(s) {
        let raw: [u8; 20] = s.bytes();
        let len = 17 + s.upto(3);
        let mut ascii = true;
        let mut j = 0;
        while j < 20 {
            if raw[j] >= 0x80 {
                ascii = false;
            }
            j += 1;
        }
        s.assume(ascii);
        let hb = &raw[..len];
        let h = unsafe { core::str::from_utf8_unchecked(hb) };
        let nb = [s.u8()];
        s.assume(nb[0] < 0x80);
        let n = unsafe { core::str::from_utf8_unchecked(&nb) };
        let c = nb[0] as char;
        let e = ref_find(hb, &nb);
        let er = ref_rfind(hb, &nb);
        chk!(s, string::find(h, n) == e && string::find(h, c) == e, "C04.string_find.long_haystack.first_occurrence");
        chk!(s, string::rfind(h, n) == er && string::rfind(h, c) == er, "C04.string_rfind.long_haystack.last_occurrence");
        chk!(s, slice::bytes_find(hb, &nb) == e, "C04.bytes_find.long_haystack.first_occurrence");
        chk!(s, slice::bytes_rfind(hb, &nb) == er, "C04.bytes_rfind.long_haystack.last_occurrence");
        cov!(s, matches!((e, er), (Some(a), Some(b)) if a < 3 && b > 15), "C04.cover.long_haystack_two_far_occurrences");
    }
}

harness! {
    /// kind=bounded tier=quick bound="hay<=4 bytes; pattern kinds [u8;2], [u8], str, char"
    #[kani::unwind(19)]
    fn c04_pattern_kinds(s) {
        let h: [u8; 4] = s.bytes();
        let hl = s.upto(4);
        let hay = &h[..hl];
        let arr: [u8; 2] = s.bytes();
        let e = ref_find(hay, &arr);
        chk!(s, slice::bytes_find(hay, &arr) == e, "C04.pattern_kind.array");
        chk!(s, slice::bytes_find(hay, &arr[..]) == e, "C04.pattern_kind.slice");
        let c = s.char();
        let mut tmp = [0u8; 4];
        let cs: &str = c.encode_utf8(&mut tmp);
        let ec = ref_find(hay, cs.as_bytes());
        chk!(s, slice::bytes_find(hay, &c) == ec, "C04.pattern_kind.char");
        chk!(s, slice::bytes_find(hay, cs) == ec, "C04.pattern_kind.str");
        cov!(s, e.is_some() && ec.is_some(), "C04.cover.kinds_found");
    }
}

harness! {
    /// kind=bounded tier=thorough bound="spec adequacy: ref_find vs the real str::find with a char-equality closure pattern (std's memchr-based char searcher is too heavy for CBMC), every valid string <= 5 bytes, every char"
    #[kani::unwind(24)]
    fn c04_spec_find_vs_std(s) {
        let hs = BStr::<5>::any(s);
        let c = s.char();
        let h = hs.as_str();
        let mut tmp = [0u8; 4];
        let p: &str = c.encode_utf8(&mut tmp);
        let r = h.find(|x: char| x == c);
        chk!(s, r == ref_find(h.as_bytes(), p.as_bytes()), "SPEC.ref_find.eq_std_find_char");
        cov!(s, matches!(r, Some(i) if i > 0) && p.len() > 1, "SPEC.cover.find_multibyte_char_not_at_start");
    }
}

harness! {
    /// kind=bounded tier=thorough bound="spec adequacy: ref_rfind vs the real str::rfind with a char-equality closure pattern, every valid string <= 5 bytes, every char"
    #[kani::unwind(24)]
    fn c04_spec_rfind_vs_std(s) {
        let hs = BStr::<5>::any(s);
        let c = s.char();
        let h = hs.as_str();
        let mut tmp = [0u8; 4];
        let p: &str = c.encode_utf8(&mut tmp);
        let r = h.rfind(|x: char| x == c);
        chk!(s, r == ref_rfind(h.as_bytes(), p.as_bytes()), "SPEC.ref_rfind.eq_std_rfind_char");
        cov!(s, matches!(r, Some(i) if i > 0) && p.len() > 1, "SPEC.cover.rfind_multibyte_char_not_at_start");
    }
}

harness! {
    /// kind=bounded tier=thorough bound="hay<=7 bytes, needle<=4 bytes, all byte values"
    #[kani::unwind(31)]
    fn c04_bytes_find_huge(s) {
        let h: [u8; 7] = s.bytes();
        let n: [u8; 4] = s.bytes();
        let hl = s.upto(7);
        let nl = s.upto(4);
        let (hay, nee) = (&h[..hl], &n[..nl]);
        chk!(s, slice::bytes_find(hay, nee) == ref_find(hay, nee), "C04.bytes_find.first_occurrence");
        if nl > 0 {
            chk!(s, slice::bytes_rfind(hay, nee) == ref_rfind(hay, nee), "C04.bytes_rfind.last_occurrence");
        }
    }
}
