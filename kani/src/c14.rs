//! C14 — Parser operations transform the remainder exactly like the string functions; split protocols.
//!
//! One-step clause: for a parser `p` (built by `Parser::new` / `with_start_offset`, optionally
//! after one earlier operation) and an argument, `p.op(arg)` is compared with the free function
//! of `konst::string` applied to `p.remainder()`: `Ok` iff the function finds something, and the
//! new remainder is the function's result (address + length; an empty result only has to be
//! empty).  What those free functions compute is C04/C05's business, not checked again here.
//! Only remainders are looked at — offsets and error offsets belong to C13.
//!
//! Protocol clause: repeating `split`/`rsplit` (non-empty delimiter) yields the reference split
//! sequence (first-/last-occurrence cuts, the same reference as C06, tied to std there and in
//! `c14_spec_*_char`) and then `ErrorKind::SplitExhausted`; `split_terminator` /
//! `rsplit_terminator` yield every piece of that sequence except the last one (the pieces that
//! are followed / preceded by a delimiter) and then fail.
use crate::hlib::*;
use konst::parsing::{ErrorKind, ParseError};
use konst::string::{self, Pattern};
use konst::Parser;

// ---------------------------------------------------------------------------
// helpers

/// same place, or both empty
pub fn rem_eq(a: &str, b: &str) -> bool {
    a.len() == b.len() && (a.len() == 0 || a.as_ptr() == b.as_ptr())
}

/// `p` is `hb[a..b]` as a place; an empty range only requires an empty `p`
pub fn piece_at(hb: &[u8], p: &str, a: usize, b: usize) -> bool {
    if a == b {
        p.len() == 0
    } else {
        is_subslice_at(hb, p.as_bytes(), a, b)
    }
}

/// `Ok(p')` iff `Some(x)`, and then `p'.remainder()` is `x`; `Err` carries no parser by type
pub fn ok_iff_some<'a>(r: Result<Parser<'a>, ParseError<'a>>, e: Option<&'a str>) -> bool {
    match (r, e) {
        (Ok(q), Some(x)) => rem_eq(q.remainder(), x),
        (Err(_), None) => true,
        _ => false,
    }
}

pub fn is_exhausted<'a, T>(r: &Result<T, ParseError<'a>>) -> bool {
    match r {
        Err(e) => matches!(e.kind(), ErrorKind::SplitExhausted),
        Ok(_) => false,
    }
}

/// the parser under test: `new` or `with_start_offset` (offset small enough for the u32 bookkeeping)
pub fn mk<'a, S: Src>(s: &mut S, h: &'a str) -> Parser<'a> {
    if s.bool() {
        Parser::new(h)
    } else {
        let off = s.upto(1000);
        Parser::with_start_offset(h, off)
    }
}

// ---------------------------------------------------------------------------
// one-step equivalences, generic over the pattern kind

fn step_strip<'a, 'p, S: Src, P: Pattern<'p>>(s: &mut S, p: Parser<'a>, pat: P) {
    let rem = p.remainder();
    chk!(s, ok_iff_some(p.strip_prefix(pat), string::strip_prefix(rem, pat)), "C14.strip_prefix.eq_string_strip_prefix");
    chk!(s, ok_iff_some(p.strip_suffix(pat), string::strip_suffix(rem, pat)), "C14.strip_suffix.eq_string_strip_suffix");
}

fn step_find_skip<'a, 'p, S: Src, P: Pattern<'p>>(s: &mut S, p: Parser<'a>, pat: P) {
    let rem = p.remainder();
    chk!(s, ok_iff_some(p.find_skip(pat), string::find_skip(rem, pat)), "C14.find_skip.eq_string_find_skip");
    chk!(s, ok_iff_some(p.rfind_skip(pat), string::rfind_skip(rem, pat)), "C14.rfind_skip.eq_string_rfind_skip");
}

/// forward split operations from a parser whose one-shot flag is clear
fn step_split_fwd<'a, 'p, S: Src, P: Pattern<'p>>(s: &mut S, p: Parser<'a>, d: P, dl: usize) {
    let rem = p.remainder();
    let once = string::split_once(rem, d);
    // split: around the first delimiter, else the whole remainder (once)
    chk!(s, match (p.split(d), once) {
            (Ok((piece, q)), Some((a, b))) => rem_eq(piece, a) && rem_eq(q.remainder(), b),
            (Ok((piece, q)), None) => rem_eq(piece, rem) && q.remainder().len() == 0,
            (Err(_), _) => false,
        }, "C14.split.eq_string_split_once_or_rest");
    // split_keep: up to the first delimiter, which stays in the parser
    chk!(s, match (p.split_keep(d), string::find(rem, d)) {
            (Ok((piece, q)), Some(pos)) => piece_at(rem.as_bytes(), piece, 0, pos) && piece_at(rem.as_bytes(), q.remainder(), pos, rem.len()),
            (Ok((piece, q)), None) => rem_eq(piece, rem) && q.remainder().len() == 0,
            (Err(_), _) => false,
        }, "C14.split_keep.eq_string_find_or_rest");
    if dl > 0 {
        // split_terminator: exactly split_once
        chk!(s, match (p.split_terminator(d), once) {
                (Ok((piece, q)), Some((a, b))) => rem_eq(piece, a) && rem_eq(q.remainder(), b),
                (Err(_), None) => true,
                _ => false,
            }, "C14.split_terminator.eq_string_split_once");
    }
}

/// backward split operations (non-empty delimiter) from a parser whose one-shot flag is clear
fn step_split_bwd<'a, 'p, S: Src, P: Pattern<'p>>(s: &mut S, p: Parser<'a>, d: P) {
    let rem = p.remainder();
    let once = string::rsplit_once(rem, d);
    chk!(s, match (p.rsplit(d), once) {
            (Ok((piece, q)), Some((a, b))) => rem_eq(piece, b) && rem_eq(q.remainder(), a),
            (Ok((piece, q)), None) => rem_eq(piece, rem) && q.remainder().len() == 0,
            (Err(_), _) => false,
        }, "C14.rsplit.eq_string_rsplit_once_or_rest");
    chk!(s, match (p.rsplit_terminator(d), once) {
            (Ok((piece, q)), Some((a, b))) => rem_eq(piece, b) && rem_eq(q.remainder(), a),
            (Err(_), None) => true,
            _ => false,
        }, "C14.rsplit_terminator.eq_string_rsplit_once");
}

harness! {
    /// kind=bounded tier=quick bound="valid UTF-8 remainder<=4 bytes, &str pattern<=2 bytes (empty included); Parser::new or with_start_offset(<=1000)"
    #[kani::unwind(8)]
    fn c14_strip_str(s) {
        let hs = BStr::<4>::any(s);
        let ps = BStr::<2>::any(s);
        let (h, pat) = (hs.as_str(), ps.as_str());
        let p = mk(s, h);
        step_strip(s, p, pat);
        cov!(s, pat.len() == 2 && string::strip_prefix(h, pat).is_some() && h.len() == 4, "C14.cover.strip_prefix_str_ok");
        cov!(s, pat.len() == 1 && string::strip_suffix(h, pat).is_none() && h.len() == 4, "C14.cover.strip_suffix_str_err");
        cov!(s, pat.len() == 0 && h.len() == 4, "C14.cover.strip_str_empty_pattern");
    }
}

harness! {
    /// kind=bounded tier=quick bound="valid UTF-8 remainder<=4 bytes, char pattern (any char); Parser::new or with_start_offset(<=1000)"
    #[kani::unwind(8)]
    fn c14_strip_char(s) {
        let hs = BStr::<4>::any(s);
        let c = s.char();
        let h = hs.as_str();
        let p = mk(s, h);
        step_strip(s, p, c);
        cov!(s, c.len_utf8() == 2 && string::strip_prefix(h, c).is_some() && h.len() == 4, "C14.cover.strip_prefix_char_ok");
        cov!(s, c.len_utf8() == 3 && string::strip_suffix(h, c).is_some() && h.len() == 4, "C14.cover.strip_suffix_char_ok");
    }
}

macro_rules! c14_trim_matches_str {
    ($name:ident, $m:ident, $o:literal) => {
        harness! {
            /// kind=bounded tier=quick bound="valid UTF-8 remainder<=4 bytes; &str pattern<=2 bytes (empty included); Parser::new or with_start_offset(<=1000)"
            #[kani::unwind(8)]
            fn $name(s) {
                let hs = BStr::<4>::any(s);
                let h = hs.as_str();
                let p = mk(s, h);
                let ps = BStr::<2>::any(s);
                let pat = ps.as_str();
                chk!(s, rem_eq(p.$m(pat).remainder(), string::$m(h, pat)), $o);
                cov!(s, pat.len() == 1 && string::$m(h, pat).len() == 1 && h.len() == 4, "C14.cover.trim_matches_str_one_byte_reps");
                cov!(s, pat.len() == 2 && string::$m(h, pat).len() == 0 && h.len() == 4, "C14.cover.trim_matches_str_two_reps");
                cov!(s, pat.len() == 0 && h.len() == 4, "C14.cover.trim_matches_str_empty_pattern");
            }
        }
    };
}
c14_trim_matches_str! {c14_trim_start_matches_str, trim_start_matches, "C14.trim_start_matches.eq_string_trim_start_matches"}
c14_trim_matches_str! {c14_trim_end_matches_str, trim_end_matches, "C14.trim_end_matches.eq_string_trim_end_matches"}

macro_rules! c14_trim_matches_char {
    ($name:ident, $m:ident, $o:literal) => {
        harness! {
            /// kind=bounded tier=quick bound="valid UTF-8 remainder<=4 bytes; char pattern (any char); Parser::new or with_start_offset(<=1000)"
            #[kani::unwind(8)]
            fn $name(s) {
                let hs = BStr::<4>::any(s);
                let h = hs.as_str();
                let p = mk(s, h);
                let c = s.char();
                chk!(s, rem_eq(p.$m(c).remainder(), string::$m(h, c)), $o);
                cov!(s, c.len_utf8() == 2 && string::$m(h, c).len() == 0 && h.len() == 4, "C14.cover.trim_matches_char2_two_reps");
                cov!(s, c.len_utf8() == 1 && string::$m(h, c).len() == 2 && h.len() == 4, "C14.cover.trim_matches_char1");
            }
        }
    };
}
c14_trim_matches_char! {c14_trim_start_matches_char, trim_start_matches, "C14.trim_start_matches.eq_string_trim_start_matches"}
c14_trim_matches_char! {c14_trim_end_matches_char, trim_end_matches, "C14.trim_end_matches.eq_string_trim_end_matches"}

harness! {
    /// kind=bounded tier=quick bound="valid UTF-8 remainder<=3 bytes; two-sided trim_matches with a &str pattern<=2 bytes (empty included); thorough twin: <=4 bytes"
    #[kani::unwind(7)]
    fn c14_trim_matches_both_ends_str(s) {
        let hs = BStr::<3>::any(s);
        let h = hs.as_str();
        let p = mk(s, h);
        let ps = BStr::<2>::any(s);
        let pat = ps.as_str();
        chk!(s, rem_eq(p.trim_matches(pat).remainder(), string::trim_matches(h, pat)), "C14.trim_matches.eq_string_trim_matches");
        cov!(s, pat.len() == 1 && string::trim_matches(h, pat).len() == 1 && h.len() == 3, "C14.cover.trim_matches_str_both_ends");
        cov!(s, pat.len() == 0 && h.len() == 3, "C14.cover.trim_matches_str_empty_pattern");
    }
}

harness! {
    /// kind=bounded tier=quick bound="valid UTF-8 remainder<=3 bytes; two-sided trim_matches with a char pattern (any char); thorough twin: <=4 bytes"
    #[kani::unwind(7)]
    fn c14_trim_matches_both_ends_char(s) {
        let hs = BStr::<3>::any(s);
        let h = hs.as_str();
        let p = mk(s, h);
        let c = s.char();
        chk!(s, rem_eq(p.trim_matches(c).remainder(), string::trim_matches(h, c)), "C14.trim_matches.eq_string_trim_matches");
        cov!(s, c.len_utf8() == 1 && string::trim_matches(h, c).len() == 1 && h.len() == 3, "C14.cover.trim_matches_char_both_ends");
    }
}

harness! {
    /// kind=bounded tier=thorough bound="valid UTF-8 remainder<=4 bytes; two-sided trim_matches with a &str pattern<=2 bytes (empty included)"
    #[kani::unwind(8)]
    fn c14_trim_matches_both_ends_str_big(s) {
        let hs = BStr::<4>::any(s);
        let h = hs.as_str();
        let p = mk(s, h);
        let ps = BStr::<2>::any(s);
        let pat = ps.as_str();
        chk!(s, rem_eq(p.trim_matches(pat).remainder(), string::trim_matches(h, pat)), "C14.trim_matches.eq_string_trim_matches");
        cov!(s, pat.len() == 1 && string::trim_matches(h, pat).len() == 1 && h.len() == 4, "C14.cover.trim_matches_str_both_ends_big");
        cov!(s, pat.len() == 2 && string::trim_matches(h, pat).len() == 0 && h.len() == 4, "C14.cover.trim_matches_str_two_reps_big");
    }
}

harness! {
    /// kind=bounded tier=thorough bound="valid UTF-8 remainder<=4 bytes; two-sided trim_matches with a char pattern (any char)"
    #[kani::unwind(8)]
    fn c14_trim_matches_both_ends_char_big(s) {
        let hs = BStr::<4>::any(s);
        let h = hs.as_str();
        let p = mk(s, h);
        let c = s.char();
        chk!(s, rem_eq(p.trim_matches(c).remainder(), string::trim_matches(h, c)), "C14.trim_matches.eq_string_trim_matches");
        cov!(s, c.len_utf8() == 2 && string::trim_matches(h, c).len() == 0 && h.len() == 4, "C14.cover.trim_matches_char2_two_reps_big");
    }
}

harness! {
    /// kind=bounded tier=quick bound="valid UTF-8 remainder<=4 bytes, &str needle<=2 bytes (empty included); Parser::new or with_start_offset(<=1000)"
    #[kani::unwind(8)]
    fn c14_find_skip_str(s) {
        let hs = BStr::<4>::any(s);
        let ps = BStr::<2>::any(s);
        let (h, pat) = (hs.as_str(), ps.as_str());
        let p = mk(s, h);
        step_find_skip(s, p, pat);
        cov!(s, pat.len() == 2 && h.len() == 4 && match string::find_skip(h, pat) { Some(x) => x.len() == 1, None => false }, "C14.cover.find_skip_str_ok");
        cov!(s, pat.len() == 1 && h.len() == 4 && string::rfind_skip(h, pat).is_none(), "C14.cover.rfind_skip_str_err");
    }
}

harness! {
    /// kind=bounded tier=quick bound="valid UTF-8 remainder<=4 bytes, char needle (any char); Parser::new or with_start_offset(<=1000)"
    #[kani::unwind(12)]
    fn c14_find_skip_char(s) {
        let hs = BStr::<4>::any(s);
        let c = s.char();
        let h = hs.as_str();
        let p = mk(s, h);
        step_find_skip(s, p, c);
        cov!(s, c.len_utf8() == 2 && h.len() == 4 && match string::rfind_skip(h, c) { Some(x) => x.len() == 1, None => false }, "C14.cover.rfind_skip_char_ok");
    }
}

harness! {
    /// kind=bounded tier=quick bound="valid UTF-8 remainder<=4 bytes, &str delimiter<=2 bytes (empty included for split/split_keep); flag clear; Parser::new or with_start_offset(<=1000)"
    #[kani::unwind(8)]
    fn c14_split_once_fwd_str(s) {
        let hs = BStr::<4>::any(s);
        let ds = BStr::<2>::any(s);
        let (h, d) = (hs.as_str(), ds.as_str());
        let p = mk(s, h);
        step_split_fwd(s, p, d, d.len());
        cov!(s, d.len() == 2 && h.len() == 4 && string::find(h, d) == Some(1), "C14.cover.split_fwd_str_found");
        cov!(s, d.len() == 1 && h.len() == 4 && string::find(h, d).is_none(), "C14.cover.split_fwd_str_absent");
        cov!(s, d.len() == 0 && h.len() == 4, "C14.cover.split_fwd_str_empty_delim");
        cov!(s, d.len() == 1 && h.len() == 0, "C14.cover.split_fwd_str_empty_remainder");
    }
}

harness! {
    /// kind=bounded tier=quick bound="valid UTF-8 remainder<=4 bytes, non-empty &str delimiter<=2 bytes; flag clear; Parser::new or with_start_offset(<=1000)"
    #[kani::unwind(8)]
    fn c14_split_once_bwd_str(s) {
        let hs = BStr::<4>::any(s);
        let ds = BStr::<2>::any(s);
        let (h, d) = (hs.as_str(), ds.as_str());
        s.assume(d.len() > 0);
        let p = mk(s, h);
        step_split_bwd(s, p, d);
        cov!(s, d.len() == 2 && h.len() == 4 && string::rfind(h, d) == Some(1), "C14.cover.split_bwd_str_found");
        cov!(s, d.len() == 1 && h.len() == 4 && string::rfind(h, d).is_none(), "C14.cover.split_bwd_str_absent");
    }
}

harness! {
    /// kind=bounded tier=quick bound="valid UTF-8 remainder<=4 bytes, char delimiter (any char); split, split_keep, split_terminator; flag clear; Parser::new or with_start_offset(<=1000)"
    #[kani::unwind(12)]
    fn c14_split_once_fwd_char(s) {
        let hs = BStr::<4>::any(s);
        let c = s.char();
        let h = hs.as_str();
        let p = mk(s, h);
        step_split_fwd(s, p, c, 1);
        cov!(s, c.len_utf8() == 2 && h.len() == 4 && string::find(h, c) == Some(1), "C14.cover.split_fwd_char_found");
        cov!(s, c.len_utf8() == 3 && h.len() == 4 && string::find(h, c).is_none(), "C14.cover.split_fwd_char_absent");
    }
}

harness! {
    /// kind=bounded tier=quick bound="valid UTF-8 remainder<=4 bytes, char delimiter (any char); rsplit, rsplit_terminator; flag clear; Parser::new or with_start_offset(<=1000)"
    #[kani::unwind(12)]
    fn c14_split_once_bwd_char(s) {
        let hs = BStr::<4>::any(s);
        let c = s.char();
        let h = hs.as_str();
        let p = mk(s, h);
        step_split_bwd(s, p, c);
        cov!(s, c.len_utf8() == 2 && h.len() == 4 && string::rfind(h, c) == Some(1), "C14.cover.split_bwd_char_found");
        cov!(s, c.len_utf8() == 3 && h.len() == 4 && string::rfind(h, c).is_none(), "C14.cover.split_bwd_char_absent");
    }
}

harness! {
    /// kind=bounded tier=quick bound="valid UTF-8 remainder<=6 bytes (room for a 4-byte character next to the delimiter), one-byte ASCII char delimiter; split, split_keep, split_terminator; flag clear"
    #[kani::unwind(16)]
    fn c14_split_once_fwd_ascii_delim_long(s) {
        let hs = BStr::<6>::any(s);
        let b = s.u8();
        s.assume(b < 0x80);
        let c = b as char;
        let h = hs.as_str();
        let p = mk(s, h);
        step_split_fwd(s, p, c, 1);
        cov!(s, h.len() == 6 && h.as_bytes()[0] >= 0xF0 && string::find(h, c) == Some(4), "C14.cover.split_fwd_delim_right_after_four_byte_char");
    }
}

harness! {
    /// kind=bounded tier=quick bound="valid UTF-8 remainder<=6 bytes, one-byte ASCII char delimiter; rsplit, rsplit_terminator; flag clear"
    #[kani::unwind(16)]
    fn c14_split_once_bwd_ascii_delim_long(s) {
        let hs = BStr::<6>::any(s);
        let b = s.u8();
        s.assume(b < 0x80);
        let c = b as char;
        let h = hs.as_str();
        let p = mk(s, h);
        step_split_bwd(s, p, c);
        cov!(s, h.len() == 6 && h.as_bytes()[2] >= 0xF0 && string::rfind(h, c) == Some(1), "C14.cover.split_bwd_delim_right_before_four_byte_char");
    }
}

// ---------------------------------------------------------------------------
// operations without a pattern

/// `n` clamped to the length and rounded up to a char boundary
fn ref_skip_to(b: &[u8], n: usize) -> usize {
    let mut m = if n > b.len() { b.len() } else { n };
    while !ref_boundary(b, m) {
        m += 1;
    }
    m
}

/// `len - n` (saturating) rounded down to a char boundary
fn ref_skip_back_to(b: &[u8], n: usize) -> usize {
    let mut m = if n > b.len() { 0 } else { b.len() - n };
    while !ref_boundary(b, m) {
        m -= 1;
    }
    m
}

harness! {
    /// kind=bounded tier=quick bound="valid UTF-8 remainder<=5 bytes; skip/skip_back counts over all of usize; Parser::new or with_start_offset(<=1000)"
    #[kani::unwind(8)]
    fn c14_trim_ws_skip(s) {
        let hs = BStr::<5>::any(s);
        let h = hs.as_str();
        let hb = h.as_bytes();
        let p = mk(s, h);
        chk!(s, rem_eq(p.trim_start().remainder(), string::trim_start(h)), "C14.trim_start.eq_string_trim_start");
        chk!(s, rem_eq(p.trim_end().remainder(), string::trim_end(h)), "C14.trim_end.eq_string_trim_end");
        chk!(s, rem_eq(p.trim().remainder(), string::trim(h)), "C14.trim.eq_string_trim");
        let n = s.usize();
        chk!(s, piece_at(hb, p.skip(n).remainder(), ref_skip_to(hb, n), hb.len()), "C14.skip.drops_n_bytes_rounded_up_to_boundary");
        chk!(s, piece_at(hb, p.skip_back(n).remainder(), 0, ref_skip_back_to(hb, n)), "C14.skip_back.drops_n_bytes_rounded_down_to_boundary");
        cov!(s, h.len() == 5 && string::trim(h).len() == 1 && string::trim_start(h).len() == 3, "C14.cover.trim_both_sides");
        cov!(s, h.len() == 5 && n == 1 && ref_skip_to(hb, n) == 4, "C14.cover.skip_rounds_up_over_4_byte_char");
        cov!(s, h.len() == 5 && n == 2 && ref_skip_back_to(hb, n) == 1, "C14.cover.skip_back_rounds_down");
        cov!(s, n > h.len(), "C14.cover.skip_beyond");
    }
}

/// optional '-' (signed only) + longest digit run: (negative, value capped at 100000, bytes consumed)
fn ref_int_prefix(b: &[u8], signed: bool) -> Option<(bool, u32, usize)> {
    let mut i = 0;
    let mut neg = false;
    if signed && b.len() > 0 && b[0] == b'-' {
        neg = true;
        i = 1;
    }
    let start = i;
    let mut v: u32 = 0;
    while i < b.len() && b[i] >= b'0' && b[i] <= b'9' {
        v = v * 10 + (b[i] - b'0') as u32;
        if v > 100000 {
            v = 100000;
        }
        i += 1;
    }
    if i == start {
        None
    } else {
        Some((neg, v, i))
    }
}

harness! {
    /// kind=bounded tier=quick bound="valid UTF-8 remainder<=5 bytes (so -128x, 2559, 00000 are inside); parse_u8, parse_i8"
    #[kani::unwind(8)]
    fn c14_parse_int_prefix(s) {
        let hs = BStr::<5>::any(s);
        let h = hs.as_str();
        let hb = h.as_bytes();
        let p = mk(s, h);
        let eu = match ref_int_prefix(hb, false) { Some((_, v, n)) if v <= 255 => Some(n), _ => None };
        chk!(s, match (p.parse_u8(), eu) {
                (Ok((_, q)), Some(n)) => piece_at(hb, q.remainder(), n, hb.len()),
                (Err(_), None) => true,
                _ => false,
            }, "C14.parse_u8.ok_iff_prefix_fits_and_rest_after_digits");
        let ei = match ref_int_prefix(hb, true) { Some((neg, v, n)) if v <= 127 || (neg && v == 128) => Some(n), _ => None };
        chk!(s, match (p.parse_i8(), ei) {
                (Ok((_, q)), Some(n)) => piece_at(hb, q.remainder(), n, hb.len()),
                (Err(_), None) => true,
                _ => false,
            }, "C14.parse_i8.ok_iff_prefix_fits_and_rest_after_digits");
        cov!(s, eu == Some(3) && hb.len() == 5, "C14.cover.parse_u8_three_digits_then_rest");
        cov!(s, eu.is_none() && ref_int_prefix(hb, false).is_some(), "C14.cover.parse_u8_overflow");
        cov!(s, ei == Some(4) && hb.len() == 5, "C14.cover.parse_i8_minus_128_then_rest");
        cov!(s, ei.is_none() && hb.len() > 0 && hb[0] == b'-', "C14.cover.parse_i8_minus_without_fit");
    }
}

harness! {
    /// kind=bounded tier=quick bound="valid UTF-8 remainder<=6 bytes; parse_bool"
    #[kani::unwind(9)]
    fn c14_parse_bool_prefix(s) {
        let hs = BStr::<6>::any(s);
        let h = hs.as_str();
        let hb = h.as_bytes();
        let p = mk(s, h);
        let e = if ref_occurs_at(hb, b"true", 0) { Some((true, 4)) } else if ref_occurs_at(hb, b"false", 0) { Some((false, 5)) } else { None };
        chk!(s, match (p.parse_bool(), e) {
                (Ok((v, q)), Some((ev, n))) => v == ev && piece_at(hb, q.remainder(), n, hb.len()),
                (Err(_), None) => true,
                _ => false,
            }, "C14.parse_bool.ok_iff_true_false_prefix_and_rest_after_it");
        cov!(s, e == Some((false, 5)) && hb.len() == 6, "C14.cover.parse_bool_false_then_rest");
        cov!(s, e == Some((true, 4)) && hb.len() == 6, "C14.cover.parse_bool_true_then_rest");
        cov!(s, e.is_none() && hb.len() >= 4 && hb[0] == b't', "C14.cover.parse_bool_err");
    }
}

// ---------------------------------------------------------------------------
// the one-shot flag: after `split`/`rsplit`/`split_keep` returned the last piece the remainder is
// empty and every split operation fails; every other operation acts on the empty remainder

macro_rules! c14_after_last {
    ($name:ident, $op:ident) => {
        harness! {
            /// kind=bounded tier=quick bound="valid UTF-8 string<=4 bytes, char delimiter absent from it: the operation returns the whole remainder, then every split operation once on the exhausted parser"
            #[kani::unwind(12)]
            fn $name(s) {
                let hs = BStr::<4>::any(s);
                let c = s.char();
                let h = hs.as_str();
                let mut tmp = [0u8; 4];
                let absent = ref_find(h.as_bytes(), c.encode_utf8(&mut tmp).as_bytes()).is_none();
                s.assume(absent);
                let p0 = mk(s, h);
                match p0.$op(c) {
                    Ok((piece, p)) => {
                        chk!(s, rem_eq(piece, h) && p.remainder().len() == 0, "C14.split.last_piece_is_whole_remainder");
                        chk!(s, is_exhausted(&p.split(c)), "C14.split.exhausted_after_last_piece");
                        chk!(s, is_exhausted(&p.rsplit(c)), "C14.rsplit.exhausted_after_last_piece");
                        chk!(s, is_exhausted(&p.split_keep(c)), "C14.split_keep.exhausted_after_last_piece");
                        chk!(s, p.split_terminator(c).is_err(), "C14.split_terminator.fails_after_last_piece");
                        chk!(s, p.rsplit_terminator(c).is_err(), "C14.rsplit_terminator.fails_after_last_piece");
                    }
                    Err(_) => chk!(s, false, "C14.split.call_without_delimiter_must_succeed_once"),
                }
                cov!(s, h.len() == 4 && c.len_utf8() == 2, "C14.cover.after_last_piece");
                cov!(s, h.len() == 0, "C14.cover.after_last_piece_empty_input");
            }
        }
    };
}
c14_after_last! {c14_after_last_piece_split, split}
c14_after_last! {c14_after_last_piece_rsplit, rsplit}
c14_after_last! {c14_after_last_piece_split_keep, split_keep}

harness! {
    /// kind=bounded tier=quick bound="valid UTF-8 string<=3 bytes without the delimiter ','; exhausted by split, then strip/trim/find_skip/skip/parse operations with a &str<=2 byte argument act on the empty remainder"
    #[kani::unwind(8)]
    fn c14_exhausted_other_ops(s) {
        let hs = BStr::<3>::any(s);
        let h = hs.as_str();
        let absent = ref_find(h.as_bytes(), b",").is_none();
        s.assume(absent);
        let p0 = mk(s, h);
        match p0.split(',') {
            Ok((_, p)) => {
                let ps = BStr::<2>::any(s);
                let pat = ps.as_str();
                step_strip(s, p, pat);
                step_find_skip(s, p, pat);
                chk!(s, p.trim_start_matches(pat).remainder().len() == 0 && p.trim_end_matches(pat).remainder().len() == 0,
                     "C14.exhausted.remainder_stays_empty");
                chk!(s, p.trim().remainder().len() == 0 && p.skip(1).remainder().len() == 0 && p.skip_back(1).remainder().len() == 0,
                     "C14.exhausted.remainder_stays_empty");
                chk!(s, p.parse_u8().is_err() && p.parse_bool().is_err(), "C14.exhausted.parse_fails_on_empty");
                cov!(s, pat.len() == 0 && h.len() == 3, "C14.cover.exhausted_empty_pattern");
                cov!(s, pat.len() == 2, "C14.cover.exhausted_two_byte_pattern");
            }
            Err(_) => chk!(s, false, "C14.split.call_without_delimiter_must_succeed_once"),
        }
    }
}

// ---------------------------------------------------------------------------
// histories mixing front and back operations: one earlier split / rsplit that found a delimiter
// (one-shot flag still clear), then the one-step clause for every split operation

fn step_split_fwd_char<'a, S: Src>(s: &mut S, p: Parser<'a>, c: char) {
    step_split_fwd(s, p, c, 1)
}

fn step_split_bwd_char<'a, S: Src>(s: &mut S, p: Parser<'a>, c: char) {
    step_split_bwd(s, p, c)
}

macro_rules! c14_history {
    ($name:ident, $op:ident, $step:ident) => {
        harness! {
            /// kind=bounded tier=quick bound="valid UTF-8 string<=4 bytes containing the char delimiter (any char): one earlier split (rsplit), then split/split_keep/split_terminator (front ops) or rsplit/rsplit_terminator (back ops) once each with the same char"
            #[kani::unwind(12)]
            fn $name(s) {
                let hs = BStr::<4>::any(s);
                let c = s.char();
                let h = hs.as_str();
                let mut tmp = [0u8; 4];
                let present = ref_find(h.as_bytes(), c.encode_utf8(&mut tmp).as_bytes()).is_some();
                s.assume(present);
                let p0 = mk(s, h);
                match p0.$op(c) {
                    Ok((_, p)) => {
                        $step(s, p, c);
                        cov!(s, h.len() == 4 && p.remainder().len() == 3 && string::find(p.remainder(), c).is_some(), "C14.cover.history_more_delims_left");
                        cov!(s, h.len() == 4 && p.remainder().len() == 0, "C14.cover.history_empty_remainder_flag_clear");
                    }
                    Err(_) => chk!(s, false, "C14.split.with_delimiter_present_must_succeed"),
                }
            }
        }
    };
}
c14_history! {c14_history_split_then_front_ops, split, step_split_fwd_char}
c14_history! {c14_history_split_then_back_ops, split, step_split_bwd_char}
c14_history! {c14_history_rsplit_then_front_ops, rsplit, step_split_fwd_char}
c14_history! {c14_history_rsplit_then_back_ops, rsplit, step_split_bwd_char}

// ---------------------------------------------------------------------------
// split protocols

pub const MAXP: usize = 8;

#[derive(Clone, Copy)]
pub struct Seq {
    pub a: [usize; MAXP],
    pub b: [usize; MAXP],
    pub n: usize,
}

impl Seq {
    pub fn new() -> Self {
        Seq { a: [0; MAXP], b: [0; MAXP], n: 0 }
    }
    pub fn push(&mut self, a: usize, b: usize) {
        self.a[self.n] = a;
        self.b[self.n] = b;
        self.n += 1;
    }
}

/// `occ[i]` = the non-empty delimiter `d` occurs at byte `i` of `h` (constant loop bounds)
pub fn occurrences<const H: usize, const D: usize>(h: &[u8], d: &[u8]) -> [bool; MAXP] {
    let mut occ = [false; MAXP];
    let mut i = 0;
    while i < H {
        let mut m = d.len() > 0 && i + d.len() <= h.len();
        let mut j = 0;
        while j < D {
            if m && j < d.len() && h[i + j] != d[j] {
                m = false;
            }
            j += 1;
        }
        occ[i] = m;
        i += 1;
    }
    occ
}

/// `str::split` with a non-empty delimiter: cut at the first occurrence inside the unsplit suffix
pub fn ref_split_seq<const H: usize>(len: usize, dl: usize, occ: &[bool; MAXP]) -> Seq {
    let mut q = Seq::new();
    let mut pos = 0;
    let mut i = 0;
    while i < H {
        if i < len && i >= pos && occ[i] {
            q.push(pos, i);
            pos = i + dl;
        }
        i += 1;
    }
    q.push(pos, len);
    q
}

/// `str::rsplit` with a non-empty delimiter: cut at the last occurrence inside the unsplit prefix
pub fn ref_rsplit_seq<const H: usize>(len: usize, dl: usize, occ: &[bool; MAXP]) -> Seq {
    let mut q = Seq::new();
    let mut end = len;
    let mut i = H;
    while i > 0 {
        i -= 1;
        if i + dl <= end && occ[i] {
            q.push(i + dl, end);
            end = i;
        }
    }
    q.push(0, end);
    q
}

#[derive(Clone, Copy, PartialEq, Eq)]
pub enum Op {
    Split,
    RSplit,
    SplitTerminator,
    RSplitTerminator,
}

pub struct Facts {
    pub hl: usize,
    pub dl: usize,
    pub n: usize,
    pub steps: usize,
    pub multibyte: bool,
    pub last_empty: bool,
}

/// repeats `op(d)` from `Parser::new(h)` until it fails (`STEPS` = constant budget > pieces)
fn protocol<'a, 'p, S: Src, P: Pattern<'p>, const H: usize, const D: usize, const STEPS: usize>(
    s: &mut S,
    op: Op,
    h: &'a str,
    d: P,
    db: &[u8],
) -> Facts {
    let hb = h.as_bytes();
    let len = hb.len();
    let dl = db.len();
    let occ = occurrences::<H, D>(hb, db);
    let fwd = matches!(op, Op::Split | Op::SplitTerminator);
    let q = if fwd { ref_split_seq::<H>(len, dl, &occ) } else { ref_rsplit_seq::<H>(len, dl, &occ) };
    // split / rsplit yield every piece; the terminator variants every piece but the last
    let n = if matches!(op, Op::Split | Op::RSplit) { q.n } else { q.n - 1 };
    let mut p = mk(s, h);
    let mut steps = 0;
    let mut live = true;
    let mut k = 0;
    while k < STEPS {
        if live {
            let r = match op {
                Op::Split => p.split(d),
                Op::RSplit => p.rsplit(d),
                Op::SplitTerminator => p.split_terminator(d),
                Op::RSplitTerminator => p.rsplit_terminator(d),
            };
            match r {
                Ok((piece, nx)) => {
                    chk!(s, k < n, "C14.protocol.yields_more_pieces_than_reference");
                    if k < n {
                        chk!(s, piece_at(hb, piece, q.a[k], q.b[k]), "C14.protocol.piece_eq_reference");
                        let rm = nx.remainder();
                        let ok = if k + 1 < q.n {
                            if fwd { piece_at(hb, rm, q.a[k + 1], len) } else { piece_at(hb, rm, 0, q.b[k + 1]) }
                        } else {
                            rm.len() == 0
                        };
                        chk!(s, ok, "C14.protocol.remainder_is_unsplit_part");
                        p = nx;
                        steps += 1;
                    } else {
                        live = false;
                    }
                }
                Err(e) => {
                    chk!(s, k == n, "C14.protocol.fails_before_all_pieces_were_yielded");
                    if matches!(op, Op::Split | Op::RSplit) {
                        chk!(s, matches!(e.kind(), ErrorKind::SplitExhausted), "C14.protocol.split_ends_with_split_exhausted");
                    }
                    live = false;
                }
            }
        }
        k += 1;
    }
    chk!(s, !live, "C14.protocol.yields_more_pieces_than_reference");
    Facts {
        hl: len,
        dl,
        n: q.n,
        steps,
        multibyte: len > 0 && hb[0] >= 0x80,
        last_empty: q.a[q.n - 1] == q.b[q.n - 1],
    }
}

macro_rules! c14_protocol_str {
    ($name:ident, $op:expr) => {
        harness! {
            /// kind=bounded tier=quick bound="valid UTF-8 string<=4 bytes, non-empty &str delimiter<=2 bytes, the operation repeated until it fails (<=5 pieces)"
            #[kani::unwind(8)]
            fn $name(s) {
                let hs = BStr::<4>::any(s);
                let ds = BStr::<2>::any(s);
                let (h, d) = (hs.as_str(), ds.as_str());
                s.assume(d.len() > 0);
                let f = protocol::<_, &str, 4, 2, 7>(s, $op, h, d, d.as_bytes());
                cov!(s, f.dl == 1 && f.n == 3 && f.last_empty && f.hl == 4, "C14.cover.protocol_str_last_piece_empty");
                cov!(s, f.dl == 1 && f.n == 3 && f.multibyte && f.hl == 4, "C14.cover.protocol_str_multibyte");
                cov!(s, f.dl == 2 && f.n == 2 && !f.last_empty && f.hl == 4, "C14.cover.protocol_str_two_pieces");
                cov!(s, f.n == 1 && f.hl == 0, "C14.cover.protocol_str_empty_input");
                cov!(s, f.dl == 1 && f.n == 5, "C14.cover.protocol_str_five_pieces");
            }
        }
    };
}
c14_protocol_str! {c14_protocol_split_str, Op::Split}
c14_protocol_str! {c14_protocol_rsplit_str, Op::RSplit}
c14_protocol_str! {c14_protocol_split_terminator_str, Op::SplitTerminator}
c14_protocol_str! {c14_protocol_rsplit_terminator_str, Op::RSplitTerminator}

macro_rules! c14_protocol_char {
    ($name:ident, $op:expr) => {
        harness! {
            /// kind=bounded tier=quick bound="valid UTF-8 string<=4 bytes, char delimiter (any char), the operation repeated until it fails (<=5 pieces)"
            #[kani::unwind(12)]
            fn $name(s) {
                let hs = BStr::<4>::any(s);
                let c = s.char();
                let mut tmp = [0u8; 4];
                let db = c.encode_utf8(&mut tmp).as_bytes();
                let f = protocol::<_, char, 4, 4, 7>(s, $op, hs.as_str(), c, db);
                cov!(s, f.dl == 2 && f.n == 3 && f.hl == 4, "C14.cover.protocol_char2_three_pieces");
                cov!(s, f.dl == 1 && f.n == 3 && !f.last_empty && f.hl == 4, "C14.cover.protocol_char_last_nonempty");
            }
        }
    };
}
c14_protocol_char! {c14_protocol_split_char, Op::Split}
c14_protocol_char! {c14_protocol_rsplit_char, Op::RSplit}
c14_protocol_char! {c14_protocol_split_terminator_char, Op::SplitTerminator}
c14_protocol_char! {c14_protocol_rsplit_terminator_char, Op::RSplitTerminator}

macro_rules! c14_protocol_ascii_long {
    ($name:ident, $op:expr) => {
        harness! {
            /// kind=bounded tier=quick bound="valid UTF-8 string<=6 bytes (room for a 4-byte character next to a delimiter), one-byte ASCII char delimiter, the operation repeated until it fails (<=7 pieces)"
            #[kani::unwind(16)]
            fn $name(s) {
                let hs = BStr::<6>::any(s);
                let b = s.u8();
                s.assume(b < 0x80);
                let c = b as char;
                let db = [b];
                let f = protocol::<_, char, 6, 4, 9>(s, $op, hs.as_str(), c, &db);
                cov!(s, f.n == 2 && f.multibyte && f.hl == 6, "C14.cover.protocol_ascii_long_two_pieces_multibyte");
            }
        }
    };
}
c14_protocol_ascii_long! {c14_protocol_split_ascii_long, Op::Split}
c14_protocol_ascii_long! {c14_protocol_rsplit_ascii_long, Op::RSplit}
c14_protocol_ascii_long! {c14_protocol_split_terminator_ascii_long, Op::SplitTerminator}
c14_protocol_ascii_long! {c14_protocol_rsplit_terminator_ascii_long, Op::RSplitTerminator}

macro_rules! c14_protocol_big {
    ($name:ident, $op:expr) => {
        harness! {
            /// kind=bounded tier=thorough bound="valid UTF-8 string<=5 bytes, non-empty &str delimiter<=3 bytes, the operation repeated until it fails (<=6 pieces)"
            #[kani::unwind(13)]
            fn $name(s) {
                let hs = BStr::<5>::any(s);
                let ds = BStr::<3>::any(s);
                let (h, d) = (hs.as_str(), ds.as_str());
                s.assume(d.len() > 0);
                let f = protocol::<_, &str, 5, 3, 8>(s, $op, h, d, d.as_bytes());
                cov!(s, f.dl == 3 && f.n == 2 && f.hl == 5, "C14.cover.protocol_big_delim3");
                cov!(s, f.dl == 1 && f.n == 6, "C14.cover.protocol_big_six_pieces");
            }
        }
    };
}
c14_protocol_big! {c14_protocol_split_str_big, Op::Split}
c14_protocol_big! {c14_protocol_rsplit_str_big, Op::RSplit}
c14_protocol_big! {c14_protocol_split_terminator_str_big, Op::SplitTerminator}
c14_protocol_big! {c14_protocol_rsplit_terminator_str_big, Op::RSplitTerminator}

// ---------------------------------------------------------------------------
// spec adequacy: the protocol reference vs the real str::split / rsplit.  The pattern is a closure
// matching exactly one char: same documented result as the `char` pattern, but std walks
// `char_indices` instead of the word-at-a-time memchr, which CBMC cannot afford six times in a
// row (C06's module ties the direct `char` pattern on shorter strings).

macro_rules! c14_spec_char {
    ($name:ident, $refseq:ident, $stdfn:ident, $o:literal) => {
        harness! {
            /// kind=bounded tier=thorough bound="spec adequacy: the protocol reference sequence vs the real std iterator with a closure pattern matching exactly one char (any char), string<=4 bytes"
            #[kani::unwind(8)]
            fn $name(s) {
                let hs = BStr::<4>::any(s);
                let c = s.char();
                let h = hs.as_str();
                let hb = h.as_bytes();
                let mut tmp = [0u8; 4];
                let db = c.encode_utf8(&mut tmp).as_bytes();
                let occ = occurrences::<4, 4>(hb, db);
                let q = $refseq::<4>(hb.len(), db.len(), &occ);
                let mut it = h.$stdfn(|x: char| x == c);
                let mut k = 0;
                while k < 6 {
                    let e = if k < q.n { Some((q.a[k], q.b[k])) } else { None };
                    chk!(s, match (it.next(), e) { (Some(p), Some((a, b))) => is_subslice_at(hb, p.as_bytes(), a, b), (None, None) => true, _ => false }, $o);
                    k += 1;
                }
                cov!(s, q.n == 3 && db.len() == 2 && hb.len() == 4, "SPEC.cover.char2_three_pieces");
                cov!(s, q.n == 5, "SPEC.cover.five_pieces");
            }
        }
    };
}
c14_spec_char! {c14_spec_split_char, ref_split_seq, split, "SPEC.ref_split_seq.eq_std_split_char"}
c14_spec_char! {c14_spec_rsplit_char, ref_rsplit_seq, rsplit, "SPEC.ref_rsplit_seq.eq_std_rsplit_char"}
