//! C20 — `str_concat!`, `str_join!`, `slice_concat!` and the CStr conversions equal their
//! std counterparts.
//!
//! The macros take constants, so rustc evaluates them; what the engines can reach is the
//! pair of `const fn`s each macro expands to (phase 1: sum of lengths, phase 2: fill a
//! `[u8; LEN]` / `[T; LEN]`).  The harnesses call exactly that pair the way the macro does
//! (`LEN` = result of phase 1 = the const generic of phase 2; one output length per harness)
//! on symbolic pieces/separators, and compare with a reference concatenation written here
//! (tied to the real `<[&str]>::concat` / `join` / `collect::<String>` / `<[&[T]]>::concat` in the thorough `SPEC.` harnesses at the end).
//! A handful of constant macro instances are compared with std at run time as a smoke step in
//! the separate module `c20m.rs`: rustc const-evaluates them while BUILDING the harness crate, so a
//! defect in the kernels turns them into a build error (E0080) that would hide every harness here.
//!
//! `string::from_iter!` rides on the iterator DSL (C10, not applicable) and is NOT covered.
use crate::hlib::*;
use core::ffi::CStr;
use konst::ffi::cstr;
use konst_kernel::string::{StrJoinArgs, __MakeSepArg, __NormalizeConcatArg, __SepArg, __StrConcatArg};

/// The kernels want `&'static` data because the macros only ever pass constants.  The harness
/// lends its locals for the duration of one call; nothing keeps the reference afterwards
/// (the results are arrays returned by value).
unsafe fn lend_strs<'a>(x: &'a [&'a str]) -> &'static [&'static str] {
    core::mem::transmute::<&'a [&'a str], &'static [&'static str]>(x)
}
unsafe fn lend_chars<'a>(x: &'a [char]) -> &'static [char] {
    core::mem::transmute::<&'a [char], &'static [char]>(x)
}
unsafe fn lend_str<'a>(x: &'a str) -> &'static str {
    core::mem::transmute::<&'a str, &'static str>(x)
}

/// reference output buffer
pub struct Buf {
    pub b: [u8; 16],
    pub n: usize,
}
impl Buf {
    fn new() -> Self { Buf { b: [0; 16], n: 0 } }
    fn push(&mut self, x: &[u8]) {
        let mut i = 0;
        while i < x.len() {
            self.b[self.n] = x[i];
            self.n += 1;
            i += 1;
        }
    }
    fn bytes(&self) -> &[u8] { &self.b[..self.n] }
}

/// reference for `<[&str]>::concat`
fn ref_concat(p: &[&str]) -> Buf {
    let mut o = Buf::new();
    let mut i = 0;
    while i < p.len() {
        o.push(p[i].as_bytes());
        i += 1;
    }
    o
}
/// reference for `chars.iter().collect::<String>()` (std's own `encode_utf8`)
fn ref_concat_chars(p: &[char]) -> Buf {
    let mut o = Buf::new();
    let mut i = 0;
    while i < p.len() {
        let mut tmp = [0u8; 4];
        o.push(p[i].encode_utf8(&mut tmp).as_bytes());
        i += 1;
    }
    o
}
/// reference for `<[&str]>::join`
fn ref_join(p: &[&str], sep: &[u8]) -> Buf {
    let mut o = Buf::new();
    let mut i = 0;
    while i < p.len() {
        if i > 0 {
            o.push(sep);
        }
        o.push(p[i].as_bytes());
        i += 1;
    }
    o
}

/// reference for `<[&[T]]>::concat` (at most 6 elements in total)
fn ref_slice_concat(pieces: &[&[u16]]) -> ([u16; 6], usize) {
    let mut want = [0u16; 6];
    let mut wn = 0;
    let mut i = 0;
    while i < pieces.len() {
        let mut j = 0;
        while j < pieces[i].len() {
            want[wn] = pieces[i][j];
            wn += 1;
            j += 1;
        }
        i += 1;
    }
    (want, wn)
}

/// The bytes of an `ArrayStr<N>` (`struct ArrayStr<const N: usize>([u8; N])`, private field) without going
/// through `as_str`, whose `core::str::from_utf8` costs CBMC more than the code under test
/// (`as_str` itself is exercised in `c20_array_str_as_str`).  A one-field struct of size N has its
/// field at offset 0.
fn raw<const N: usize>(a: &konst_kernel::string::ArrayStr<N>) -> &[u8; N] {
    assert!(core::mem::size_of::<konst_kernel::string::ArrayStr<N>>() == N);
    unsafe { &*(a as *const konst_kernel::string::ArrayStr<N> as *const [u8; N]) }
}

/// what a case saw, for the cover statements of its harness
pub struct Seen {
    pub n: usize,
    pub lens: [usize; 3],
    pub sep_len: usize,
    pub multibyte: bool,
}

// Every case below does what the macro does — phase 1 computes the length, phase 2 is instantiated
// with that length as its const generic — for ONE output length N per harness (a const generic
// cannot be symbolic): inputs whose computed length is not N are assumed away *after* the
// length obligation has been checked for them.

fn concat_strs_case<S: Src, const N: usize>(s: &mut S) -> Seen {
    let (a, b, c) = (BStr::<2>::any(s), BStr::<2>::any(s), BStr::<2>::any(s));
    let all = [a.as_str(), b.as_str(), c.as_str()];
    let n = s.upto(3);
    let pieces = &all[..n];
    let want = ref_concat(pieces);
    // what `str_concat!` expands to
    let arg = __NormalizeConcatArg(unsafe { lend_strs(pieces) }).conv();
    let len = konst_kernel::string::concat_sum_lengths(arg);
    chk!(s, len == want.n, "C20.concat_sum_lengths.eq_sum_of_lengths");
    s.assume(len == N);
    let out = konst_kernel::string::concat_strs::<N>(arg);
    chk!(s, eq_bytes(raw(&out), want.bytes()), "C20.concat_strs.eq_reference_concat");
    Seen { n, lens: [a.len, b.len, c.len], sep_len: 0, multibyte: want.n > 0 && want.b[0] >= 0xC2 }
}

fn concat_chars_case<S: Src, const N: usize>(s: &mut S) -> Seen {
    let all = [s.char(), s.char(), s.char()];
    let n = s.upto(3);
    let pieces = &all[..n];
    let want = ref_concat_chars(pieces);
    let arg = __NormalizeConcatArg(unsafe { lend_chars(pieces) }).conv();
    let len = konst_kernel::string::concat_sum_lengths(arg);
    chk!(s, len == want.n, "C20.concat_sum_lengths.chars.eq_sum_of_len_utf8");
    s.assume(len == N);
    let out = konst_kernel::string::concat_strs::<N>(arg);
    chk!(s, eq_bytes(raw(&out), want.bytes()), "C20.concat_strs.chars.eq_reference_concat");
    Seen { n, lens: [all[0].len_utf8(), all[1].len_utf8(), all[2].len_utf8()], sep_len: 0, multibyte: true }
}

fn join_case<S: Src, const N: usize>(s: &mut S, char_sep: bool) -> Seen {
    let (a, b, c) = (BStr::<2>::any(s), BStr::<2>::any(s), BStr::<2>::any(s));
    let all = [a.as_str(), b.as_str(), c.as_str()];
    let n = s.upto(3);
    let pieces = &all[..n];
    let by_ref = s.bool();
    let sp = BStr::<2>::any(s);
    let ch = s.char();
    let mut tmp = [0u8; 4];
    // what `str_join!` expands to; the separator may be `&str`, `&&str`, `char` or `&char`
    let (sep_bytes, sep_arg): (&[u8], __SepArg) = if char_sep {
        (ch.encode_utf8(&mut tmp).as_bytes(), if by_ref { __MakeSepArg(&ch).conv() } else { __MakeSepArg(ch).conv() })
    } else {
        let sep: &'static str = unsafe { lend_str(sp.as_str()) };
        (sp.as_bytes(), if by_ref { __MakeSepArg(&sep).conv() } else { __MakeSepArg(sep).conv() })
    };
    let want = ref_join(pieces, sep_bytes);
    let arg = StrJoinArgs { sep: sep_arg, slice: unsafe { lend_strs(pieces) } };
    let len = konst_kernel::string::join_sum_lengths(arg);
    chk!(s, len == want.n, "C20.join_sum_lengths.eq_length_of_join");
    s.assume(len == N);
    let out = konst_kernel::string::join_strs::<N>(arg);
    chk!(s, eq_bytes(raw(&out), want.bytes()), "C20.join_strs.eq_reference_join");
    Seen { n, lens: [a.len, b.len, c.len], sep_len: sep_bytes.len(), multibyte: sep_bytes.len() > 0 && sep_bytes[0] >= 0xC2 }
}

fn slice_concat_case<S: Src, const N: usize>(s: &mut S) -> Seen {
    let rawv = [[s.u16(), s.u16()], [s.u16(), s.u16()], [s.u16(), s.u16()]];
    let (l0, l1, l2) = (s.upto(2), s.upto(2), s.upto(2));
    let all: [&[u16]; 3] = [&rawv[0][..l0], &rawv[1][..l1], &rawv[2][..l2]];
    let n = s.upto(3);
    let pieces = &all[..n];
    let (want, wn) = ref_slice_concat(pieces);
    // what `slice_concat!` expands to
    let len = konst_kernel::slice::concat_sum_lengths(pieces);
    chk!(s, len == wn, "C20.slice_concat_sum_lengths.eq_sum_of_lengths");
    s.assume(len == N);
    let out: [u16; N] = konst_kernel::slice::concat_slices::<u16, N>(pieces);
    let mut same = true;
    let mut i = 0;
    while i < N {
        if out[i] != want[i] {
            same = false;
        }
        i += 1;
    }
    chk!(s, same, "C20.concat_slices.eq_reference_concat");
    Seen { n, lens: [l0, l1, l2], sep_len: 0, multibyte: false }
}

// ---- str_concat!, &str elements: 0..=3 pieces, each any valid UTF-8 string of <= 2 bytes

harness! {
    /// kind=bounded tier=quick bound="0..=3 string pieces of <=2 bytes (any valid UTF-8) whose lengths sum to 0: the empty list and lists of empty pieces"
    #[kani::unwind(6)]
    fn c20_str_concat_strs_n0(s) {
        let v = concat_strs_case::<_, 0>(s);
        cov!(s, v.n == 0, "C20.cover.concat_empty_list");
        cov!(s, v.n == 3, "C20.cover.concat_three_empty_pieces");
    }
}
harness! {
    /// kind=bounded tier=quick bound="0..=3 string pieces of <=2 bytes (any valid UTF-8, empty pieces included) whose lengths sum to 3"
    #[kani::unwind(6)]
    fn c20_str_concat_strs_n3(s) {
        let v = concat_strs_case::<_, 3>(s);
        cov!(s, v.n == 3 && v.lens[0] == 1 && v.lens[1] == 0 && v.lens[2] == 2, "C20.cover.concat_empty_piece_in_the_middle");
        cov!(s, v.n == 2 && v.multibyte, "C20.cover.concat_n3_two_pieces_multibyte_first");
        cov!(s, v.n == 3 && v.lens[0] == 1 && v.lens[1] == 1, "C20.cover.concat_n3_three_single_bytes");
    }
}
harness! {
    /// kind=bounded tier=quick bound="0..=3 string pieces of <=2 bytes (any valid UTF-8) whose lengths sum to 6: three full pieces"
    #[kani::unwind(8)]
    fn c20_str_concat_strs_n6(s) {
        let v = concat_strs_case::<_, 6>(s);
        cov!(s, v.n == 3 && v.multibyte, "C20.cover.concat_three_full_multibyte");
    }
}
harness! {
    /// kind=bounded tier=quick bound="0..=3 string pieces of <=2 bytes whose lengths sum to 1"
    #[kani::unwind(6)]
    fn c20_str_concat_strs_n1(s) {
        let v = concat_strs_case::<_, 1>(s);
        cov!(s, v.n == 3 && v.lens[2] == 1, "C20.cover.concat_n1_last");
    }
}
harness! {
    /// kind=bounded tier=quick bound="0..=3 string pieces of <=2 bytes whose lengths sum to 2"
    #[kani::unwind(6)]
    fn c20_str_concat_strs_n2(s) {
        let v = concat_strs_case::<_, 2>(s);
        cov!(s, v.n == 3 && v.lens[1] == 2, "C20.cover.concat_n2_middle");
    }
}
harness! {
    /// kind=bounded tier=quick bound="0..=3 string pieces of <=2 bytes whose lengths sum to 4"
    #[kani::unwind(7)]
    fn c20_str_concat_strs_n4(s) {
        let v = concat_strs_case::<_, 4>(s);
        cov!(s, v.n == 3 && v.lens[0] == 2 && v.lens[1] == 0, "C20.cover.concat_n4_2_0_2");
    }
}
harness! {
    /// kind=bounded tier=quick bound="0..=3 string pieces of <=2 bytes whose lengths sum to 5"
    #[kani::unwind(8)]
    fn c20_str_concat_strs_n5(s) {
        let v = concat_strs_case::<_, 5>(s);
        cov!(s, v.n == 3 && v.lens[1] == 1, "C20.cover.concat_n5_2_1_2");
    }
}

// ---- str_concat!, char elements: 0..=3 chars, any chars

harness! {
    /// kind=bounded tier=quick bound="0..=3 char elements (any chars) whose UTF-8 lengths sum to 4: one 4-byte char, 1+3, 2+2, 3+1, 1+1+2, ..."
    #[kani::unwind(7)]
    fn c20_str_concat_chars_n4(s) {
        let v = concat_chars_case::<_, 4>(s);
        cov!(s, v.n == 1, "C20.cover.concat_one_4byte_char");
        cov!(s, v.n == 2 && v.lens[0] == 3, "C20.cover.concat_chars_3_1");
        cov!(s, v.n == 3 && v.lens[1] == 2, "C20.cover.concat_chars_1_2_1");
    }
}
harness! {
    /// kind=bounded tier=quick bound="0..=3 char elements (any chars) whose UTF-8 lengths sum to 9: e.g. 4+4+1, 3+3+3, 2+3+4"
    #[kani::unwind(12)]
    fn c20_str_concat_chars_n9(s) {
        let v = concat_chars_case::<_, 9>(s);
        cov!(s, v.lens[0] == 2 && v.lens[1] == 3 && v.lens[2] == 4, "C20.cover.concat_chars_2_3_4");
        cov!(s, v.lens[0] == 4 && v.lens[1] == 1, "C20.cover.concat_chars_4_1_4");
    }
}
harness! {
    /// kind=bounded tier=quick bound="0..=3 char elements whose UTF-8 lengths sum to 0: the empty list only"
    #[kani::unwind(6)]
    fn c20_str_concat_chars_n0(s) {
        let v = concat_chars_case::<_, 0>(s);
        cov!(s, v.n == 0, "C20.cover.concat_chars_empty_list");
    }
}
harness! {
    /// kind=bounded tier=quick bound="0..=3 char elements (any chars) whose UTF-8 lengths sum to 12: three 4-byte chars"
    #[kani::unwind(15)]
    fn c20_str_concat_chars_n12(s) {
        let v = concat_chars_case::<_, 12>(s);
        cov!(s, v.n == 3, "C20.cover.concat_chars_4_4_4");
    }
}
harness! {
    /// kind=bounded tier=quick bound="0..=3 char elements (any chars) whose UTF-8 lengths sum to 6"
    #[kani::unwind(9)]
    fn c20_str_concat_chars_n6(s) {
        let v = concat_chars_case::<_, 6>(s);
        cov!(s, v.n == 3 && v.lens[0] == 1 && v.lens[1] == 4, "C20.cover.concat_chars_1_4_1");
    }
}

// ---- str_join!: 0..=3 pieces of <= 2 bytes; separator: &str of <= 2 bytes, or any char

harness! {
    /// kind=bounded tier=quick bound="0..=3 string pieces of <=2 bytes, &str separator of <=2 bytes (by value / by reference), joined length 0: empty list, one empty piece, empty pieces with an empty separator"
    #[kani::unwind(6)]
    fn c20_str_join_strsep_n0(s) {
        let v = join_case::<_, 0>(s, false);
        cov!(s, v.n == 0 && v.sep_len == 2, "C20.cover.join_empty_list");
        cov!(s, v.n == 1 && v.sep_len == 2, "C20.cover.join_single_empty_piece_no_sep");
        cov!(s, v.n == 3 && v.sep_len == 0, "C20.cover.join_all_empty");
    }
}
harness! {
    /// kind=bounded tier=quick bound="0..=3 string pieces of <=2 bytes, &str separator of <=2 bytes (empty and 2-byte-char separators included), joined length 4"
    #[kani::unwind(7)]
    fn c20_str_join_strsep_n4(s) {
        let v = join_case::<_, 4>(s, false);
        cov!(s, v.n == 3 && v.sep_len == 2 && v.multibyte, "C20.cover.join_all_pieces_empty_multibyte_sep");
        cov!(s, v.n == 2 && v.sep_len == 1 && v.lens[0] == 1, "C20.cover.join_n4_two_pieces");
        cov!(s, v.n == 3 && v.sep_len == 0, "C20.cover.join_n4_empty_sep");
        cov!(s, v.n == 3 && v.sep_len == 1 && v.lens[0] == 0 && v.lens[1] == 2, "C20.cover.join_n4_leading_empty_piece");
    }
}
harness! {
    /// kind=bounded tier=quick bound="0..=3 string pieces of <=2 bytes, &str separator of <=2 bytes, joined length 5"
    #[kani::unwind(8)]
    fn c20_str_join_strsep_n5(s) {
        let v = join_case::<_, 5>(s, false);
        cov!(s, v.n == 3 && v.sep_len == 2 && v.lens[0] == 1 && v.lens[1] == 0 && v.multibyte, "C20.cover.join_n5_1_0_0_multibyte_sep");
        cov!(s, v.n == 3 && v.sep_len == 1 && v.lens[0] == 1 && v.lens[1] == 1, "C20.cover.join_n5_1_1_1");
        cov!(s, v.n == 2 && v.sep_len == 1 && v.lens[0] == 2, "C20.cover.join_n5_two_full_pieces");
    }
}
harness! {
    /// kind=bounded tier=quick bound="0..=3 string pieces of <=2 bytes, &str separator of <=2 bytes, joined length 6"
    #[kani::unwind(9)]
    fn c20_str_join_strsep_n6(s) {
        let v = join_case::<_, 6>(s, false);
        cov!(s, v.n == 3 && v.sep_len == 2 && v.lens[0] == 0 && v.lens[1] == 0 && v.multibyte, "C20.cover.join_n6_0_0_2_multibyte_sep");
        cov!(s, v.n == 3 && v.sep_len == 1 && v.lens[1] == 2, "C20.cover.join_n6_1_2_1");
        cov!(s, v.n == 2 && v.sep_len == 2, "C20.cover.join_n6_two_pieces");
    }
}
harness! {
    /// kind=bounded tier=thorough bound="0..=3 string pieces of <=2 bytes, &str separator of <=2 bytes, joined length 10: three full pieces and two 2-byte separators"
    #[kani::unwind(13)]
    fn c20_str_join_strsep_n10(s) {
        let v = join_case::<_, 10>(s, false);
        cov!(s, v.n == 3 && v.multibyte, "C20.cover.join_full_multibyte_sep");
    }
}
harness! {
    /// kind=bounded tier=thorough bound="0..=3 string pieces of <=2 bytes, &str separator of <=2 bytes, joined length 7"
    #[kani::unwind(10)]
    fn c20_str_join_strsep_n7(s) {
        let v = join_case::<_, 7>(s, false);
        cov!(s, v.n == 3 && v.sep_len == 1 && v.lens[1] == 1, "C20.cover.join_n7_2_1_2");
        cov!(s, v.n == 3 && v.sep_len == 2 && v.lens[0] == 1 && v.lens[1] == 1, "C20.cover.join_n7_1_1_1");
    }
}
harness! {
    /// kind=bounded tier=quick bound="0..=3 string pieces of <=2 bytes, char separator (any char, by value / by reference), joined length 6: e.g. three empty pieces and two 3-byte separators, 1+4+1, 2+2+2"
    #[kani::unwind(9)]
    fn c20_str_join_charsep_n6(s) {
        let v = join_case::<_, 6>(s, true);
        cov!(s, v.n == 3 && v.sep_len == 3, "C20.cover.join_3byte_char_sep_empty_pieces");
        cov!(s, v.n == 2 && v.sep_len == 4, "C20.cover.join_4byte_char_sep");
        cov!(s, v.n == 3 && v.sep_len == 1 && v.lens[1] == 0, "C20.cover.join_ascii_char_sep_empty_middle");
    }
}
harness! {
    /// kind=bounded tier=thorough bound="0..=3 string pieces of <=2 bytes, char separator (any char), joined length 14: three full pieces and two 4-byte separators"
    #[kani::unwind(17)]
    fn c20_str_join_charsep_n14(s) {
        let v = join_case::<_, 14>(s, true);
        cov!(s, v.n == 3 && v.sep_len == 4, "C20.cover.join_4byte_char_sep_full");
    }
}
harness! {
    /// kind=bounded tier=thorough bound="0..=3 string pieces of <=2 bytes, char separator (any char), joined length 9"
    #[kani::unwind(12)]
    fn c20_str_join_charsep_n9(s) {
        let v = join_case::<_, 9>(s, true);
        cov!(s, v.n == 3 && v.sep_len == 2, "C20.cover.join_n9_2byte_char_sep");
    }
}

// ---- slice_concat!: 0..=3 slices of <= 2 u16 elements

harness! {
    /// kind=bounded tier=quick bound="0..=3 slices of <=2 u16 elements (any values) whose lengths sum to 0: the empty list and lists of empty slices"
    #[kani::unwind(6)]
    fn c20_slice_concat_n0(s) {
        let v = slice_concat_case::<_, 0>(s);
        cov!(s, v.n == 0, "C20.cover.slice_concat_empty_list");
        cov!(s, v.n == 2, "C20.cover.slice_concat_only_empty_slices");
    }
}
harness! {
    /// kind=bounded tier=quick bound="0..=3 slices of <=2 u16 elements (any values, empty slices included) whose lengths sum to 3"
    #[kani::unwind(6)]
    fn c20_slice_concat_n3(s) {
        let v = slice_concat_case::<_, 3>(s);
        cov!(s, v.n == 3 && v.lens[0] == 0 && v.lens[1] == 1 && v.lens[2] == 2, "C20.cover.slice_concat_leading_empty_slice");
        cov!(s, v.n == 2 && v.lens[0] == 2, "C20.cover.slice_concat_n3_two_slices");
    }
}
harness! {
    /// kind=bounded tier=quick bound="0..=3 slices of <=2 u16 elements (any values) whose lengths sum to 6: three full slices"
    #[kani::unwind(8)]
    fn c20_slice_concat_n6(s) {
        let v = slice_concat_case::<_, 6>(s);
        cov!(s, v.n == 3, "C20.cover.slice_concat_full");
    }
}
harness! {
    /// kind=bounded tier=quick bound="0..=3 slices of <=2 u16 elements whose lengths sum to 2 (leading empty slices before the first element)"
    #[kani::unwind(6)]
    fn c20_slice_concat_n2(s) {
        let v = slice_concat_case::<_, 2>(s);
        cov!(s, v.n == 3 && v.lens[0] == 0 && v.lens[1] == 0, "C20.cover.slice_concat_two_leading_empty_slices");
    }
}

harness! {
    /// kind=bounded tier=quick bound="ArrayStr::<4>::as_str on the output of concat_strs for 2 pieces of exactly 2 bytes each (any valid UTF-8): same bytes, no panic"
    #[kani::unwind(7)]
    fn c20_array_str_as_str(s) {
        let (a, b) = (BStr::<2>::any(s), BStr::<2>::any(s));
        s.assume(a.len == 2 && b.len == 2);
        let all = [a.as_str(), b.as_str()];
        let arg = __NormalizeConcatArg(unsafe { lend_strs(&all) }).conv();
        let out = konst_kernel::string::concat_strs::<4>(arg);
        let st: &str = out.as_str();
        chk!(s, same_slice(st.as_bytes(), raw(&out)), "C20.array_str.as_str.is_the_array");
        chk!(s, st.len() == 4 && st.as_bytes()[0] == a.buf[0] && st.as_bytes()[3] == b.buf[1], "C20.array_str.as_str.bytes");
        cov!(s, a.buf[0] >= 0xC2 && b.buf[0] < 0x80, "C20.cover.as_str_mixed");
    }
}

// ---------------------------------------------------------------------------
// CStr

fn same_cstr(a: &CStr, b: &CStr) -> bool {
    same_slice(a.to_bytes_with_nul(), b.to_bytes_with_nul())
}

fn cstr_constructors_case<S: Src, const L: usize>(s: &mut S) -> ([u8; L], usize, bool, bool) {
    let raw: [u8; L] = s.bytes();
    let len = s.upto(L);
    let b = &raw[..len];
    let k = cstr::from_bytes_until_nul(b);
    let e = CStr::from_bytes_until_nul(b);
    chk!(s, k.is_ok() == e.is_ok(), "C20.cstr.from_bytes_until_nul.ok_iff_std");
    if let (Ok(kc), Ok(ec)) = (&k, &e) {
        chk!(s, same_cstr(kc, ec), "C20.cstr.from_bytes_until_nul.same_cstr_as_std");
    }
    let k2 = cstr::from_bytes_with_nul(b);
    let e2 = CStr::from_bytes_with_nul(b);
    chk!(s, k2.is_ok() == e2.is_ok(), "C20.cstr.from_bytes_with_nul.ok_iff_std");
    if let (Ok(kc), Ok(ec)) = (&k2, &e2) {
        chk!(s, same_cstr(kc, ec), "C20.cstr.from_bytes_with_nul.same_cstr_as_std");
    }
    (raw, len, e.is_ok(), e2.is_ok())
}

harness! {
    /// kind=bounded tier=quick bound="every byte string of length 0..=6, all byte values (nul anywhere, several nuls, no nul)"
    #[kani::unwind(10)]
    fn c20_cstr_constructors(s) {
        let (raw, len, until_ok, with_ok) = cstr_constructors_case::<_, 6>(s);
        cov!(s, len == 6 && raw[2] == 0 && raw[5] == 0 && raw[0] != 0 && raw[1] != 0, "C20.cover.cstr_interior_and_final_nul");
        cov!(s, len == 6 && with_ok, "C20.cover.cstr_with_nul_ok");
        cov!(s, len == 6 && !until_ok, "C20.cover.cstr_no_nul");
        cov!(s, len == 0, "C20.cover.cstr_empty_input");
        cov!(s, len == 3 && raw[0] == 0, "C20.cover.cstr_leading_nul");
    }
}

harness! {
    /// kind=bounded tier=quick bound="every byte string of length 0..=9, all byte values (std's word-at-a-time memchr path, which needs >= 16 bytes, is not reached)"
    #[kani::unwind(13)]
    fn c20_cstr_constructors_big(s) {
        let (raw, len, until_ok, with_ok) = cstr_constructors_case::<_, 9>(s);
        cov!(s, len == 9 && with_ok, "C20.cover.cstr_big_with_nul_ok");
        cov!(s, len == 9 && until_ok && !with_ok && raw[8] == 0, "C20.cover.cstr_big_interior_and_final_nul");
    }
}

/// the CStr std builds from the first nul-terminated prefix of `b` (inputs without a nul are assumed away)
fn std_cstr<'a, S: Src>(s: &mut S, b: &'a [u8]) -> &'a CStr {
    match CStr::from_bytes_until_nul(b) {
        Ok(c) => c,
        Err(_) => {
            s.assume(false);
            unreachable!()
        }
    }
}

harness! {
    /// kind=bounded tier=quick bound="every CStr std builds from a byte string of length 1..=5, all byte values (content 0..=4 bytes before the first nul)"
    #[kani::unwind(9)]
    fn c20_cstr_to_bytes(s) {
        let raw: [u8; 5] = s.bytes();
        let len = s.upto(5);
        let c = std_cstr(s, &raw[..len]);
        chk!(s, same_slice(cstr::to_bytes_with_nul(c), c.to_bytes_with_nul()), "C20.cstr.to_bytes_with_nul.eq_std");
        chk!(s, same_slice(cstr::to_bytes(c), c.to_bytes()), "C20.cstr.to_bytes.eq_std");
        cov!(s, c.to_bytes().len() == 4, "C20.cover.cstr_to_bytes_4");
        cov!(s, c.to_bytes().len() == 0 && len == 5, "C20.cover.cstr_empty_with_trailing_bytes");
    }
}

harness! {
    /// kind=bounded tier=quick bound="every CStr std builds from a byte string of length 1..=4, all byte values (content 0..=3 bytes: 1-, 2-, 3-byte chars and every invalid sequence of that size); std's to_str is from_utf8(to_bytes()), stated through hlib::utf8_ok (tied to core::str::from_utf8 in c03_spec_utf8_ok; direct comparison in the thorough twin c20_cstr_to_str_vs_std)"
    #[kani::unwind(7)]
    fn c20_cstr_to_str(s) {
        let raw: [u8; 4] = s.bytes();
        let len = s.upto(4);
        let c = std_cstr(s, &raw[..len]);
        let k = cstr::to_str(c);
        let valid = utf8_ok(c.to_bytes());
        chk!(s, k.is_ok() == valid, "C20.cstr.to_str.ok_iff_valid_utf8");
        if let Ok(ks) = &k {
            chk!(s, same_slice(ks.as_bytes(), c.to_bytes()), "C20.cstr.to_str.is_to_bytes");
        }
        cov!(s, c.to_bytes().len() == 3 && valid && raw[0] >= 0xE0, "C20.cover.cstr_to_str_3byte_char");
        cov!(s, c.to_bytes().len() == 3 && !valid && raw[0] >= 0xE0, "C20.cover.cstr_to_str_invalid");
        cov!(s, c.to_bytes().len() == 0, "C20.cover.cstr_to_str_empty");
    }
}

harness! {
    /// kind=bounded tier=quick bound="every CStr std builds from a byte string of length 1..=5, all byte values (content 0..=4 bytes, valid and invalid UTF-8), against CStr::to_str itself"
    #[kani::unwind(9)]
    fn c20_cstr_to_str_vs_std(s) {
        let raw: [u8; 5] = s.bytes();
        let len = s.upto(5);
        let c = std_cstr(s, &raw[..len]);
        let k = cstr::to_str(c);
        let e = c.to_str();
        chk!(s, k.is_ok() == e.is_ok(), "C20.cstr.to_str.ok_iff_std");
        if let (Ok(ks), Ok(es)) = (&k, &e) {
            chk!(s, same_str(ks, es), "C20.cstr.to_str.same_str_as_std");
        }
        if let (Err(ke), Err(ee)) = (&k, &e) {
            chk!(s, ke.0.valid_up_to() == ee.valid_up_to() && ke.0.error_len() == ee.error_len(), "C20.cstr.to_str.same_utf8_error_as_std");
        }
        cov!(s, matches!(&e, Err(x) if x.error_len().is_none()), "C20.cover.cstr_to_str_truncated_sequence_at_end");
        cov!(s, c.to_bytes().len() == 4 && e.is_ok() && raw[0] >= 0xF0, "C20.cover.cstr_to_str_4byte_char");
        cov!(s, c.to_bytes().len() == 4 && e.is_err(), "C20.cover.cstr_to_str_4_invalid");
    }
}

// ---------------------------------------------------------------------------
// spec adequacy: the references above vs the real std functions

/// any valid UTF-8 string of exactly `L` bytes (concrete length: std's `join` is affordable for CBMC only then)
fn fixed<'a, S: Src, const L: usize>(s: &mut S, buf: &'a mut [u8; L]) -> &'a str {
    *buf = s.bytes();
    let ok = utf8_ok(&buf[..]);
    s.assume(ok);
    unsafe { core::str::from_utf8_unchecked(&buf[..]) }
}

harness! {
    /// kind=bounded tier=quick bound="spec adequacy: ref_concat vs <[&str]>::concat, 0..=2 pieces of <=2 bytes (any valid UTF-8)"
    #[kani::unwind(8)]
    fn c20_spec_concat_vs_std(s) {
        let (a, b) = (BStr::<2>::any(s), BStr::<2>::any(s));
        let all = [a.as_str(), b.as_str()];
        let n = s.upto(2);
        let cat: String = all[..n].concat();
        chk!(s, eq_bytes(cat.as_bytes(), ref_concat(&all[..n]).bytes()), "SPEC.ref_concat.eq_std_concat");
        cov!(s, n == 2 && cat.len() == 4, "SPEC.cover.concat_full");
    }
}

harness! {
    /// kind=bounded tier=thorough bound="spec adequacy: ref_concat_chars vs collect::<String>, 0..=2 chars (any chars)"
    #[kani::unwind(11)]
    fn c20_spec_collect_vs_std(s) {
        let chars = [s.char(), s.char()];
        let cn = s.upto(2);
        let collected: String = chars[..cn].iter().collect();
        chk!(s, eq_bytes(collected.as_bytes(), ref_concat_chars(&chars[..cn]).bytes()), "SPEC.ref_concat_chars.eq_std_collect");
        cov!(s, cn == 2 && collected.len() == 8, "SPEC.cover.collect_full");
    }
}

harness! {
    /// kind=bounded tier=quick bound="spec adequacy: ref_join vs <[&str]>::join on concrete shapes with symbolic contents: pieces (2,0,1) with a 2-byte separator, (1,2) with an empty separator, (0,0,0) with a 1-byte separator, (2) and () with a 2-byte separator"
    #[kani::unwind(10)]
    fn c20_spec_join_vs_std(s) {
        let (mut b0, mut b1, mut b2, mut e0, mut e1, mut e2) = ([0u8; 0], [0u8; 1], [0u8; 2], [0u8; 0], [0u8; 1], [0u8; 2]);
        let (p0, p1, p2) = (fixed(s, &mut b0), fixed(s, &mut b1), fixed(s, &mut b2));
        let (s0, s1, s2) = (fixed(s, &mut e0), fixed(s, &mut e1), fixed(s, &mut e2));
        let l: [&str; 3] = [p2, p0, p1];
        chk!(s, eq_bytes(l.join(s2).as_bytes(), ref_join(&l, s2.as_bytes()).bytes()), "SPEC.ref_join.eq_std_join.2_0_1_sep2");
        let l: [&str; 2] = [p1, p2];
        chk!(s, eq_bytes(l.join(s0).as_bytes(), ref_join(&l, s0.as_bytes()).bytes()), "SPEC.ref_join.eq_std_join.1_2_sep0");
        let l: [&str; 3] = [p0, p0, p0];
        chk!(s, eq_bytes(l.join(s1).as_bytes(), ref_join(&l, s1.as_bytes()).bytes()), "SPEC.ref_join.eq_std_join.0_0_0_sep1");
        let l: [&str; 1] = [p2];
        chk!(s, eq_bytes(l.join(s2).as_bytes(), ref_join(&l, s2.as_bytes()).bytes()), "SPEC.ref_join.eq_std_join.single");
        let l: [&str; 0] = [];
        chk!(s, eq_bytes(l.join(s2).as_bytes(), ref_join(&l, s2.as_bytes()).bytes()), "SPEC.ref_join.eq_std_join.empty_list");
        cov!(s, b2[0] >= 0xC2 && e2[0] >= 0xC2, "SPEC.cover.join_multibyte");
    }
}

harness! {
    /// kind=bounded tier=thorough bound="spec adequacy: ref_slice_concat vs <[&[u16]]>::concat, 0..=2 slices of <=2 elements (any values)"
    #[kani::unwind(8)]
    fn c20_spec_slice_concat_vs_std(s) {
        let rawv = [[s.u16(), s.u16()], [s.u16(), s.u16()]];
        let (l0, l1) = (s.upto(2), s.upto(2));
        let all: [&[u16]; 2] = [&rawv[0][..l0], &rawv[1][..l1]];
        let n = s.upto(2);
        let v: Vec<u16> = all[..n].concat();
        let (want, wn) = ref_slice_concat(&all[..n]);
        let mut same = v.len() == wn;
        let mut i = 0;
        while i < 4 {
            if same && i < wn && v[i] != want[i] {
                same = false;
            }
            i += 1;
        }
        chk!(s, same, "SPEC.ref_slice_concat.eq_std_concat");
        cov!(s, n == 2 && wn == 4, "SPEC.cover.slice_concat_full");
    }
}
