//! C20 — `str_concat!`, `str_join!`, `slice_concat!` and the CStr conversions equal their
//! std counterparts.
//!
//! The macros take constants, so rustc evaluates them; what the engines can reach is the
//! pair of `const fn`s each macro expands to (phase 1: sum of lengths, phase 2: fill a
//! `[u8; LEN]` / `[T; LEN]`).  The harnesses call exactly that pair the way the macro does
//! (`LEN` = result of phase 1, passed as the const generic of phase 2 through `dispatch!`)
//! on symbolic pieces/separators, and compare with a reference concatenation written here
//! (tied to the real `<[&str]>::concat` / `join` / `<[&[T]]>::concat` in the `SPEC.` harness).
//! A handful of constant macro instances are compared with std at run time as a smoke step.
//!
//! `string::from_iter!` rides on the iterator DSL (C10, not applicable) and is NOT covered.
use crate::hlib::*;
use core::ffi::CStr;
use konst::ffi::cstr;
use konst_kernel::string::{StrJoinArgs, __MakeSepArg, __NormalizeConcatArg, __SepArg, __StrConcatArg};

/// The kernels want `&'static` data because the macros only ever pass constants.  The harness
/// lends its locals for the duration of one call; nothing keeps the reference afterwards
/// (the results are arrays returned by value).
unsafe fn lend_strs<'a>(x: &'a [&'a str]) -> &'static [&'static str] {
    core::mem::transmute::<&'a [&'a str], &'static [&'static str]>(x)
}
unsafe fn lend_chars<'a>(x: &'a [char]) -> &'static [char] {
    core::mem::transmute::<&'a [char], &'static [char]>(x)
}
unsafe fn lend_str<'a>(x: &'a str) -> &'static str {
    core::mem::transmute::<&'a str, &'static str>(x)
}

/// reference output buffer
pub struct Buf {
    pub b: [u8; 16],
    pub n: usize,
}
impl Buf {
    fn new() -> Self { Buf { b: [0; 16], n: 0 } }
    fn push(&mut self, x: &[u8]) {
        let mut i = 0;
        while i < x.len() {
            self.b[self.n] = x[i];
            self.n += 1;
            i += 1;
        }
    }
    fn bytes(&self) -> &[u8] { &self.b[..self.n] }
}

/// reference for `<[&str]>::concat`
fn ref_concat(p: &[&str]) -> Buf {
    let mut o = Buf::new();
    let mut i = 0;
    while i < p.len() {
        o.push(p[i].as_bytes());
        i += 1;
    }
    o
}
/// reference for `chars.iter().collect::<String>()` (std's own `encode_utf8`)
fn ref_concat_chars(p: &[char]) -> Buf {
    let mut o = Buf::new();
    let mut i = 0;
    while i < p.len() {
        let mut tmp = [0u8; 4];
        o.push(p[i].encode_utf8(&mut tmp).as_bytes());
        i += 1;
    }
    o
}
/// reference for `<[&str]>::join`
fn ref_join(p: &[&str], sep: &[u8]) -> Buf {
    let mut o = Buf::new();
    let mut i = 0;
    while i < p.len() {
        if i > 0 {
            o.push(sep);
        }
        o.push(p[i].as_bytes());
        i += 1;
    }
    o
}

/// phase 2 with `N` = the length phase 1 computed (what `const LEN` does in the macros)
macro_rules! dispatch {
    ($n:expr, $f:ident, $args:tt, [$($k:literal)*]) => {
        match $n {
            $($k => $f::<_, $k> $args,)*
            _ => false,
        }
    };
}

fn concat_n<S: Src, const N: usize>(s: &mut S, arg: __StrConcatArg, want: &[u8]) -> bool {
    let out = konst_kernel::string::concat_strs::<N>(arg);
    // `as_str` re-validates with from_utf8 and panics on invalid UTF-8 (a failed check if it could)
    let got = out.as_str();
    chk!(s, eq_bytes(got.as_bytes(), want), "C20.concat_strs.eq_reference_concat");
    true
}
fn join_n<S: Src, const N: usize>(s: &mut S, arg: StrJoinArgs, want: &[u8]) -> bool {
    let out = konst_kernel::string::join_strs::<N>(arg);
    let got = out.as_str();
    chk!(s, eq_bytes(got.as_bytes(), want), "C20.join_strs.eq_reference_join");
    true
}
fn slices_n<S: Src, const N: usize>(s: &mut S, arg: &[&[u16]], want: &[u16]) -> bool {
    let out: [u16; N] = konst_kernel::slice::concat_slices::<u16, N>(arg);
    let mut same = want.len() == N;
    let mut i = 0;
    while i < N {
        if same && out[i] != want[i] {
            same = false;
        }
        i += 1;
    }
    chk!(s, same, "C20.concat_slices.eq_reference_concat");
    true
}

harness! {
    /// kind=bounded tier=quick bound="0..=3 string pieces, each any valid UTF-8 string of <=2 bytes (empty pieces and 2-byte chars included); output length = the computed sum (0..=6)"
    #[kani::unwind(10)]
    fn c20_str_concat_strs(s) {
        let (a, b, c) = (BStr::<2>::any(s), BStr::<2>::any(s), BStr::<2>::any(s));
        let all = [a.as_str(), b.as_str(), c.as_str()];
        let n = s.upto(3);
        let pieces = &all[..n];
        let want = ref_concat(pieces);
        // what `str_concat!` expands to
        let arg = __NormalizeConcatArg(unsafe { lend_strs(pieces) }).conv();
        let len = konst_kernel::string::concat_sum_lengths(arg);
        chk!(s, len == want.n, "C20.concat_sum_lengths.eq_sum_of_lengths");
        let ran = dispatch!(len, concat_n, (s, arg, want.bytes()), [0 1 2 3 4 5 6]);
        chk!(s, ran, "C20.concat_strs.length_in_range");
        cov!(s, n == 3 && want.n == 6 && want.b[0] >= 0xC2, "C20.cover.concat_three_full_multibyte");
        cov!(s, n == 3 && a.len == 1 && b.len == 0 && c.len == 2, "C20.cover.concat_empty_piece_in_the_middle");
        cov!(s, n == 0, "C20.cover.concat_empty_list");
    }
}

harness! {
    /// kind=bounded tier=quick bound="0..=2 char elements, any chars (1..4 bytes each); output length = the computed sum (0..=8)"
    #[kani::unwind(12)]
    fn c20_str_concat_chars(s) {
        let all = [s.char(), s.char()];
        let n = s.upto(2);
        let pieces = &all[..n];
        let want = ref_concat_chars(pieces);
        let arg = __NormalizeConcatArg(unsafe { lend_chars(pieces) }).conv();
        let len = konst_kernel::string::concat_sum_lengths(arg);
        chk!(s, len == want.n, "C20.concat_sum_lengths.chars.eq_sum_of_len_utf8");
        let ran = dispatch!(len, concat_n, (s, arg, want.bytes()), [0 1 2 3 4 5 6 7 8]);
        chk!(s, ran, "C20.concat_strs.chars.length_in_range");
        cov!(s, n == 2 && want.n == 8, "C20.cover.concat_two_4byte_chars");
        cov!(s, n == 2 && all[0].len_utf8() == 3 && all[1].len_utf8() == 2, "C20.cover.concat_chars_3_2");
        cov!(s, n == 1 && want.n == 1, "C20.cover.concat_one_ascii_char");
    }
}

harness! {
    /// kind=bounded tier=quick bound="0..=3 string pieces of <=2 bytes, &str separator of <=2 bytes (empty and 2-byte-char separators included), passed by value and by reference; output length = the computed length (0..=10)"
    #[kani::unwind(14)]
    fn c20_str_join_strsep(s) {
        let (a, b, c) = (BStr::<2>::any(s), BStr::<2>::any(s), BStr::<2>::any(s));
        let sp = BStr::<2>::any(s);
        let all = [a.as_str(), b.as_str(), c.as_str()];
        let n = s.upto(3);
        let pieces = &all[..n];
        let want = ref_join(pieces, sp.as_bytes());
        let sep: &'static str = unsafe { lend_str(sp.as_str()) };
        // what `str_join!` expands to (separator given as `&str` or `&&str`)
        let sep_arg = if s.bool() { __MakeSepArg(sep).conv() } else { __MakeSepArg(&sep).conv() };
        let arg = StrJoinArgs { sep: sep_arg, slice: unsafe { lend_strs(pieces) } };
        let len = konst_kernel::string::join_sum_lengths(arg);
        chk!(s, len == want.n, "C20.join_sum_lengths.eq_length_of_join");
        let ran = dispatch!(len, join_n, (s, arg, want.bytes()), [0 1 2 3 4 5 6 7 8 9 10]);
        chk!(s, ran, "C20.join_strs.length_in_range");
        cov!(s, n == 3 && want.n == 10 && sp.buf[0] >= 0xC2, "C20.cover.join_full_multibyte_sep");
        cov!(s, n == 3 && sp.len == 0 && want.n == 3, "C20.cover.join_empty_sep");
        cov!(s, n == 3 && a.len == 0 && b.len == 0 && c.len == 0 && sp.len == 1, "C20.cover.join_all_pieces_empty");
        cov!(s, n == 1 && sp.len == 2 && want.n == a.len, "C20.cover.join_single_piece_no_sep");
        cov!(s, n == 0 && sp.len == 2, "C20.cover.join_empty_list");
    }
}

harness! {
    /// kind=bounded tier=quick bound="0..=3 string pieces of <=2 bytes, char separator (any char, 1..4 bytes), passed by value and by reference; output length = the computed length (0..=14)"
    #[kani::unwind(18)]
    fn c20_str_join_charsep(s) {
        let (a, b, c) = (BStr::<2>::any(s), BStr::<2>::any(s), BStr::<2>::any(s));
        let ch = s.char();
        let all = [a.as_str(), b.as_str(), c.as_str()];
        let n = s.upto(3);
        let pieces = &all[..n];
        let mut tmp = [0u8; 4];
        let want = ref_join(pieces, ch.encode_utf8(&mut tmp).as_bytes());
        let sep_arg = if s.bool() { __MakeSepArg(ch).conv() } else { __MakeSepArg(&ch).conv() };
        let arg = StrJoinArgs { sep: sep_arg, slice: unsafe { lend_strs(pieces) } };
        let len = konst_kernel::string::join_sum_lengths(arg);
        chk!(s, len == want.n, "C20.join_sum_lengths.char_sep.eq_length_of_join");
        let ran = dispatch!(len, join_n, (s, arg, want.bytes()), [0 1 2 3 4 5 6 7 8 9 10 11 12 13 14]);
        chk!(s, ran, "C20.join_strs.char_sep.length_in_range");
        cov!(s, n == 3 && want.n == 14, "C20.cover.join_4byte_char_sep_full");
        cov!(s, n == 2 && ch.len_utf8() == 3 && a.len == 0, "C20.cover.join_3byte_char_sep_empty_first");
        cov!(s, n == 0, "C20.cover.join_char_sep_empty_list");
    }
}

harness! {
    /// kind=bounded tier=quick bound="0..=3 slices of <=2 u16 elements each (any values, empty slices included); output length = the computed sum (0..=6)"
    #[kani::unwind(10)]
    fn c20_slice_concat(s) {
        let raw = [[s.u16(), s.u16()], [s.u16(), s.u16()], [s.u16(), s.u16()]];
        let (l0, l1, l2) = (s.upto(2), s.upto(2), s.upto(2));
        let all: [&[u16]; 3] = [&raw[0][..l0], &raw[1][..l1], &raw[2][..l2]];
        let n = s.upto(3);
        let pieces = &all[..n];
        // reference for `<[&[T]]>::concat`
        let mut want = [0u16; 6];
        let mut wn = 0;
        let mut i = 0;
        while i < pieces.len() {
            let mut j = 0;
            while j < pieces[i].len() {
                want[wn] = pieces[i][j];
                wn += 1;
                j += 1;
            }
            i += 1;
        }
        // what `slice_concat!` expands to
        let len = konst_kernel::slice::concat_sum_lengths(pieces);
        chk!(s, len == wn, "C20.slice_concat_sum_lengths.eq_sum_of_lengths");
        let ran = dispatch!(len, slices_n, (s, pieces, &want[..wn]), [0 1 2 3 4 5 6]);
        chk!(s, ran, "C20.concat_slices.length_in_range");
        cov!(s, n == 3 && wn == 6, "C20.cover.slice_concat_full");
        cov!(s, n == 3 && l0 == 0 && l1 == 0 && l2 == 2, "C20.cover.slice_concat_leading_empty_slices");
        cov!(s, n == 2 && wn == 0, "C20.cover.slice_concat_only_empty_slices");
        cov!(s, n == 0, "C20.cover.slice_concat_empty_list");
    }
}

harness! {
    /// kind=bounded tier=quick bound="SMOKE ONLY, not a proof: 14 constant macro instances (rustc evaluates them) compared with std concat/join/collect at run time"
    #[kani::unwind(40)]
    fn c20_macro_instances(s) {
        use konst::slice::slice_concat;
        use konst::string::{str_concat, str_join};
        const S: &[&str] = &["these ", "are ", "wörds"];
        const C: &[char] = &['a', 'é', '€', '😀'];
        const COMMA: &str = ", ";
        chk!(s, eq_bytes(str_concat!(&["a", "é", ""]).as_bytes(), ["a", "é", ""].concat().as_bytes()), "C20.macro_instance.str_concat.literal_list");
        chk!(s, eq_bytes(str_concat!(S).as_bytes(), S.concat().as_bytes()), "C20.macro_instance.str_concat.const_list");
        chk!(s, eq_bytes(str_concat!(&[]).as_bytes(), b""), "C20.macro_instance.str_concat.empty_list");
        chk!(s, eq_bytes(str_concat!(&["", ""]).as_bytes(), ["", ""].concat().as_bytes()), "C20.macro_instance.str_concat.only_empty_pieces");
        chk!(s, eq_bytes(str_concat!(C).as_bytes(), C.iter().collect::<String>().as_bytes()), "C20.macro_instance.str_concat.chars");
        chk!(s, eq_bytes(str_concat!(&['q'; 3]).as_bytes(), b"qqq"), "C20.macro_instance.str_concat.char_array_repeat");
        chk!(s, eq_bytes(str_join!(", ", &["foo", "bär", ""]).as_bytes(), ["foo", "bär", ""].join(", ").as_bytes()), "C20.macro_instance.str_join.str_sep");
        chk!(s, eq_bytes(str_join!(COMMA, S).as_bytes(), S.join(COMMA).as_bytes()), "C20.macro_instance.str_join.const_args");
        chk!(s, eq_bytes(str_join!('é', &["x", "", "y"]).as_bytes(), ["x", "", "y"].join("é").as_bytes()), "C20.macro_instance.str_join.multibyte_char_sep");
        chk!(s, eq_bytes(str_join!("→", &["only"]).as_bytes(), ["only"].join("→").as_bytes()), "C20.macro_instance.str_join.single_piece");
        chk!(s, eq_bytes(str_join!(",", &[]).as_bytes(), b""), "C20.macro_instance.str_join.empty_list");
        let k1: [u16; 2] = slice_concat!(u16, &[&[1, 2], &[]]);
        let e1: Vec<u16> = [&[1u16, 2][..], &[]].concat();
        chk!(s, k1.len() == e1.len() && k1[0] == e1[0] && k1[1] == e1[1], "C20.macro_instance.slice_concat.with_empty_slice");
        let k2: [u16; 0] = slice_concat!(u16, &[]);
        let k3: [u16; 0] = slice_concat!(u16, &[&[], &[]]);
        chk!(s, k2.len() == 0 && k3.len() == 0, "C20.macro_instance.slice_concat.empty");
        const PIECES: &[&[u8]] = &[b"ab", b"", b"cde"];
        let k4 = slice_concat!(u8, PIECES);
        chk!(s, eq_bytes(&k4, &PIECES.concat()), "C20.macro_instance.slice_concat.const_list");
        cov!(s, true, "C20.cover.macro_instances_reached");
    }
}

// ---------------------------------------------------------------------------
// CStr

fn same_cstr(a: &CStr, b: &CStr) -> bool {
    same_slice(a.to_bytes_with_nul(), b.to_bytes_with_nul())
}

harness! {
    /// kind=bounded tier=quick bound="every byte string of length 0..=5, all byte values (nul anywhere, several nuls, no nul)"
    #[kani::unwind(9)]
    fn c20_cstr_constructors(s) {
        let raw: [u8; 5] = s.bytes();
        let len = s.upto(5);
        let b = &raw[..len];
        let k = cstr::from_bytes_until_nul(b);
        let e = CStr::from_bytes_until_nul(b);
        chk!(s, k.is_ok() == e.is_ok(), "C20.cstr.from_bytes_until_nul.ok_iff_std");
        if let (Ok(kc), Ok(ec)) = (&k, &e) {
            chk!(s, same_cstr(kc, ec), "C20.cstr.from_bytes_until_nul.same_cstr_as_std");
        }
        let k2 = cstr::from_bytes_with_nul(b);
        let e2 = CStr::from_bytes_with_nul(b);
        chk!(s, k2.is_ok() == e2.is_ok(), "C20.cstr.from_bytes_with_nul.ok_iff_std");
        if let (Ok(kc), Ok(ec)) = (&k2, &e2) {
            chk!(s, same_cstr(kc, ec), "C20.cstr.from_bytes_with_nul.same_cstr_as_std");
        }
        cov!(s, len == 5 && raw[2] == 0 && raw[4] == 0 && raw[0] != 0 && raw[1] != 0, "C20.cover.cstr_interior_and_final_nul");
        cov!(s, len == 5 && e2.is_ok(), "C20.cover.cstr_with_nul_ok");
        cov!(s, len == 5 && e.is_err(), "C20.cover.cstr_no_nul");
        cov!(s, len == 0, "C20.cover.cstr_empty_input");
        cov!(s, len == 3 && raw[0] == 0, "C20.cover.cstr_leading_nul");
    }
}

harness! {
    /// kind=bounded tier=quick bound="every CStr std builds from a byte string of length 1..=5, all byte values (content 0..=4 bytes before the first nul, valid and invalid UTF-8)"
    #[kani::unwind(9)]
    fn c20_cstr_conversions(s) {
        let raw: [u8; 5] = s.bytes();
        let len = s.upto(5);
        let b = &raw[..len];
        let c: &CStr = match CStr::from_bytes_until_nul(b) {
            Ok(c) => c,
            Err(_) => {
                s.assume(false);
                return;
            }
        };
        chk!(s, same_slice(cstr::to_bytes_with_nul(c), c.to_bytes_with_nul()), "C20.cstr.to_bytes_with_nul.eq_std");
        chk!(s, same_slice(cstr::to_bytes(c), c.to_bytes()), "C20.cstr.to_bytes.eq_std");
        let k = cstr::to_str(c);
        let e = c.to_str();
        chk!(s, k.is_ok() == e.is_ok(), "C20.cstr.to_str.ok_iff_std");
        if let (Ok(ks), Ok(es)) = (&k, &e) {
            chk!(s, same_str(ks, es), "C20.cstr.to_str.same_str_as_std");
        }
        cov!(s, c.to_bytes().len() == 4 && e.is_ok() && raw[0] >= 0xF0, "C20.cover.cstr_to_str_4byte_char");
        cov!(s, c.to_bytes().len() == 4 && e.is_err(), "C20.cover.cstr_to_str_invalid");
        cov!(s, c.to_bytes().len() == 0 && len == 5, "C20.cover.cstr_empty_with_trailing_bytes");
    }
}

// ---------------------------------------------------------------------------
// spec adequacy: the references above vs the real std functions

harness! {
    /// kind=bounded tier=thorough bound="spec adequacy: ref_concat/ref_join/ref_concat_chars vs <[&str]>::concat, <[&str]>::join, collect::<String>; 0..=3 pieces of <=2 bytes, separator <=2 bytes, 0..=2 chars"
    #[kani::unwind(18)]
    fn c20_spec_vs_std(s) {
        let (a, b, c) = (BStr::<2>::any(s), BStr::<2>::any(s), BStr::<2>::any(s));
        let sp = BStr::<2>::any(s);
        let all = [a.as_str(), b.as_str(), c.as_str()];
        let n = s.upto(3);
        let pieces = &all[..n];
        let cat: String = pieces.concat();
        chk!(s, eq_bytes(cat.as_bytes(), ref_concat(pieces).bytes()), "SPEC.ref_concat.eq_std_concat");
        let joined: String = pieces.join(sp.as_str());
        chk!(s, eq_bytes(joined.as_bytes(), ref_join(pieces, sp.as_bytes()).bytes()), "SPEC.ref_join.eq_std_join");
        let chars = [s.char(), s.char()];
        let cn = s.upto(2);
        let collected: String = chars[..cn].iter().collect();
        chk!(s, eq_bytes(collected.as_bytes(), ref_concat_chars(&chars[..cn]).bytes()), "SPEC.ref_concat_chars.eq_std_collect");
        cov!(s, n == 3 && joined.len() == 10, "SPEC.cover.join_full");
    }
}
