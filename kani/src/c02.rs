//! C02 — slice indexing / splitting agree with std.  Indices range over all of
//! `usize` (loop-free code: complete in the indices); the slice length is the bound.
use crate::hlib::*;
use konst::slice;

const L: usize = 8;

fn opt_ref_same<T>(a: Option<&T>, b: Option<&T>) -> bool {
    match (a, b) {
        (None, None) => true,
        (Some(x), Some(y)) => core::ptr::eq(x, y),
        _ => false,
    }
}

macro_rules! c02_shared {
    ($name:ident, $t:ty, $mk:expr, $tname:literal) => {
        harness! {
            /// kind=bounded tier=quick bound="slice len<=8 (elements symbolic), every index/start/end/at in 0..=usize::MAX"
            fn $name(s) {
                let arr: [$t; L] = $mk(s);
                let len = s.upto(L);
                let sl: &[$t] = &arr[..len];
                let i = s.usize();
                let j = s.usize();
                // fallible getters == slice.get(..)
                chk!(s, opt_ref_same(slice::get(sl, i), sl.get(i)), "C02.get.eq_std");
                chk!(s, same_opt_slice(slice::get_from(sl, i), sl.get(i..)), "C02.get_from.eq_std");
                chk!(s, same_opt_slice(slice::get_up_to(sl, i), sl.get(..i)), "C02.get_up_to.eq_std");
                chk!(s, same_opt_slice(slice::get_range(sl, i, j), sl.get(i..j)), "C02.get_range.eq_std");
                // clamping variants
                let f = slice::slice_from(sl, i);
                chk!(s, if i <= len { is_subslice_at(sl, f, i, len) } else { f.len() == 0 }, "C02.slice_from.std_or_empty");
                let u = slice::slice_up_to(sl, i);
                chk!(s, if i <= len { is_subslice_at(sl, u, 0, i) } else { same_slice(u, sl) }, "C02.slice_up_to.std_or_whole");
                let r = slice::slice_range(sl, i, j);
                let e = if j < len { j } else { len };
                chk!(s, if i <= e { is_subslice_at(sl, r, i, e) } else { r.len() == 0 }, "C02.slice_range.std_or_clamped");
                let (a, b) = slice::split_at(sl, i);
                chk!(s, if i <= len { is_subslice_at(sl, a, 0, i) && is_subslice_at(sl, b, i, len) }
                        else { same_slice(a, sl) && b.len() == 0 }, "C02.split_at.std_or_whole_empty");
                cov!(s, i <= len && j <= len && i < j, "C02.cover.in_range");
                cov!(s, i > len && j == usize::MAX, "C02.cover.beyond");
                cov!(s, i > j && j <= len, "C02.cover.inverted");
            }
        }
    };
}

fn mk_u16<S: Src>(s: &mut S) -> [u16; L] {
    let mut a = [0u16; L];
    let mut i = 0;
    while i < L {
        a[i] = s.u16();
        i += 1;
    }
    a
}
fn mk_unit<S: Src>(_s: &mut S) -> [(); L] {
    [(); L]
}

c02_shared! {c02_shared_u16, u16, mk_u16, "u16"}
c02_shared! {c02_shared_zst, (), mk_unit, "()"}

macro_rules! c02_mut {
    ($name:ident, $t:ty, $mk:expr) => {
        harness! {
            /// kind=bounded tier=quick bound="slice len<=8, every index/start/end/at in 0..=usize::MAX"
            fn $name(s) {
                let mut arr: [$t; L] = $mk(s);
                let len = s.upto(L);
                let i = s.usize();
                let j = s.usize();
                let sz = core::mem::size_of::<$t>();
                let base = arr.as_ptr() as usize;
                let at = |k: usize| base.wrapping_add(k.wrapping_mul(sz));
                // zero-sized elements have no meaningful address: only lengths are compared
                let adr = |p: usize, k: usize| sz == 0 || p == at(k);
                let e = if j < len { j } else { len };
                {
                    let sl: &mut [$t] = &mut arr[..len];
                    let r = slice::get_mut(sl, i);
                    chk!(s, match r { Some(x) => i < len && adr(x as *mut $t as usize, i), None => i >= len }, "C02.get_mut.eq_std");
                }
                {
                    let sl: &mut [$t] = &mut arr[..len];
                    let r = slice::get_from_mut(sl, i);
                    chk!(s, match r { Some(x) => i <= len && x.len() == len - i && adr(x.as_ptr() as usize, i), None => i > len }, "C02.get_from_mut.eq_std");
                }
                {
                    let sl: &mut [$t] = &mut arr[..len];
                    let r = slice::get_up_to_mut(sl, i);
                    chk!(s, match r { Some(x) => i <= len && x.len() == i && adr(x.as_ptr() as usize, 0), None => i > len }, "C02.get_up_to_mut.eq_std");
                }
                {
                    let sl: &mut [$t] = &mut arr[..len];
                    let r = slice::get_range_mut(sl, i, j);
                    chk!(s, match r { Some(x) => i <= j && j <= len && x.len() == j - i && adr(x.as_ptr() as usize, i), None => !(i <= j && j <= len) }, "C02.get_range_mut.eq_std");
                }
                {
                    let sl: &mut [$t] = &mut arr[..len];
                    let x = slice::slice_from_mut(sl, i);
                    chk!(s, if i <= len { x.len() == len - i && adr(x.as_ptr() as usize, i) } else { x.len() == 0 }, "C02.slice_from_mut.std_or_empty");
                }
                {
                    let sl: &mut [$t] = &mut arr[..len];
                    let x = slice::slice_up_to_mut(sl, i);
                    chk!(s, adr(x.as_ptr() as usize, 0) && x.len() == (if i <= len { i } else { len }), "C02.slice_up_to_mut.std_or_whole");
                }
                {
                    let sl: &mut [$t] = &mut arr[..len];
                    let x = slice::slice_range_mut(sl, i, j);
                    chk!(s, if i <= e { x.len() == e - i && adr(x.as_ptr() as usize, i) } else { x.len() == 0 }, "C02.slice_range_mut.std_or_clamped");
                }
                {
                    let sl: &mut [$t] = &mut arr[..len];
                    let (a, b) = slice::split_at_mut(sl, i);
                    chk!(s, if i <= len { a.len() == i && adr(a.as_ptr() as usize, 0) && b.len() == len - i && adr(b.as_ptr() as usize, i) }
                            else { a.len() == len && adr(a.as_ptr() as usize, 0) && b.len() == 0 }, "C02.split_at_mut.std_or_whole_empty");
                }
                {
                    let sl: &mut [$t] = &mut arr[..len];
                    chk!(s, match slice::first_mut(sl) { Some(x) => len > 0 && adr(x as *mut $t as usize, 0), None => len == 0 }, "C02.first_mut.eq_std");
                }
                {
                    let sl: &mut [$t] = &mut arr[..len];
                    chk!(s, match slice::last_mut(sl) { Some(x) => len > 0 && adr(x as *mut $t as usize, len - 1), None => len == 0 }, "C02.last_mut.eq_std");
                }
                {
                    let sl: &mut [$t] = &mut arr[..len];
                    chk!(s, match slice::split_first_mut(sl) {
                        Some((x, r)) => len > 0 && adr(x as *mut $t as usize, 0) && r.len() == len - 1 && adr(r.as_ptr() as usize, 1),
                        None => len == 0 }, "C02.split_first_mut.eq_std");
                }
                {
                    let sl: &mut [$t] = &mut arr[..len];
                    chk!(s, match slice::split_last_mut(sl) {
                        Some((x, r)) => len > 0 && adr(x as *mut $t as usize, len - 1) && r.len() == len - 1 && adr(r.as_ptr() as usize, 0),
                        None => len == 0 }, "C02.split_last_mut.eq_std");
                }
                cov!(s, i <= len && j <= len && i < j, "C02.cover.mut_in_range");
                cov!(s, i > len, "C02.cover.mut_beyond");
            }
        }
    };
}

c02_mut! {c02_mut_u16, u16, mk_u16}
c02_mut! {c02_mut_zst, (), mk_unit}

macro_rules! c02_chunks {
    ($name:ident, $t:ty, $mk:expr, $n:literal) => {
        harness! {
            /// kind=bounded tier=quick bound="slice len<=8, chunk size N fixed per harness (1,2,3 and 3 for ZST)"
            fn $name(s) {
                const N: usize = $n;
                let arr: [$t; L] = $mk(s);
                let len = s.upto(L);
                let sl: &[$t] = &arr[..len];
                let (ch, rem) = slice::as_chunks::<$t, N>(sl);
                let (se, sr) = sl.as_chunks::<N>();
                chk!(s, ch.len() == se.len() && ch.as_ptr() == se.as_ptr() && same_slice(rem, sr), "C02.as_chunks.eq_std");
                chk!(s, ch.len() == len / N && is_subslice_at(sl, rem, len / N * N, len), "C02.as_chunks.layout");
                let (rrem, rch) = slice::as_rchunks::<$t, N>(sl);
                let (srr, sre) = sl.as_rchunks::<N>();
                chk!(s, rch.len() == sre.len() && rch.as_ptr() == sre.as_ptr() && same_slice(rrem, srr), "C02.as_rchunks.eq_std");
                chk!(s, rch.len() == len / N && is_subslice_at(sl, rrem, 0, len % N), "C02.as_rchunks.layout");
                // slice -> array
                let r = slice::try_into_array::<$t, N>(sl);
                let e: Result<&[$t; N], _> = <&[$t; N]>::try_from(sl);
                chk!(s, match (r, e) { (Ok(a), Ok(b)) => core::ptr::eq(a, b), (Err(_), Err(_)) => true, _ => false }, "C02.try_into_array.eq_std");
                chk!(s, r.is_ok() == (len == N), "C02.try_into_array.ok_iff_len_eq_n");
                cov!(s, len == N, "C02.cover.len_eq_n");
                cov!(s, N == 1 || (len % N != 0 && len / N >= 1), "C02.cover.chunks_with_remainder");
            }
        }
    };
}

c02_chunks! {c02_chunks_u16_1, u16, mk_u16, 1}
c02_chunks! {c02_chunks_u16_2, u16, mk_u16, 2}
c02_chunks! {c02_chunks_u16_3, u16, mk_u16, 3}
c02_chunks! {c02_chunks_zst_3, (), mk_unit, 3}
c02_chunks! {c02_chunks_u16_4, u16, mk_u16, 4} // bound="slice len<=8, chunk size 4 (a power of two)"
c02_chunks! {c02_chunks_u16_5, u16, mk_u16, 5} // bound="slice len<=8, chunk size 5"
c02_chunks! {c02_chunks_u16_6, u16, mk_u16, 6} // bound="slice len<=8, chunk size 6 (even, not a power of two)"
c02_chunks! {c02_chunks_u16_7, u16, mk_u16, 7} // bound="slice len<=8, chunk size 7"

harness! {
    /// kind=bounded tier=quick bound="slice len<=8, N = 3 (mutable array conversion), N = 0 array conversion"
    fn c02_try_into_array_mut(s) {
        let mut arr: [u16; L] = mk_u16(s);
        let len = s.upto(L);
        let base = arr.as_ptr() as usize;
        {
            let sl: &mut [u16] = &mut arr[..len];
            let r = slice::try_into_array_mut::<u16, 3>(sl);
            chk!(s, match r { Ok(a) => len == 3 && a.as_ptr() as usize == base, Err(_) => len != 3 }, "C02.try_into_array_mut.eq_std");
        }
        let sl: &[u16] = &arr[..len];
        chk!(s, slice::try_into_array::<u16, 0>(sl).is_ok() == (len == 0), "C02.try_into_array.n0");
        cov!(s, len == 3, "C02.cover.mut_len_eq_n");
    }
}

harness! {
    /// kind=complete tier=quick bound="N = 0 must panic (std panics too), slice len<=8" expect_fail="in konst::slice::as_r?chunks::"
    fn c02_as_chunks_zero_panics(s) {
        let arr: [u16; L] = mk_u16(s);
        let len = s.upto(L);
        let sl: &[u16] = &arr[..len];
        if s.bool() {
            must_panic!(s, "C02.as_chunks.n0_must_panic", slice::as_chunks::<u16, 0>(sl));
        } else {
            must_panic!(s, "C02.as_rchunks.n0_must_panic", slice::as_rchunks::<u16, 0>(sl));
        }
    }
}

harness! {
    /// kind=complete tier=quick bound="none: zero-sized elements, every slice length 0..=usize::MAX and every index pair (lengths compared; a zero-sized element has no address)"
    fn c02_zst_any_len(s) {
        // a slice of zero-sized elements may be longer than isize::MAX: the pointer-offset cast `start as isize` wraps there
        static BIG: [(); usize::MAX] = [(); usize::MAX];
        let len = s.usize();
        let sl: &[()] = &BIG[..len];
        let i = s.usize();
        let j = s.usize();
        let olen = |o: Option<&[()]>| match o { Some(x) => x.len() as u128, None => u128::MAX };
        chk!(s, olen(slice::get_from(sl, i)) == olen(sl.get(i..)), "C02.zst.get_from.eq_std");
        chk!(s, olen(slice::get_up_to(sl, i)) == olen(sl.get(..i)), "C02.zst.get_up_to.eq_std");
        chk!(s, olen(slice::get_range(sl, i, j)) == olen(sl.get(i..j)), "C02.zst.get_range.eq_std");
        chk!(s, slice::slice_from(sl, i).len() == (if i <= len { len - i } else { 0 }), "C02.zst.slice_from.std_or_empty");
        chk!(s, slice::slice_up_to(sl, i).len() == (if i <= len { i } else { len }), "C02.zst.slice_up_to.std_or_whole");
        let e = if j < len { j } else { len };
        chk!(s, slice::slice_range(sl, i, j).len() == (if i <= e { e - i } else { 0 }), "C02.zst.slice_range.std_or_clamped");
        let (a, b) = slice::split_at(sl, i);
        chk!(s, if i <= len { a.len() == i && b.len() == len - i } else { a.len() == len && b.len() == 0 }, "C02.zst.split_at.std_or_whole_empty");
        cov!(s, len == usize::MAX && i > isize::MAX as usize && i <= len, "C02.cover.zst_index_beyond_isize_max");
        cov!(s, len > isize::MAX as usize && i < j && j <= len, "C02.cover.zst_huge_range");
    }
}
