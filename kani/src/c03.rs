//! C03 — string slicing agrees with std str indexing, including char-boundary rules.
//! Strings: every valid UTF-8 byte string up to the bound; indices: all of usize.
use crate::hlib::*;
use konst::string;

harness! {
    /// kind=bounded tier=quick bound="valid UTF-8 string<=6 bytes, every index pair in 0..=usize::MAX"
    #[kani::unwind(8)]
    fn c03_getters(s) {
        let bs = BStr::<6>::any(s);
        let h = bs.as_str();
        let i = s.usize();
        let j = s.usize();
        chk!(s, string::is_char_boundary(h, i) == h.is_char_boundary(i), "C03.is_char_boundary.eq_std");
        chk!(s, string::is_char_boundary(h, i) == ref_boundary(h.as_bytes(), i), "C03.is_char_boundary.def");
        chk!(s, same_opt_str(string::get_up_to(h, i), h.get(..i)), "C03.get_up_to.eq_std");
        chk!(s, same_opt_str(string::get_from(h, i), h.get(i..)), "C03.get_from.eq_std");
        chk!(s, same_opt_str(string::get_range(h, i, j), h.get(i..j)), "C03.get_range.eq_std");
        cov!(s, i < h.len() && !h.is_char_boundary(i), "C03.cover.inside_char");
        cov!(s, h.len() == 6 && i == 2 && j == 6 && h.get(i..j).is_some() && h.as_bytes()[2] >= 0xF0, "C03.cover.four_byte_tail");
        cov!(s, i > j && j <= h.len(), "C03.cover.inverted");
    }
}

harness! {
    /// kind=bounded tier=quick bound="valid UTF-8 string<=6 bytes, every index pair; in-range indices on boundaries: no panic allowed"
    #[kani::unwind(8)]
    fn c03_clamp_ok(s) {
        let bs = BStr::<6>::any(s);
        let h = bs.as_str();
        let hb = h.as_bytes();
        let len = h.len();
        let i = s.usize();
        let j = s.usize();
        s.assume(i >= len || h.is_char_boundary(i));
        s.assume(j >= len || h.is_char_boundary(j));
        let ci = if i < len { i } else { len };
        let cj = if j < len { j } else { len };
        let f = string::str_from(h, i);
        chk!(s, is_subslice_at(hb, f.as_bytes(), ci, len) || (i > len && f.len() == 0), "C03.str_from.std_or_clamped");
        let u = string::str_up_to(h, i);
        chk!(s, is_subslice_at(hb, u.as_bytes(), 0, ci), "C03.str_up_to.std_or_clamped");
        let r = string::str_range(h, i, j);
        chk!(s, if ci <= cj && i <= len { is_subslice_at(hb, r.as_bytes(), ci, cj) } else { r.len() == 0 }, "C03.str_range.std_or_clamped");
        let (a, b) = string::split_at(h, i);
        chk!(s, is_subslice_at(hb, a.as_bytes(), 0, ci) && (is_subslice_at(hb, b.as_bytes(), ci, len) || (i > len && b.len() == 0)), "C03.split_at.std_or_clamped");
        if i <= len {
            let (sa, sb) = h.split_at(i);
            chk!(s, same_str(a, sa) && same_str(b, sb), "C03.split_at.eq_std");
        }
        if i <= j && j <= len {
            chk!(s, same_str(r, &h[i..j]), "C03.str_range.eq_std_index");
        }
        cov!(s, i < j && j < len && hb[i] >= 0xC2, "C03.cover.multibyte_range");
        cov!(s, i > len && j == usize::MAX, "C03.cover.beyond");
    }
}

harness! {
    /// kind=bounded tier=quick bound="valid UTF-8 string<=6 bytes; an in-range index inside a character: every clamping variant must panic" expect_fail="non_char_boundary_panic \(stubbed\)"
    #[kani::unwind(8)]
    fn c03_clamp_panics(s) {
        let bs = BStr::<6>::any(s);
        let h = bs.as_str();
        let len = h.len();
        let i = s.usize();
        let j = s.usize();
        s.assume(i < len && !h.is_char_boundary(i));
        let which = s.u8();
        s.assume(which < 5);
        match which {
            0 => must_panic!(s, "C03.str_from.panics_inside_char", string::str_from(h, i)),
            1 => must_panic!(s, "C03.str_up_to.panics_inside_char", string::str_up_to(h, i)),
            2 => must_panic!(s, "C03.split_at.panics_inside_char", string::split_at(h, i)),
            3 => must_panic!(s, "C03.str_range.panics_start_inside_char", string::str_range(h, i, j)),
            _ => must_panic!(s, "C03.str_range.panics_end_inside_char", string::str_range(h, j, i)),
        }
    }
}

harness! {
    /// kind=bounded tier=quick bound="spec adequacy: utf8_ok == core::str::from_utf8(..).is_ok() on every byte string<=5 bytes"
    #[kani::unwind(8)]
    fn c03_spec_utf8_ok(s) {
        let b: [u8; 5] = s.bytes();
        let len = s.upto(5);
        chk!(s, utf8_ok(&b[..len]) == core::str::from_utf8(&b[..len]).is_ok(), "SPEC.utf8_ok.eq_std_from_utf8");
        cov!(s, len == 5 && utf8_ok(&b[..len]) && b[0] >= 0xF0, "SPEC.cover.utf8_four_byte");
    }
}
