//! C08 — slice iterators behave like std's double-ended slice iterators.
//!
//! Shape: a symbolic slice `&arr[..len]` (len <= L), a symbolic chunk/window size, the konst
//! iterator and the *real* std iterator of the same name are advanced in lock-step, one step more
//! than the longest iterator of the harness can yield, so that "ends at the same step" is the
//! None-ness comparison of every step, including steps past exhaustion.  Every step draws
//!   * its direction (front/back) and
//!   * the object that is stepped: the iterator itself, a `copy()` of it (the copy is taken before
//!     the step and is what the walk continues with), or `copy().rev()` stepped at the *opposite*
//!     end and reversed back (`X -> XRev -> X`: the `*Rev` type's `next`, `next_back`, `rev`)
//! symbolically, and compares the yielded item with what std yields (sub-slice identity: address +
//! length).  So every interleaving of front/back steps, of original/copy and of forward/reversed
//! views is compared with the one std iterator:
//!   `C08.<family>.next[_back].eq_std`, `C08.<family>.copy.same_future`, `C08.<family>.rev.swaps_ends`.
//! Before every step `as_slice()` / `remainder()` (of the forward and of the `*Rev` type) are compared
//! with std's accessor of the same name.
//! Zero-sized elements have no meaningful addresses: lengths only.
//!
//! Cost split (one walk of 7 steps with all of the above is 90-250 s in CBMC; the number of encoded
//! step functions per walk step is what costs, not the arithmetic):
//!   * `_fwd` harnesses draw the stepped object from {itself, copy}, `_rev` harnesses always step
//!     through the reversed copy (quick tier); `_mix` harnesses draw from all three in one walk
//!     (thorough tier, L = 6); `_big` = L = 8 (thorough tier).
//!   * the chunk families are split by size: `_n1` harnesses fix size = 1 and walk L+1 steps, the
//!     others take every size in 2..=L+1, where at most ceil(L/2) items exist, and walk
//!     ceil(L/2)+1 steps (`C08.walk.exhausted_within_bound` re-checks that this is long enough).
//! Size 0 (N = 0) must panic like std: `c08_zero_size_panics`.
use crate::hlib::*;
use konst::slice;

// NOTE for the runner's template discovery (first `harness!` after a `macro_rules!`): the templates
// come first, the helper macros (which contain no `harness!`) after them.

macro_rules! c08_q {
    ($name:ident, $($fam:tt)*) => {
        harness! {
            /// kind=bounded tier=quick bound="slice len<=6 (elements symbolic); windows size 1..=7; chunk size 2..=7 (size 1 in the _n1 twin); array chunk N fixed per harness; walk to exhaustion + 1 step, each step front/back symbolic; _fwd: stepped object original or copy (symbolic), _rev: always through the reversed copy"
            #[kani::unwind(10)]
            fn $name(s) { c08_body!(s, 6, $($fam)*) }
        }
    };
}

macro_rules! c08_t {
    ($name:ident, $($fam:tt)*) => {
        harness! {
            /// kind=bounded tier=thorough bound="slice len<=8 (elements symbolic); windows size 1..=9; chunk size 2..=9 (size 1 in the _n1 twin); array chunk N fixed per harness; walk to exhaustion + 1 step, each step front/back symbolic; _fwd: stepped object original or copy (symbolic), _rev: always through the reversed copy"
            #[kani::unwind(12)]
            fn $name(s) { c08_body!(s, 8, $($fam)*) }
        }
    };
}

macro_rules! c08_tm {
    ($name:ident, $($fam:tt)*) => {
        harness! {
            /// kind=bounded tier=thorough bound="slice len<=6 (elements symbolic); windows size 1..=7; chunk size 2..=7 (size 1 in the _n1 twin); array chunk N fixed per harness; walk to exhaustion + 1 step, each step front/back and original/copy/reversed symbolic (all three mixed in one walk)"
            #[kani::unwind(10)]
            fn $name(s) { c08_body!(s, 6, $($fam)*) }
        }
    };
}

// ---------------------------------------------------------------------------
// helpers

fn is_zst<T>() -> bool {
    core::mem::size_of::<T>() == 0
}
/// same sub-slice (address + length; length only for zero-sized elements)
fn same_sl<T>(a: &[T], b: &[T]) -> bool {
    a.len() == b.len() && (is_zst::<T>() || a.as_ptr() == b.as_ptr())
}
/// same element (address)
fn same_ref<T>(a: &T, b: &T) -> bool {
    is_zst::<T>() || core::ptr::eq(a, b)
}
fn same_arr<T, const N: usize>(a: &[T; N], b: &[T; N]) -> bool {
    is_zst::<T>() || core::ptr::eq(a, b)
}
fn same_val<T: PartialEq>(a: T, b: T) -> bool {
    a == b
}
/// `sub` is the place `whole[a..b]`
fn sub_at<T>(whole: &[T], sub: &[T], a: usize, b: usize) -> bool {
    a <= b && b <= whole.len() && sub.len() == b - a && (is_zst::<T>() || is_subslice_at(whole, sub, a, b))
}
fn mk_u8<S: Src, const N: usize>(s: &mut S) -> [u8; N] {
    s.bytes::<N>()
}
fn mk_unit<S: Src, const N: usize>(_s: &mut S) -> [(); N] {
    [(); N]
}

/// The walk.  `k`/`st` build the konst / std iterator from `(slice, size)`;
/// `rem`/`revrem` are accessor comparisons evaluated before every step with
/// `(konst iterator, std iterator, whole slice, size, #front items so far, #back items so far)`
/// (`revrem`: on the reversed copy); `case` is a family-specific situation that must be reachable.
/// Size modes: `sized` = 1..=L+1 with L+1 steps; `sized2` = 2..=L+1 with ceil(L/2)+1 steps;
/// `size1` = 1 with L+1 steps; `unsized` = no size, L+1 steps.
macro_rules! c08_lock {
    ($s:ident, $L:expr, $mode:ident, $t:ty, $mk:ident, $sized:ident,
     k = |$ksl:ident, $kn:ident| $k:expr,
     st = |$ssl:ident, $sn:ident| $st:expr,
     item = $same:path,
     names = [$n_next:literal, $n_back:literal, $n_copy:literal, $n_rev:literal],
     rem = [$(|$ki:ident, $sti:ident, $rsl:ident, $rn:ident, $rf:ident, $rb:ident| $rem:expr => $n_rem:literal),*],
     revrem = [$(|$vki:ident, $vsti:ident, $vsl:ident, $vn:ident, $vf:ident, $vb:ident| $vrem:expr => $n_vrem:literal),*],
     case = |$cl:ident, $cn:ident| $case:expr
    ) => {{
        const L: usize = $L;
        const STEPS: usize = c08_lock!(@steps $sized, L);
        const HAS_FWD: bool = c08_lock!(@fwd $mode);
        const HAS_REV: bool = c08_lock!(@rev $mode);
        let arr: [$t; L] = $mk::<_, L>($s);
        let len = $s.upto(L);
        let sl: &[$t] = &arr[..len];
        let size: usize = c08_lock!(@size $sized, $s, L);
        let mut k = { let ($ksl, $kn) = (sl, size); $k };
        let mut st = { let ($ssl, $sn) = (sl, size); $st };
        let (mut nf, mut nb) = (0usize, 0usize);
        let mut none_seen = false;
        let mut some_after_none = false;
        let (mut via_copy, mut via_rev) = (false, false);
        let mut i = 0;
        while i < STEPS {
            $({
                let ($ki, $sti, $rsl, $rn, $rf, $rb) = (&k, &st, sl, size, nf, nb);
                chk!($s, $rem, $n_rem);
            })*
            $({
                let r = k.copy().rev();
                let ($vki, $vsti, $vsl, $vn, $vf, $vb) = (&r, &st, sl, size, nf, nb);
                chk!($s, $vrem, $n_vrem);
            })*
            let front = $s.bool();
            let via: usize = if HAS_FWD && HAS_REV { $s.upto(2) } else if HAS_FWD { $s.upto(1) } else { 2 };
            let so = if front { st.next() } else { st.next_back() };
            let c = k.copy();
            // via 0: the iterator itself; 1: a copy of it; 2: a reversed copy, stepped at the other end
            let src = if HAS_FWD && via == 1 { c.copy() } else { k };
            let res = if HAS_REV && via == 2 {
                let r = src.rev();
                match (if front { r.next_back() } else { r.next() }) {
                    Some((it, nx)) => Some((it, nx.rev())),
                    None => None,
                }
            } else if front {
                src.next()
            } else {
                src.next_back()
            };
            let (kit, knx) = res.unzip();
            let ok = match (kit, so) {
                (None, None) => true,
                (Some(x), Some(y)) => $same(x, y),
                _ => false,
            };
            if via == 1 {
                chk!($s, ok, $n_copy);
            } else if via == 2 {
                chk!($s, ok, $n_rev);
            } else if front {
                chk!($s, ok, $n_next);
            } else {
                chk!($s, ok, $n_back);
            }
            match kit {
                Some(_) => {
                    if front { nf += 1 } else { nb += 1 }
                    if none_seen { some_after_none = true }
                    if via == 1 { via_copy = true }
                    if via == 2 { via_rev = true }
                }
                None => none_seen = true,
            }
            // after None the stepped object is gone (by-value API): continue with the copy taken before
            k = match knx {
                Some(x) => x,
                None => c,
            };
            i += 1;
        }
        $({
            let ($ki, $sti, $rsl, $rn, $rf, $rb) = (&k, &st, sl, size, nf, nb);
            chk!($s, $rem, $n_rem);
        })*
        // the walk is one step longer than the longest iterator: std (and so konst) must have ended,
        // and nothing is yielded after the end
        chk!($s, none_seen, "C08.walk.exhausted_within_bound");
        chk!($s, !some_after_none, "C08.walk.no_item_after_end");
        cov!($s, nf >= 1 && nb >= 1 && none_seen, "C08.cover.mixed_front_back_to_exhaustion");
        cov!($s, (via_copy || !HAS_FWD) && (via_rev || !HAS_REV) && nf >= 1 && nb >= 1, "C08.cover.continued_through_copy_and_rev");
        cov!($s, { let ($cl, $cn) = (len, size); $case }, "C08.cover.family_case");
        cov!($s, len == 0, "C08.cover.empty_slice");
    }};
    (@size sized, $s:ident, $L:expr) => {{
        let v = $s.upto($L + 1);
        $s.assume(v >= 1);
        v
    }};
    (@size sized2, $s:ident, $L:expr) => {{
        let v = $s.upto($L + 1);
        $s.assume(v >= 2);
        v
    }};
    (@size size1, $s:ident, $L:expr) => { 1usize };
    (@size unsized, $s:ident, $L:expr) => { 1usize };
    (@fwd fwd) => { true };
    (@fwd rev) => { false };
    (@fwd mix) => { true };
    (@rev fwd) => { false };
    (@rev rev) => { true };
    (@rev mix) => { true };
    (@steps sized2, $L:expr) => { ($L + 1) / 2 + 1 };
    (@steps $other:ident, $L:expr) => { $L + 1 };
}

/// One arm per iterator family: constructors, item comparison, accessor comparisons, obligation names.
macro_rules! c08_body {
    ($s:ident, $L:expr, iter, $mode:ident, $sized:ident, $t:ty, $mk:ident) => {
        c08_lock!($s, $L, $mode, $t, $mk, $sized,
            k = |sl, n| slice::iter(sl),
            st = |sl, n| sl.iter(),
            item = same_ref,
            names = ["C08.iter.next.eq_std", "C08.iter.next_back.eq_std", "C08.iter.copy.same_future", "C08.iter.rev.swaps_ends"],
            rem = [|k, st, sl, n, f, b| same_sl(k.as_slice(), st.as_slice()) => "C08.iter.as_slice.eq_std"],
            revrem = [|k, st, sl, n, f, b| same_sl(k.as_slice(), st.as_slice()) => "C08.iter_rev.as_slice.eq_std"],
            case = |len, n| len == $L
        )
    };
    ($s:ident, $L:expr, iter_copied, $mode:ident, $sized:ident, $t:ty, $mk:ident) => {
        c08_lock!($s, $L, $mode, $t, $mk, $sized,
            k = |sl, n| slice::iter_copied(sl),
            st = |sl, n| sl.iter().copied(),
            item = same_val,
            names = ["C08.iter_copied.next.eq_std", "C08.iter_copied.next_back.eq_std", "C08.iter_copied.copy.same_future", "C08.iter_copied.rev.swaps_ends"],
            // `Copied<Iter>` has no accessor: the unconsumed middle after f front and b back items
            rem = [|k, st, sl, n, f, b| sub_at(sl, k.as_slice(), f, sl.len() - b) => "C08.iter_copied.as_slice.unconsumed_middle"],
            revrem = [|k, st, sl, n, f, b| sub_at(sl, k.as_slice(), f, sl.len() - b) => "C08.iter_copied_rev.as_slice.unconsumed_middle"],
            case = |len, n| len == $L
        )
    };
    ($s:ident, $L:expr, windows, $mode:ident, $sized:ident, $t:ty, $mk:ident) => {
        c08_lock!($s, $L, $mode, $t, $mk, $sized,
            k = |sl, n| slice::windows(sl, n),
            st = |sl, n| sl.windows(n),
            item = same_sl,
            names = ["C08.windows.next.eq_std", "C08.windows.next_back.eq_std", "C08.windows.copy.same_future", "C08.windows.rev.swaps_ends"],
            rem = [],
            revrem = [],
            case = |len, n| n == 3 && len == $L
        )
    };
    ($s:ident, $L:expr, chunks, $mode:ident, $sized:ident, $t:ty, $mk:ident) => {
        c08_lock!($s, $L, $mode, $t, $mk, $sized,
            k = |sl, n| slice::chunks(sl, n),
            st = |sl, n| sl.chunks(n),
            item = same_sl,
            names = ["C08.chunks.next.eq_std", "C08.chunks.next_back.eq_std", "C08.chunks.copy.same_future", "C08.chunks.rev.swaps_ends"],
            rem = [],
            revrem = [],
            case = |len, n| (n == 1 && len == $L) || (n >= 2 && len % n != 0 && len / n >= 2)
        )
    };
    ($s:ident, $L:expr, rchunks, $mode:ident, $sized:ident, $t:ty, $mk:ident) => {
        c08_lock!($s, $L, $mode, $t, $mk, $sized,
            k = |sl, n| slice::rchunks(sl, n),
            st = |sl, n| sl.rchunks(n),
            item = same_sl,
            names = ["C08.rchunks.next.eq_std", "C08.rchunks.next_back.eq_std", "C08.rchunks.copy.same_future", "C08.rchunks.rev.swaps_ends"],
            rem = [],
            revrem = [],
            case = |len, n| (n == 1 && len == $L) || (n >= 2 && len % n != 0 && len / n >= 2)
        )
    };
    ($s:ident, $L:expr, chunks_exact, $mode:ident, $sized:ident, $t:ty, $mk:ident) => {
        c08_lock!($s, $L, $mode, $t, $mk, $sized,
            k = |sl, n| slice::chunks_exact(sl, n),
            st = |sl, n| sl.chunks_exact(n),
            item = same_sl,
            names = ["C08.chunks_exact.next.eq_std", "C08.chunks_exact.next_back.eq_std", "C08.chunks_exact.copy.same_future", "C08.chunks_exact.rev.swaps_ends"],
            rem = [|k, st, sl, n, f, b| same_sl(k.remainder(), st.remainder()) => "C08.chunks_exact.remainder.eq_std"],
            revrem = [|k, st, sl, n, f, b| same_sl(k.remainder(), st.remainder()) => "C08.chunks_exact_rev.remainder.eq_std"],
            case = |len, n| (n == 1 && len == $L) || (n >= 2 && len % n != 0 && len / n >= 2)
        )
    };
    ($s:ident, $L:expr, rchunks_exact, $mode:ident, $sized:ident, $t:ty, $mk:ident) => {
        c08_lock!($s, $L, $mode, $t, $mk, $sized,
            k = |sl, n| slice::rchunks_exact(sl, n),
            st = |sl, n| sl.rchunks_exact(n),
            item = same_sl,
            names = ["C08.rchunks_exact.next.eq_std", "C08.rchunks_exact.next_back.eq_std", "C08.rchunks_exact.copy.same_future", "C08.rchunks_exact.rev.swaps_ends"],
            rem = [|k, st, sl, n, f, b| same_sl(k.remainder(), st.remainder()) => "C08.rchunks_exact.remainder.eq_std"],
            revrem = [|k, st, sl, n, f, b| same_sl(k.remainder(), st.remainder()) => "C08.rchunks_exact_rev.remainder.eq_std"],
            case = |len, n| (n == 1 && len == $L) || (n >= 2 && len % n != 0 && len / n >= 2)
        )
    };
    // std's `array_chunks` is gone from the toolchain; its stable successor is `as_chunks::<N>()`:
    // the items are `as_chunks().0.iter()`, the remainder is `as_chunks().1`.
    ($s:ident, $L:expr, array_chunks $n:literal, $mode:ident, $sized:ident, $t:ty, $mk:ident) => {
        c08_lock!($s, $L, $mode, $t, $mk, $sized,
            k = |sl, n| slice::array_chunks::<$t, $n>(sl),
            st = |sl, n| sl.as_chunks::<$n>().0.iter(),
            item = same_arr,
            names = ["C08.array_chunks.next.eq_std", "C08.array_chunks.next_back.eq_std", "C08.array_chunks.copy.same_future", "C08.array_chunks.rev.swaps_ends"],
            rem = [|k, st, sl, n, f, b| same_sl(k.remainder(), sl.as_chunks::<$n>().1) => "C08.array_chunks.remainder.eq_std"],
            // ArrayChunksRev has no remainder accessor
            revrem = [],
            case = |len, n| len % $n != 0 || $n == 1
        )
    };
}

// ---------------------------------------------------------------------------
// quick tier: L = 6; u8 and the zero-sized (); `_fwd` = original/copy walks, `_rev` = walks through the `*Rev` type

c08_q! {c08_iter_u8_fwd, iter, fwd, unsized, u8, mk_u8}
c08_q! {c08_iter_u8_rev, iter, rev, unsized, u8, mk_u8}
c08_q! {c08_iter_zst_fwd, iter, fwd, unsized, (), mk_unit}
c08_q! {c08_iter_zst_rev, iter, rev, unsized, (), mk_unit} // tier=quick
c08_q! {c08_iter_copied_u8_fwd, iter_copied, fwd, unsized, u8, mk_u8}
c08_q! {c08_iter_copied_u8_rev, iter_copied, rev, unsized, u8, mk_u8} // tier=quick
c08_q! {c08_iter_copied_zst_fwd, iter_copied, fwd, unsized, (), mk_unit} // tier=quick
c08_q! {c08_iter_copied_zst_rev, iter_copied, rev, unsized, (), mk_unit} // tier=quick
c08_q! {c08_windows_u8_fwd, windows, fwd, sized, u8, mk_u8}
c08_q! {c08_windows_u8_rev, windows, rev, sized, u8, mk_u8} // tier=thorough
c08_q! {c08_windows_zst_fwd, windows, fwd, sized, (), mk_unit} // tier=quick
c08_q! {c08_windows_zst_rev, windows, rev, sized, (), mk_unit} // tier=quick
c08_q! {c08_chunks_u8_fwd, chunks, fwd, sized2, u8, mk_u8}
c08_q! {c08_chunks_u8_rev, chunks, rev, sized2, u8, mk_u8} // tier=quick
c08_q! {c08_chunks_zst_fwd, chunks, fwd, sized2, (), mk_unit} // tier=quick
c08_q! {c08_chunks_zst_rev, chunks, rev, sized2, (), mk_unit} // tier=quick
c08_q! {c08_chunks_n1_u8_fwd, chunks, fwd, size1, u8, mk_u8}
c08_q! {c08_chunks_n1_u8_rev, chunks, rev, size1, u8, mk_u8} // tier=thorough
c08_q! {c08_chunks_n1_zst_fwd, chunks, fwd, size1, (), mk_unit} // tier=thorough
c08_q! {c08_chunks_n1_zst_rev, chunks, rev, size1, (), mk_unit} // tier=thorough
c08_q! {c08_rchunks_u8_fwd, rchunks, fwd, sized2, u8, mk_u8}
c08_q! {c08_rchunks_u8_rev, rchunks, rev, sized2, u8, mk_u8} // tier=quick
c08_q! {c08_rchunks_zst_fwd, rchunks, fwd, sized2, (), mk_unit} // tier=quick
c08_q! {c08_rchunks_zst_rev, rchunks, rev, sized2, (), mk_unit} // tier=quick
c08_q! {c08_rchunks_n1_u8_fwd, rchunks, fwd, size1, u8, mk_u8} // tier=thorough
c08_q! {c08_rchunks_n1_u8_rev, rchunks, rev, size1, u8, mk_u8} // tier=thorough
c08_q! {c08_rchunks_n1_zst_fwd, rchunks, fwd, size1, (), mk_unit} // tier=quick
c08_q! {c08_rchunks_n1_zst_rev, rchunks, rev, size1, (), mk_unit} // tier=quick
c08_q! {c08_chunks_exact_u8_fwd, chunks_exact, fwd, sized2, u8, mk_u8}
c08_q! {c08_chunks_exact_u8_rev, chunks_exact, rev, sized2, u8, mk_u8} // tier=quick
c08_q! {c08_chunks_exact_zst_fwd, chunks_exact, fwd, sized2, (), mk_unit} // tier=quick
c08_q! {c08_chunks_exact_zst_rev, chunks_exact, rev, sized2, (), mk_unit} // tier=quick
c08_q! {c08_chunks_exact_n1_u8_fwd, chunks_exact, fwd, size1, u8, mk_u8} // tier=quick
c08_q! {c08_chunks_exact_n1_u8_rev, chunks_exact, rev, size1, u8, mk_u8} // tier=quick
c08_q! {c08_chunks_exact_n1_zst_fwd, chunks_exact, fwd, size1, (), mk_unit} // tier=quick
c08_q! {c08_chunks_exact_n1_zst_rev, chunks_exact, rev, size1, (), mk_unit} // tier=quick
c08_q! {c08_rchunks_exact_u8_fwd, rchunks_exact, fwd, sized2, u8, mk_u8}
c08_q! {c08_rchunks_exact_u8_rev, rchunks_exact, rev, sized2, u8, mk_u8} // tier=quick
c08_q! {c08_rchunks_exact_zst_fwd, rchunks_exact, fwd, sized2, (), mk_unit} // tier=quick
c08_q! {c08_rchunks_exact_zst_rev, rchunks_exact, rev, sized2, (), mk_unit} // tier=quick
c08_q! {c08_rchunks_exact_n1_u8_fwd, rchunks_exact, fwd, size1, u8, mk_u8} // tier=quick
c08_q! {c08_rchunks_exact_n1_u8_rev, rchunks_exact, rev, size1, u8, mk_u8} // tier=quick
c08_q! {c08_rchunks_exact_n1_zst_fwd, rchunks_exact, fwd, size1, (), mk_unit} // tier=quick
c08_q! {c08_rchunks_exact_n1_zst_rev, rchunks_exact, rev, size1, (), mk_unit} // tier=quick
c08_q! {c08_array_chunks1_u8_fwd, array_chunks 1, fwd, unsized, u8, mk_u8} // tier=quick
c08_q! {c08_array_chunks1_u8_rev, array_chunks 1, rev, unsized, u8, mk_u8} // tier=quick
c08_q! {c08_array_chunks2_u8_fwd, array_chunks 2, fwd, unsized, u8, mk_u8}
c08_q! {c08_array_chunks2_u8_rev, array_chunks 2, rev, unsized, u8, mk_u8}
c08_q! {c08_array_chunks2_zst_fwd, array_chunks 2, fwd, unsized, (), mk_unit} // tier=quick
c08_q! {c08_array_chunks2_zst_rev, array_chunks 2, rev, unsized, (), mk_unit} // tier=quick
c08_q! {c08_array_chunks3_u8_fwd, array_chunks 3, fwd, unsized, u8, mk_u8} // tier=quick
c08_q! {c08_array_chunks3_u8_rev, array_chunks 3, rev, unsized, u8, mk_u8} // tier=quick

// thorough tier: the three ways of stepping mixed in one walk, L = 6
c08_tm! {c08_iter_u8_mix, iter, mix, unsized, u8, mk_u8} // tier=quick
c08_tm! {c08_iter_copied_u8_mix, iter_copied, mix, unsized, u8, mk_u8} // tier=quick
c08_tm! {c08_windows_u8_mix, windows, mix, sized, u8, mk_u8}
c08_tm! {c08_chunks_u8_mix, chunks, mix, sized2, u8, mk_u8}
c08_tm! {c08_chunks_n1_u8_mix, chunks, mix, size1, u8, mk_u8}
c08_tm! {c08_rchunks_u8_mix, rchunks, mix, sized2, u8, mk_u8} // tier=quick
c08_tm! {c08_rchunks_n1_u8_mix, rchunks, mix, size1, u8, mk_u8}
c08_tm! {c08_chunks_exact_u8_mix, chunks_exact, mix, sized2, u8, mk_u8} // tier=quick
c08_tm! {c08_chunks_exact_n1_u8_mix, chunks_exact, mix, size1, u8, mk_u8}
c08_tm! {c08_rchunks_exact_u8_mix, rchunks_exact, mix, sized2, u8, mk_u8} // tier=quick
c08_tm! {c08_rchunks_exact_n1_u8_mix, rchunks_exact, mix, size1, u8, mk_u8}
c08_tm! {c08_array_chunks1_u8_mix, array_chunks 1, mix, unsized, u8, mk_u8} // tier=quick
c08_tm! {c08_array_chunks2_u8_mix, array_chunks 2, mix, unsized, u8, mk_u8} // tier=quick
c08_tm! {c08_array_chunks3_u8_mix, array_chunks 3, mix, unsized, u8, mk_u8} // tier=quick
c08_tm! {c08_chunks_zst_mix, chunks, mix, sized2, (), mk_unit}
c08_tm! {c08_iter_zst_mix, iter, mix, unsized, (), mk_unit} // thorough tier: L = 8 tier=quick
c08_t! {c08_iter_u8_fwd_big, iter, fwd, unsized, u8, mk_u8} // tier=quick
c08_t! {c08_iter_u8_rev_big, iter, rev, unsized, u8, mk_u8} // tier=quick
c08_t! {c08_iter_copied_u8_fwd_big, iter_copied, fwd, unsized, u8, mk_u8} // tier=quick
c08_t! {c08_iter_copied_u8_rev_big, iter_copied, rev, unsized, u8, mk_u8} // tier=quick
c08_t! {c08_windows_u8_fwd_big, windows, fwd, sized, u8, mk_u8}
c08_t! {c08_windows_u8_rev_big, windows, rev, sized, u8, mk_u8}
c08_t! {c08_chunks_u8_fwd_big, chunks, fwd, sized2, u8, mk_u8}
c08_t! {c08_chunks_u8_rev_big, chunks, rev, sized2, u8, mk_u8}
c08_t! {c08_chunks_n1_u8_fwd_big, chunks, fwd, size1, u8, mk_u8}
c08_t! {c08_chunks_n1_u8_rev_big, chunks, rev, size1, u8, mk_u8}
c08_t! {c08_rchunks_u8_fwd_big, rchunks, fwd, sized2, u8, mk_u8} // tier=quick
c08_t! {c08_rchunks_u8_rev_big, rchunks, rev, sized2, u8, mk_u8} // tier=quick
c08_t! {c08_rchunks_n1_u8_fwd_big, rchunks, fwd, size1, u8, mk_u8}
c08_t! {c08_rchunks_n1_u8_rev_big, rchunks, rev, size1, u8, mk_u8}
c08_t! {c08_chunks_exact_u8_fwd_big, chunks_exact, fwd, sized2, u8, mk_u8} // tier=quick
c08_t! {c08_chunks_exact_u8_rev_big, chunks_exact, rev, sized2, u8, mk_u8} // tier=quick
c08_t! {c08_chunks_exact_n1_u8_fwd_big, chunks_exact, fwd, size1, u8, mk_u8}
c08_t! {c08_chunks_exact_n1_u8_rev_big, chunks_exact, rev, size1, u8, mk_u8}
c08_t! {c08_rchunks_exact_u8_fwd_big, rchunks_exact, fwd, sized2, u8, mk_u8} // tier=quick
c08_t! {c08_rchunks_exact_u8_rev_big, rchunks_exact, rev, sized2, u8, mk_u8} // tier=quick
c08_t! {c08_rchunks_exact_n1_u8_fwd_big, rchunks_exact, fwd, size1, u8, mk_u8}
c08_t! {c08_rchunks_exact_n1_u8_rev_big, rchunks_exact, rev, size1, u8, mk_u8}
c08_t! {c08_array_chunks3_u8_fwd_big, array_chunks 3, fwd, unsized, u8, mk_u8} // tier=quick
c08_t! {c08_array_chunks3_u8_rev_big, array_chunks 3, rev, unsized, u8, mk_u8} // tier=quick
c08_t! {c08_array_chunks4_u8_fwd_big, array_chunks 4, fwd, unsized, u8, mk_u8} // tier=quick
c08_t! {c08_array_chunks4_u8_rev_big, array_chunks 4, rev, unsized, u8, mk_u8} // --------------------------------------------------------------------------- tier=quick
// the element iterator as produced by konst's `into_iter!` conversion of slices / array references

harness! {
    /// kind=bounded tier=quick bound="slice len<=6: into_iter! of &[T], &&[T], &[T; 6], &&[T; 6] starts at the whole slice"
    #[kani::unwind(9)]
    fn c08_into_iter_ctor(s) {
        let arr: [u8; 6] = s.bytes();
        let len = s.upto(6);
        let sl: &[u8] = &arr[..len];
        let a = konst::iter::into_iter!(sl);
        chk!(s, same_slice(a.as_slice(), sl), "C08.into_iter.slice.whole");
        let b = konst::iter::into_iter!(&sl);
        chk!(s, same_slice(b.as_slice(), sl), "C08.into_iter.ref_slice.whole");
        let c = konst::iter::into_iter!(&arr);
        chk!(s, same_slice(c.as_slice(), &arr[..]), "C08.into_iter.array_ref.whole");
        let d = konst::iter::into_iter!(&&arr);
        chk!(s, same_slice(d.as_slice(), &arr[..]), "C08.into_iter.ref_array_ref.whole");
        let z = [(); 6];
        let e = konst::iter::into_iter!(&z[..len]);
        chk!(s, e.as_slice().len() == len, "C08.into_iter.zst_slice.whole");
        cov!(s, len == 6, "C08.cover.into_iter_full");
        cov!(s, len == 0, "C08.cover.into_iter_empty");
    }
}

// ---------------------------------------------------------------------------
// size 0 / N = 0: std panics, so must konst

harness! {
    /// kind=bounded tier=quick bound="slice len<=6; size 0 (N = 0 for array_chunks): every constructor must panic" expect_fail="in konst::slice::(windows|r?chunks(_exact)?|as_chunks)::<u8"
    #[kani::unwind(9)]
    fn c08_zero_size_panics(s) {
        let arr: [u8; 6] = s.bytes();
        let len = s.upto(6);
        let sl: &[u8] = &arr[..len];
        let which = s.u8();
        s.assume(which < 6);
        match which {
            0 => must_panic!(s, "C08.windows.size0_must_panic", slice::windows(sl, 0)),
            1 => must_panic!(s, "C08.chunks.size0_must_panic", slice::chunks(sl, 0)),
            2 => must_panic!(s, "C08.rchunks.size0_must_panic", slice::rchunks(sl, 0)),
            3 => must_panic!(s, "C08.chunks_exact.size0_must_panic", slice::chunks_exact(sl, 0)),
            4 => must_panic!(s, "C08.rchunks_exact.size0_must_panic", slice::rchunks_exact(sl, 0)),
            _ => must_panic!(s, "C08.array_chunks.n0_must_panic", slice::array_chunks::<u8, 0>(sl)),
        }
    }
}

// ---------------------------------------------------------------------------
// zero-sized elements: every slice length up to usize::MAX and every size (the lock-step harnesses above stop at len 8).
// Items of a ZST slice have no address: lengths are compared.  Two steps of symbolic direction per family.

macro_rules! c08_zst_family {
    ($name:ident, $ctor:ident, $ob:literal $(, rem = $obr:literal)?) => {
        harness! {
            /// kind=bounded tier=quick bound="zero-sized elements: every slice length 0..=usize::MAX, size in {1, 2, 3, isize::MAX-1, isize::MAX, isize::MAX+1, usize::MAX}; one step of symbolic direction (and the remainder length of the exact variants) against the real core::slice iterator, item lengths compared"
            fn $name(s) {
                static BIG: [(); usize::MAX] = [(); usize::MAX];
                let len = s.usize();
                let sl: &[()] = &BIG[..len];
                // a symbolic 64-bit divisor makes the div/mod equivalence intractable for CBMC: the size is drawn from the
                // values around which the arithmetic can go wrong
                let n = match s.upto(6) {
                    0 => 1,
                    1 => 2,
                    2 => 3,
                    3 => isize::MAX as usize - 1,
                    4 => isize::MAX as usize,
                    5 => isize::MAX as usize + 1,
                    _ => usize::MAX,
                };
                let k = konst::slice::$ctor(sl, n);
                let mut st = sl.$ctor(n);
                $( chk!(s, k.copy().remainder().len() == st.remainder().len(), $obr); )?
                let (ki, si) = if s.bool() {
                    (k.next().map(|(x, _)| x.len()), st.next().map(|x| x.len()))
                } else {
                    (k.next_back().map(|(x, _)| x.len()), st.next_back().map(|x| x.len()))
                };
                chk!(s, ki == si, $ob);
                cov!(s, len > isize::MAX as usize && n > isize::MAX as usize && n < len, "C08.cover.zst_len_and_size_beyond_isize_max");
            }
        }
    };
}
c08_zst_family! {c08_zst_any_len_windows, windows, "C08.zst.windows.step_eq_std"}
c08_zst_family! {c08_zst_any_len_chunks, chunks, "C08.zst.chunks.step_eq_std"}
c08_zst_family! {c08_zst_any_len_rchunks, rchunks, "C08.zst.rchunks.step_eq_std"}
c08_zst_family! {c08_zst_any_len_chunks_exact, chunks_exact, "C08.zst.chunks_exact.step_eq_std", rem = "C08.zst.chunks_exact.remainder_len_eq_std"}
c08_zst_family! {c08_zst_any_len_rchunks_exact, rchunks_exact, "C08.zst.rchunks_exact.step_eq_std", rem = "C08.zst.rchunks_exact.remainder_len_eq_std"}
