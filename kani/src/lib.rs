//! Kani harnesses for konst (engine K).  Copied next to a scratch copy of
//! /repo by /verif/bin/check; `registry.rs` is generated there from the
//! `harness!` declarations found in the `c*.rs` files.
#![allow(warnings, clippy::all)]
#![cfg_attr(kani, feature(stmt_expr_attributes, proc_macro_hygiene))]

#[macro_use]
pub mod hlib;

// @@MODULES@@ (the runner appends `pub mod cXX;` lines for the files it selected)

#[cfg(not(kani))]
pub mod registry;
