//! C16 — comparison functions and macros agree with std equality and ordering.
//!
//! Scalars, NonZero, ranges, `Ordering` and `Option`s of them: loop-free code, both operands
//! range over the FULL domain (`kind=complete`), expectation = the real `==` / `Ord::cmp`.
//! Slices and strings: two operands up to a small length (ALL length combinations), elements
//! over the full domain of the element type (`kind=bounded`).  Expectation for slices/strings:
//! a lexicographic reference loop (`ref_lex_cmp*`, element comparisons are std's own `Ord::cmp`)
//! because std's `[u8]::cmp`/`[T]::eq` go through `memcmp`; the reference is tied to the real
//! std in the `SPEC.` harnesses (tier=thorough).
use crate::hlib::*;
use core::cmp::Ordering::{self, Equal, Greater, Less};
use core::marker::{PhantomData, PhantomPinned};
use core::num::{
    NonZeroI128, NonZeroI16, NonZeroI32, NonZeroI64, NonZeroI8, NonZeroIsize, NonZeroU128,
    NonZeroU16, NonZeroU32, NonZeroU64, NonZeroU8, NonZeroUsize,
};
use core::ops::{Range, RangeInclusive};
use konst::{
    assertc_eq, assertc_ne, const_cmp, const_cmp_for, const_eq, const_eq_for, impl_cmp, try_equal,
};

// ---------------------------------------------------------------------------
// references (the statement: "lexicographic for slices and strings, `None` before `Some`")

/// element-wise equality; the element comparison is std's `PartialEq`
fn ref_eq<T: PartialEq>(a: &[T], b: &[T]) -> bool {
    if a.len() != b.len() {
        return false;
    }
    let mut i = 0;
    while i < a.len() {
        if a[i] != b[i] {
            return false;
        }
        i += 1;
    }
    true
}

/// lexicographic order: the first differing element decides, only then the lengths
fn ref_lex_cmp_by<T>(a: &[T], b: &[T], f: fn(&T, &T) -> Ordering) -> Ordering {
    let mut i = 0;
    while i < a.len() && i < b.len() {
        let o = f(&a[i], &b[i]);
        if o != Equal {
            return o;
        }
        i += 1;
    }
    a.len().cmp(&b.len())
}

fn ref_eq_by<T>(a: &[T], b: &[T], f: fn(&T, &T) -> bool) -> bool {
    if a.len() != b.len() {
        return false;
    }
    let mut i = 0;
    while i < a.len() {
        if !f(&a[i], &b[i]) {
            return false;
        }
        i += 1;
    }
    true
}

/// inputs on which "lengths first" and "lexicographic" cannot differ: equal lengths, or one operand
/// is a prefix of the other.  The `*_same_len_or_prefix` obligations restrict the ordering check to
/// these inputs, so that an ordering that compares lengths first (finding D3) does not hide other
/// defects of the same function behind the same failing obligation.
fn same_len_or_prefix_by<T>(a: &[T], b: &[T], eq: fn(&T, &T) -> bool) -> bool {
    if a.len() == b.len() {
        return true;
    }
    let mut i = 0;
    while i < a.len() && i < b.len() {
        if !eq(&a[i], &b[i]) {
            return false;
        }
        i += 1;
    }
    true
}
fn same_len_or_prefix<T: PartialEq>(a: &[T], b: &[T]) -> bool {
    same_len_or_prefix_by(a, b, |x, y| x == y)
}

/// the element comparison is std's `Ord::cmp` of the element type
fn ref_lex_cmp<T: Ord>(a: &[T], b: &[T]) -> Ordering {
    ref_lex_cmp_by(a, b, |x, y| x.cmp(y))
}

fn ref_str_eq(a: &&str, b: &&str) -> bool {
    ref_eq(a.as_bytes(), b.as_bytes())
}
fn ref_str_cmp(a: &&str, b: &&str) -> Ordering {
    ref_lex_cmp(a.as_bytes(), b.as_bytes())
}
fn item_bytes_str<'a>(x: &&'a str) -> &'a [u8] {
    x.as_bytes()
}
fn item_bytes_bytes<'a>(x: &&'a [u8]) -> &'a [u8] {
    x
}
fn ref_bytes_eq(a: &&[u8], b: &&[u8]) -> bool {
    ref_eq(a, b)
}
fn ref_bytes_cmp(a: &&[u8], b: &&[u8]) -> Ordering {
    ref_lex_cmp(a, b)
}

/// `Option` order: `None` before `Some`, two `Some` by their payloads
fn ref_opt_eq<T>(l: Option<T>, r: Option<T>, f: impl Fn(T, T) -> bool) -> bool {
    match (l, r) {
        (Some(a), Some(b)) => f(a, b),
        (None, None) => true,
        _ => false,
    }
}
fn ref_opt_cmp<T>(l: Option<T>, r: Option<T>, f: impl Fn(T, T) -> Ordering) -> Ordering {
    match (l, r) {
        (Some(a), Some(b)) => f(a, b),
        (None, None) => Equal,
        (None, Some(_)) => Less,
        (Some(_), None) => Greater,
    }
}

fn opt<S: Src, T>(s: &mut S, v: T) -> Option<T> {
    if s.bool() {
        Some(v)
    } else {
        None
    }
}

fn any_ordering<S: Src>(s: &mut S) -> Ordering {
    match s.upto(2) {
        0 => Less,
        1 => Equal,
        _ => Greater,
    }
}

fn eq_u8_ref(a: &u8, b: &u8) -> bool {
    *a == *b
}
fn cmp_u8_ref(a: &u8, b: &u8) -> Ordering {
    konst::primitive::cmp::cmp_u8(*a, *b)
}

// ---------------------------------------------------------------------------
// scalars: cmp_<t>, eq/cmp_option_<t>, const_eq!/const_cmp! at <t>, &<t>, Option<<t>>,
// const_eq_for!/const_cmp_for!(option; ..)

macro_rules! c16_scalar {
    ($name:ident, $t:ident, $cmp:ident, $eqo:ident, $cmpo:ident, $min:expr, $max:expr) => {
        harness! {
            /// kind=complete tier=quick bound="none: both operands over the full domain of the scalar type, Option operands over None and every Some"
            fn $name(s) {
                use konst::primitive::cmp as pc;
                let l: $t = s.$t();
                let r: $t = s.$t();
                let e_eq = l == r;
                let e_cmp = Ord::cmp(&l, &r);
                let lo: Option<$t> = opt(s, l);
                let ro: Option<$t> = opt(s, r);
                let o_eq = lo == ro;
                let o_cmp = Ord::cmp(&lo, &ro);
                // witnesses first: a failed obligation cuts the paths behind it (Kani: assert, then assume)
                cov!(s, e_cmp == Less && o_cmp == Greater, "C16.cover.scalar_less_but_option_greater");
                cov!(s, e_cmp == Greater && lo.is_some() && ro.is_some(), "C16.cover.scalar_greater_some_some");
                cov!(s, e_eq && lo.is_none() && ro.is_some(), "C16.cover.scalar_eq_none_some");
                cov!(s, l == $min && r == $max, "C16.cover.scalar_min_max");
                chk!(s, const_eq!(l, r) == e_eq, "C16.const_eq.scalar");
                chk!(s, const_eq!(&l, &r) == e_eq, "C16.const_eq.ref_scalar");
                chk!(s, pc::$eqo(lo, ro) == o_eq, "C16.eq_option_scalar.eq_std");
                chk!(s, const_eq!(lo, ro) == o_eq, "C16.const_eq.option_scalar");
                chk!(s, const_eq_for!(option; lo, ro) == o_eq, "C16.const_eq_for.option_default");
                chk!(s, const_eq_for!(option; lo, ro, |a, b| *a == *b) == o_eq, "C16.const_eq_for.option_closure2");
                chk!(s, const_eq_for!(option; lo, ro, |a| *a) == o_eq, "C16.const_eq_for.option_key");
                chk!(s, pc::$cmp(l, r) == e_cmp, "C16.cmp_scalar.eq_ord");
                chk!(s, const_cmp!(l, r) == e_cmp, "C16.const_cmp.scalar");
                chk!(s, const_cmp!(&l, &r) == e_cmp, "C16.const_cmp.ref_scalar");
                chk!(s, pc::$cmpo(lo, ro) == o_cmp, "C16.cmp_option_scalar.eq_ord");
                chk!(s, const_cmp!(lo, ro) == o_cmp, "C16.const_cmp.option_scalar");
                chk!(s, const_cmp_for!(option; lo, ro) == o_cmp, "C16.const_cmp_for.option_default");
                chk!(s, const_cmp_for!(option; lo, ro, |a, b| pc::$cmp(*a, *b)) == o_cmp, "C16.const_cmp_for.option_closure2");
                chk!(s, const_cmp_for!(option; lo, ro, |a| *a) == o_cmp, "C16.const_cmp_for.option_key");
            }
        }
    };
}

c16_scalar! {c16_scalar_u8, u8, cmp_u8, eq_option_u8, cmp_option_u8, u8::MIN, u8::MAX}
c16_scalar! {c16_scalar_u16, u16, cmp_u16, eq_option_u16, cmp_option_u16, u16::MIN, u16::MAX}
c16_scalar! {c16_scalar_u32, u32, cmp_u32, eq_option_u32, cmp_option_u32, u32::MIN, u32::MAX}
c16_scalar! {c16_scalar_u64, u64, cmp_u64, eq_option_u64, cmp_option_u64, u64::MIN, u64::MAX}
c16_scalar! {c16_scalar_u128, u128, cmp_u128, eq_option_u128, cmp_option_u128, u128::MIN, u128::MAX}
c16_scalar! {c16_scalar_usize, usize, cmp_usize, eq_option_usize, cmp_option_usize, usize::MIN, usize::MAX}
c16_scalar! {c16_scalar_i8, i8, cmp_i8, eq_option_i8, cmp_option_i8, i8::MIN, i8::MAX}
c16_scalar! {c16_scalar_i16, i16, cmp_i16, eq_option_i16, cmp_option_i16, i16::MIN, i16::MAX}
c16_scalar! {c16_scalar_i32, i32, cmp_i32, eq_option_i32, cmp_option_i32, i32::MIN, i32::MAX}
c16_scalar! {c16_scalar_i64, i64, cmp_i64, eq_option_i64, cmp_option_i64, i64::MIN, i64::MAX}
c16_scalar! {c16_scalar_i128, i128, cmp_i128, eq_option_i128, cmp_option_i128, i128::MIN, i128::MAX}
c16_scalar! {c16_scalar_isize, isize, cmp_isize, eq_option_isize, cmp_option_isize, isize::MIN, isize::MAX}
c16_scalar! {c16_scalar_char, char, cmp_char, eq_option_char, cmp_option_char, '\0', char::MAX}

// ---------------------------------------------------------------------------
// NonZero integers and Options of them

macro_rules! c16_nonzero {
    ($name:ident, $nz:ident, $t:ident, $eq:ident, $cmp:ident, $eqo:ident, $cmpo:ident) => {
        harness! {
            /// kind=complete tier=quick bound="none: both operands over every non-zero value of the integer type, Option operands over None and every Some"
            fn $name(s) {
                use konst::nonzero::cmp as nc;
                let a: $t = s.$t();
                let b: $t = s.$t();
                s.assume(a != 0 && b != 0);
                let (l, r) = match (<$nz>::new(a), <$nz>::new(b)) {
                    (Some(l), Some(r)) => (l, r),
                    _ => return,
                };
                let e_eq = l == r;
                let e_cmp = Ord::cmp(&l, &r);
                let lo: Option<$nz> = opt(s, l);
                let ro: Option<$nz> = opt(s, r);
                let o_eq = lo == ro;
                let o_cmp = Ord::cmp(&lo, &ro);
                // witnesses first: a failed obligation cuts the paths behind it (Kani: assert, then assume)
                cov!(s, e_cmp == Less && o_cmp == Greater, "C16.cover.nonzero_less_but_option_greater");
                cov!(s, e_cmp == Greater && lo.is_some() && ro.is_some(), "C16.cover.nonzero_greater_some_some");
                cov!(s, a == <$t>::MAX && b == <$t>::MIN.wrapping_add((<$t>::MIN == 0) as $t), "C16.cover.nonzero_extremes");
                chk!(s, nc::$eq(l, r) == e_eq, "C16.eq_nonzero.eq_std");
                chk!(s, const_eq!(l, r) == e_eq, "C16.const_eq.nonzero");
                chk!(s, nc::$eqo(lo, ro) == o_eq, "C16.eq_option_nonzero.eq_std");
                chk!(s, const_eq!(lo, ro) == o_eq, "C16.const_eq.option_nonzero");
                chk!(s, nc::$cmp(l, r) == e_cmp, "C16.cmp_nonzero.eq_ord");
                chk!(s, const_cmp!(l, r) == e_cmp, "C16.const_cmp.nonzero");
                chk!(s, nc::$cmpo(lo, ro) == o_cmp, "C16.cmp_option_nonzero.eq_ord");
                chk!(s, const_cmp!(lo, ro) == o_cmp, "C16.const_cmp.option_nonzero");
            }
        }
    };
}

c16_nonzero! {c16_nonzero_u8, NonZeroU8, u8, eq_nonzerou8, cmp_nonzerou8, eq_option_nonzerou8, cmp_option_nonzerou8}
c16_nonzero! {c16_nonzero_u16, NonZeroU16, u16, eq_nonzerou16, cmp_nonzerou16, eq_option_nonzerou16, cmp_option_nonzerou16}
c16_nonzero! {c16_nonzero_u32, NonZeroU32, u32, eq_nonzerou32, cmp_nonzerou32, eq_option_nonzerou32, cmp_option_nonzerou32}
c16_nonzero! {c16_nonzero_u64, NonZeroU64, u64, eq_nonzerou64, cmp_nonzerou64, eq_option_nonzerou64, cmp_option_nonzerou64}
c16_nonzero! {c16_nonzero_u128, NonZeroU128, u128, eq_nonzerou128, cmp_nonzerou128, eq_option_nonzerou128, cmp_option_nonzerou128}
c16_nonzero! {c16_nonzero_usize, NonZeroUsize, usize, eq_nonzerousize, cmp_nonzerousize, eq_option_nonzerousize, cmp_option_nonzerousize}
c16_nonzero! {c16_nonzero_i8, NonZeroI8, i8, eq_nonzeroi8, cmp_nonzeroi8, eq_option_nonzeroi8, cmp_option_nonzeroi8}
c16_nonzero! {c16_nonzero_i16, NonZeroI16, i16, eq_nonzeroi16, cmp_nonzeroi16, eq_option_nonzeroi16, cmp_option_nonzeroi16}
c16_nonzero! {c16_nonzero_i32, NonZeroI32, i32, eq_nonzeroi32, cmp_nonzeroi32, eq_option_nonzeroi32, cmp_option_nonzeroi32}
c16_nonzero! {c16_nonzero_i64, NonZeroI64, i64, eq_nonzeroi64, cmp_nonzeroi64, eq_option_nonzeroi64, cmp_option_nonzeroi64}
c16_nonzero! {c16_nonzero_i128, NonZeroI128, i128, eq_nonzeroi128, cmp_nonzeroi128, eq_option_nonzeroi128, cmp_option_nonzeroi128}
c16_nonzero! {c16_nonzero_isize, NonZeroIsize, isize, eq_nonzeroisize, cmp_nonzeroisize, eq_option_nonzeroisize, cmp_option_nonzeroisize}

// ---------------------------------------------------------------------------
// ranges (equality only: std ranges are not `Ord`)

macro_rules! c16_range {
    ($name:ident, $t:ident, $eqr:ident, $eqri:ident) => {
        harness! {
            /// kind=complete tier=quick bound="none: all four bounds over the full domain of the bound type (empty and inverted ranges included)"
            fn $name(s) {
                use konst::range::cmp as rc;
                let (a, b, c, d): ($t, $t, $t, $t) = (s.$t(), s.$t(), s.$t(), s.$t());
                let l: Range<$t> = a..b;
                let r: Range<$t> = c..d;
                let e = l == r;
                let li: RangeInclusive<$t> = a..=b;
                let ri: RangeInclusive<$t> = c..=d;
                let ei = li == ri;
                // witnesses first: a failed obligation cuts the paths behind it (Kani: assert, then assume)
                cov!(s, e && a > b, "C16.cover.range_equal_inverted");
                cov!(s, a == c && b != d, "C16.cover.range_same_start_other_end");
                cov!(s, a != c && b == d, "C16.cover.range_other_start_same_end");
                chk!(s, rc::$eqr(&l, &r) == e, "C16.eq_range.eq_std");
                chk!(s, const_eq!(l, r) == e, "C16.const_eq.range");
                chk!(s, const_eq_for!(range; l, r) == e, "C16.const_eq_for.range_default");
                chk!(s, const_eq_for!(range; l, r, |x, y| *x == *y) == e, "C16.const_eq_for.range_closure2");
                chk!(s, rc::$eqri(&li, &ri) == ei, "C16.eq_rangeinc.eq_std");
                chk!(s, const_eq!(li, ri) == ei, "C16.const_eq.rangeinc");
                chk!(s, const_eq_for!(range_inclusive; li, ri) == ei, "C16.const_eq_for.rangeinc_default");
                chk!(s, const_eq_for!(range_inclusive; li, ri, |x, y| **x == **y) == ei, "C16.const_eq_for.rangeinc_closure2");
            }
        }
    };
}

c16_range! {c16_range_u8, u8, eq_range_u8, eq_rangeinc_u8}
c16_range! {c16_range_u16, u16, eq_range_u16, eq_rangeinc_u16}
c16_range! {c16_range_u32, u32, eq_range_u32, eq_rangeinc_u32}
c16_range! {c16_range_u64, u64, eq_range_u64, eq_rangeinc_u64}
c16_range! {c16_range_u128, u128, eq_range_u128, eq_rangeinc_u128}
c16_range! {c16_range_usize, usize, eq_range_usize, eq_rangeinc_usize}
c16_range! {c16_range_char, char, eq_range_char, eq_rangeinc_char}

// ---------------------------------------------------------------------------
// Ordering, Option<Ordering>, marker types

harness! {
    /// kind=complete tier=quick bound="none: all 3x3 Ordering pairs, all 4x4 Option<Ordering> pairs; marker types have one value"
    fn c16_other(s) {
        use konst::other::cmp as oc;
        let l = any_ordering(s);
        let r = any_ordering(s);
        let e_eq = l == r;
        let e_cmp = Ord::cmp(&l, &r);
        let lo = opt(s, l);
        let ro = opt(s, r);
        let o_eq = lo == ro;
        let o_cmp = Ord::cmp(&lo, &ro);
        // witnesses first: a failed obligation cuts the paths behind it (Kani: assert, then assume)
        cov!(s, l == Greater && r == Less, "C16.cover.ordering_greater_less");
        cov!(s, l == Less && r == Equal && lo.is_some() && ro.is_some(), "C16.cover.ordering_less_equal");
        cov!(s, lo.is_none() && ro == Some(Less), "C16.cover.ordering_none_some");
        chk!(s, oc::eq_ordering(l, r) == e_eq, "C16.eq_ordering.eq_std");
        chk!(s, const_eq!(l, r) == e_eq, "C16.const_eq.ordering");
        chk!(s, oc::eq_option_ordering(lo, ro) == o_eq, "C16.eq_option_ordering.eq_std");
        chk!(s, const_eq!(lo, ro) == o_eq, "C16.const_eq.option_ordering");
        chk!(s, oc::cmp_ordering(l, r) == e_cmp, "C16.cmp_ordering.eq_ord");
        chk!(s, const_cmp!(l, r) == e_cmp, "C16.const_cmp.ordering");
        chk!(s, oc::cmp_option_ordering(lo, ro) == o_cmp, "C16.cmp_option_ordering.eq_ord");
        chk!(s, const_cmp!(lo, ro) == o_cmp, "C16.const_cmp.option_ordering");
        let (p, q) = (PhantomData::<u16>, PhantomData::<u16>);
        chk!(s, oc::eq_phantomdata(p, q) == (p == q), "C16.eq_phantomdata.eq_std");
        chk!(s, oc::cmp_phantomdata(p, q) == Ord::cmp(&p, &q), "C16.cmp_phantomdata.eq_ord");
        chk!(s, const_eq!(p, q) == (p == q) && const_cmp!(p, q) == Ord::cmp(&p, &q), "C16.const_eq_cmp.phantomdata");
        let (pp, qq) = (PhantomPinned, PhantomPinned);
        chk!(s, oc::eq_phantompinned(pp, qq) == (pp == qq), "C16.eq_phantompinned.eq_std");
        chk!(s, oc::cmp_phantompinned(pp, qq) == Ord::cmp(&pp, &qq), "C16.cmp_phantompinned.eq_ord");
    }
}

// ---------------------------------------------------------------------------
// slices of scalars

macro_rules! c16_slice {
    ($name:ident, $t:ident, $eq:path, $cmp:path, $eqo:path, $cmpo:path) => {
        harness! {
            /// kind=bounded tier=quick bound="two slices of len<=3 each (all 16 length combinations), every element over the full domain of the element type; Option operands None/Some"
            #[kani::unwind(6)]
            fn $name(s) {
                let la: [$t; 3] = [s.$t(), s.$t(), s.$t()];
                let ra: [$t; 3] = [s.$t(), s.$t(), s.$t()];
                let ll = s.upto(3);
                let rl = s.upto(3);
                let l: &[$t] = &la[..ll];
                let r: &[$t] = &ra[..rl];
                let e_eq = ref_eq(l, r);
                let e_cmp = ref_lex_cmp(l, r);
                let lo: Option<&[$t]> = opt(s, l);
                let ro: Option<&[$t]> = opt(s, r);
                let o_eq = ref_opt_eq(lo, ro, |a, b| ref_eq(a, b));
                let o_cmp = ref_opt_cmp(lo, ro, |a, b| ref_lex_cmp(a, b));
                // witnesses first: a failed obligation cuts the paths behind it (Kani: assert, then assume)
                cov!(s, ll == 1 && rl == 2 && la[0] > ra[0], "C16.cover.slice_shorter_with_larger_first");
                cov!(s, ll == 3 && rl == 2 && la[0] == ra[0] && la[1] < ra[1], "C16.cover.slice_longer_but_less");
                cov!(s, ll == 2 && rl == 3 && e_cmp == Less && la[0] == ra[0] && la[1] == ra[1], "C16.cover.slice_proper_prefix");
                cov!(s, ll == 3 && e_eq, "C16.cover.slice_equal_len3");
                cov!(s, ll == 0 && rl == 0 && lo.is_some() && ro.is_none(), "C16.cover.slice_empty_some_vs_none");
                // every obligation is checked on its own selector value, so that a failing one does not mask the others
                let sel = s.upto(12);
                let k_eq: bool = $eq(l, r);
                let k_cmp: Ordering = $cmp(l, r);
                chk!(s, sel != 0 || (k_eq == e_eq), "C16.eq_slice.eq_std");
                chk!(s, sel != 1 || (const_eq!(l, r) == e_eq), "C16.const_eq.slice");
                // arrays coerce to slices
                chk!(s, sel != 2 || (const_eq!(la, ra) == ref_eq(&la, &ra)), "C16.const_eq.array");
                chk!(s, sel != 3 || ($eqo(lo, ro) == o_eq), "C16.eq_option_slice.eq_std");
                chk!(s, sel != 4 || (const_eq!(lo, ro) == o_eq), "C16.const_eq.option_slice");
                chk!(s, sel != 5 || ((k_cmp == Equal) == k_eq), "C16.cmp_slice.equal_iff_eq");
                chk!(s, sel != 6 || (k_cmp == e_cmp), "C16.cmp_slice.eq_ord");
                chk!(s, sel != 7 || (const_cmp!(l, r) == e_cmp), "C16.const_cmp.slice");
                chk!(s, sel != 8 || (const_cmp!(la, ra) == ref_lex_cmp(&la, &ra)), "C16.const_cmp.array");
                chk!(s, sel != 9 || ($cmpo(lo, ro) == o_cmp), "C16.cmp_option_slice.eq_ord");
                chk!(s, sel != 10 || (const_cmp!(lo, ro) == o_cmp), "C16.const_cmp.option_slice");
                chk!(s, sel != 11 || !same_len_or_prefix(l, r) || (k_cmp == e_cmp), "C16.cmp_slice.eq_ord_same_len_or_prefix");
                chk!(s, sel != 12 || (lo.is_some() && ro.is_some() && !same_len_or_prefix(l, r)) || ($cmpo(lo, ro) == o_cmp), "C16.cmp_option_slice.eq_ord_none_arms_same_len_or_prefix");
            }
        }
    };
}

c16_slice! {c16_slice_bytes, u8, konst::slice::eq_bytes, konst::slice::cmp_bytes, konst::slice::eq_option_bytes, konst::slice::cmp_option_bytes}
c16_slice! {c16_slice_u8, u8, konst::slice::cmp::eq_slice_u8, konst::slice::cmp::cmp_slice_u8, konst::slice::cmp::eq_option_slice_u8, konst::slice::cmp::cmp_option_slice_u8}
c16_slice! {c16_slice_u16, u16, konst::slice::cmp::eq_slice_u16, konst::slice::cmp::cmp_slice_u16, konst::slice::cmp::eq_option_slice_u16, konst::slice::cmp::cmp_option_slice_u16}
c16_slice! {c16_slice_u32, u32, konst::slice::cmp::eq_slice_u32, konst::slice::cmp::cmp_slice_u32, konst::slice::cmp::eq_option_slice_u32, konst::slice::cmp::cmp_option_slice_u32}
c16_slice! {c16_slice_u64, u64, konst::slice::cmp::eq_slice_u64, konst::slice::cmp::cmp_slice_u64, konst::slice::cmp::eq_option_slice_u64, konst::slice::cmp::cmp_option_slice_u64}
c16_slice! {c16_slice_u128, u128, konst::slice::cmp::eq_slice_u128, konst::slice::cmp::cmp_slice_u128, konst::slice::cmp::eq_option_slice_u128, konst::slice::cmp::cmp_option_slice_u128}
c16_slice! {c16_slice_usize, usize, konst::slice::cmp::eq_slice_usize, konst::slice::cmp::cmp_slice_usize, konst::slice::cmp::eq_option_slice_usize, konst::slice::cmp::cmp_option_slice_usize}
c16_slice! {c16_slice_i8, i8, konst::slice::cmp::eq_slice_i8, konst::slice::cmp::cmp_slice_i8, konst::slice::cmp::eq_option_slice_i8, konst::slice::cmp::cmp_option_slice_i8}
c16_slice! {c16_slice_i16, i16, konst::slice::cmp::eq_slice_i16, konst::slice::cmp::cmp_slice_i16, konst::slice::cmp::eq_option_slice_i16, konst::slice::cmp::cmp_option_slice_i16}
c16_slice! {c16_slice_i32, i32, konst::slice::cmp::eq_slice_i32, konst::slice::cmp::cmp_slice_i32, konst::slice::cmp::eq_option_slice_i32, konst::slice::cmp::cmp_option_slice_i32}
c16_slice! {c16_slice_i64, i64, konst::slice::cmp::eq_slice_i64, konst::slice::cmp::cmp_slice_i64, konst::slice::cmp::eq_option_slice_i64, konst::slice::cmp::cmp_option_slice_i64}
c16_slice! {c16_slice_i128, i128, konst::slice::cmp::eq_slice_i128, konst::slice::cmp::cmp_slice_i128, konst::slice::cmp::eq_option_slice_i128, konst::slice::cmp::cmp_option_slice_i128}
c16_slice! {c16_slice_isize, isize, konst::slice::cmp::eq_slice_isize, konst::slice::cmp::cmp_slice_isize, konst::slice::cmp::eq_option_slice_isize, konst::slice::cmp::cmp_option_slice_isize}
c16_slice! {c16_slice_char, char, konst::slice::cmp::eq_slice_char, konst::slice::cmp::cmp_slice_char, konst::slice::cmp::eq_option_slice_char, konst::slice::cmp::cmp_option_slice_char}

// ---------------------------------------------------------------------------
// bool: enumerated concretely.  Kani 0.68 mis-encodes `<`/`>` on *symbolic* bool operands
// (`false < true` is refutable), which konst's `cmp_int!`/`__priv_ret_if_ne!` use; on concrete
// operands the comparison is constant-folded correctly, and the domain is small enough to enumerate.

const BOOLS: [bool; 2] = [false, true];
const OPT_BOOLS: [Option<bool>; 3] = [None, Some(false), Some(true)];

harness! {
    /// kind=complete tier=quick bound="none: all 2x2 bool pairs and all 3x3 Option<bool> pairs, enumerated (the only symbolic input selects the obligation)"
    fn c16_scalar_bool(s) {
        use konst::primitive::cmp as pc;
        // ok[k]: obligation k held on every pair so far
        let mut ok = [true; 11];
        let mut i = 0;
        while i < 2 {
            let mut j = 0;
            while j < 2 {
                let (l, r) = (BOOLS[i], BOOLS[j]);
                let e_eq = l == r;
                let e_cmp = Ord::cmp(&l, &r);
                ok[0] &= const_eq!(l, r) == e_eq;
                ok[1] &= const_eq!(&l, &r) == e_eq;
                ok[2] &= pc::cmp_bool(l, r) == e_cmp;
                ok[3] &= const_cmp!(l, r) == e_cmp;
                ok[4] &= const_cmp!(&l, &r) == e_cmp;
                j += 1;
            }
            i += 1;
        }
        let mut i = 0;
        while i < 3 {
            let mut j = 0;
            while j < 3 {
                let (lo, ro) = (OPT_BOOLS[i], OPT_BOOLS[j]);
                let o_eq = lo == ro;
                let o_cmp = Ord::cmp(&lo, &ro);
                ok[5] &= pc::eq_option_bool(lo, ro) == o_eq;
                ok[6] &= const_eq!(lo, ro) == o_eq;
                ok[7] &= const_eq_for!(option; lo, ro) == o_eq;
                ok[8] &= pc::cmp_option_bool(lo, ro) == o_cmp;
                ok[9] &= const_cmp!(lo, ro) == o_cmp;
                ok[10] &= const_cmp_for!(option; lo, ro) == o_cmp;
                j += 1;
            }
            i += 1;
        }
        cov!(s, Ord::cmp(&BOOLS[0], &BOOLS[1]) == Less && Ord::cmp(&OPT_BOOLS[2], &OPT_BOOLS[0]) == Greater, "C16.cover.bool_enumeration_done");
        // every obligation on its own selector value, so that a failing one does not mask the others
        let sel = s.upto(10);
        chk!(s, sel != 0 || ok[0], "C16.const_eq.bool");
        chk!(s, sel != 1 || ok[1], "C16.const_eq.ref_bool");
        chk!(s, sel != 2 || ok[2], "C16.cmp_bool.eq_ord");
        chk!(s, sel != 3 || ok[3], "C16.const_cmp.bool");
        chk!(s, sel != 4 || ok[4], "C16.const_cmp.ref_bool");
        chk!(s, sel != 5 || ok[5], "C16.eq_option_bool.eq_std");
        chk!(s, sel != 6 || ok[6], "C16.const_eq.option_bool");
        chk!(s, sel != 7 || ok[7], "C16.const_eq_for.option_bool");
        chk!(s, sel != 8 || ok[8], "C16.cmp_option_bool.eq_ord");
        chk!(s, sel != 9 || ok[9], "C16.const_cmp.option_bool");
        chk!(s, sel != 10 || ok[10], "C16.const_cmp_for.option_bool");
    }
}

fn bool_slice(bits: usize) -> [bool; 3] {
    [bits & 1 != 0, bits & 2 != 0, bits & 4 != 0]
}

/// every pair of bool slices of len <= `max` (`max` <= 3)
fn slice_bool_enum<S: Src>(s: &mut S, max: usize) {
    use konst::slice::cmp as sc;
    // okN: obligation N held on every pair so far
    let (mut ok0, mut ok1, mut ok2, mut ok3, mut ok4, mut ok5, mut ok6, mut ok9) = (true, true, true, true, true, true, true, true);
    let mut ll = 0;
    while ll <= max {
        let mut rl = 0;
        while rl <= max {
            let mut lbits = 0;
            while lbits < (1usize << ll) {
                let mut rbits = 0;
                while rbits < (1usize << rl) {
                    let (la, ra) = (bool_slice(lbits), bool_slice(rbits));
                    let l: &[bool] = &la[..ll];
                    let r: &[bool] = &ra[..rl];
                    let e_eq = ref_eq(l, r);
                    let e_cmp = ref_lex_cmp(l, r);
                    let k_eq = sc::eq_slice_bool(l, r);
                    let k_cmp = sc::cmp_slice_bool(l, r);
                    ok0 &= k_eq == e_eq;
                    ok1 &= const_eq!(l, r) == e_eq;
                    ok2 &= sc::eq_option_slice_bool(Some(l), Some(r)) == e_eq;
                    ok3 &= (k_cmp == Equal) == k_eq;
                    ok4 &= k_cmp == e_cmp;
                    ok5 &= const_cmp!(l, r) == e_cmp;
                    ok6 &= sc::cmp_option_slice_bool(Some(l), Some(r)) == e_cmp;
                    ok9 &= !same_len_or_prefix(l, r) || k_cmp == e_cmp;
                    rbits += 1;
                }
                lbits += 1;
            }
            rl += 1;
        }
        ll += 1;
    }
    let e: &[bool] = &[];
    let ok7 = !sc::eq_option_slice_bool(None, Some(e)) && !sc::eq_option_slice_bool(Some(e), None) && sc::eq_option_slice_bool(None, None);
    let ok8 = sc::cmp_option_slice_bool(None, Some(e)) == Less && sc::cmp_option_slice_bool(Some(e), None) == Greater && sc::cmp_option_slice_bool(None, None) == Equal;
    cov!(s, ref_lex_cmp(&[true][..], &[false, false][..]) == Greater, "C16.cover.slice_bool_enumeration_done");
    // every obligation on its own selector value, so that a failing one does not mask the others
    let sel = s.upto(9);
    chk!(s, sel != 0 || ok0, "C16.eq_slice_bool.eq_std");
    chk!(s, sel != 1 || ok1, "C16.const_eq.slice_bool");
    chk!(s, sel != 2 || ok2, "C16.eq_option_slice_bool.eq_std");
    chk!(s, sel != 3 || ok3, "C16.cmp_slice_bool.equal_iff_eq");
    chk!(s, sel != 4 || ok4, "C16.cmp_slice_bool.eq_ord");
    chk!(s, sel != 5 || ok5, "C16.const_cmp.slice_bool");
    chk!(s, sel != 6 || ok6, "C16.cmp_option_slice_bool.eq_ord");
    chk!(s, sel != 7 || ok7, "C16.eq_option_slice_bool.none_arms");
    chk!(s, sel != 8 || ok8, "C16.cmp_option_slice_bool.none_arms");
    chk!(s, sel != 9 || ok9, "C16.cmp_slice_bool.eq_ord_same_len_or_prefix");
}

harness! {
    /// kind=bounded tier=quick bound="every pair of bool slices of len<=2 (7 x 7 pairs, all length combinations), enumerated (the only symbolic input selects the obligation); Option forms on (Some, Some) per pair and on the None combinations once"
    fn c16_slice_bool(s) {
        slice_bool_enum(s, 2);
    }
}

harness! {
    /// kind=bounded tier=thorough bound="every pair of bool slices of len<=3 (15 x 15 pairs, all length combinations), enumerated (the only symbolic input selects the obligation)"
    fn c16_slice_bool_len3(s) {
        slice_bool_enum(s, 3);
    }
}

// ---------------------------------------------------------------------------
// strings

harness! {
    /// kind=bounded tier=quick bound="two valid UTF-8 strings of <=4 bytes each (all length combinations, every mix of 1-4 byte sequences); Option operands None/Some"
    #[kani::unwind(7)]
    fn c16_str(s) {
        let ls = BStr::<4>::any(s);
        let rs = BStr::<4>::any(s);
        let (l, r) = (ls.as_str(), rs.as_str());
        let (lb, rb) = (l.as_bytes(), r.as_bytes());
        let e_eq = ref_eq(lb, rb);
        let e_cmp = ref_lex_cmp(lb, rb);
        let lo: Option<&str> = opt(s, l);
        let ro: Option<&str> = opt(s, r);
        let o_eq = ref_opt_eq(lo, ro, |a, b| ref_eq(a.as_bytes(), b.as_bytes()));
        let o_cmp = ref_opt_cmp(lo, ro, |a, b| ref_lex_cmp(a.as_bytes(), b.as_bytes()));
        cov!(s, lb.len() == 1 && rb.len() == 2 && lb[0] > rb[0], "C16.cover.str_shorter_with_larger_first");
        cov!(s, lb.len() == 4 && rb.len() == 3 && e_cmp == Less && lb[0] >= 0xC2 && rb[0] >= 0xE0, "C16.cover.str_longer_but_less_multibyte");
        cov!(s, lb.len() == 2 && rb.len() == 4 && lb[0] == rb[0] && lb[1] == rb[1], "C16.cover.str_proper_prefix");
        cov!(s, lb.len() == 3 && e_eq && lb[0] >= 0xE0, "C16.cover.str_equal_3byte_char");
        cov!(s, lb.len() == 4 && e_eq && lb[0] >= 0xF0, "C16.cover.str_equal_4byte_char");
        cov!(s, lo.is_none() && ro.is_some() && rb.len() == 0, "C16.cover.str_none_vs_some_empty");
        // every obligation is checked on its own selector value, so that a failing one does not mask the others
        let sel = s.upto(10);
        let k_eq = konst::eq_str(l, r);
        let k_cmp = konst::cmp_str(l, r);
        chk!(s, sel != 0 || (k_eq == e_eq), "C16.eq_str.eq_std");
        chk!(s, sel != 1 || (konst::string::eq_str(l, r) == e_eq), "C16.string_eq_str.eq_std");
        chk!(s, sel != 2 || (const_eq!(l, r) == e_eq), "C16.const_eq.str");
        chk!(s, sel != 3 || (konst::eq_option_str(lo, ro) == o_eq), "C16.eq_option_str.eq_std");
        chk!(s, sel != 4 || (const_eq!(lo, ro) == o_eq), "C16.const_eq.option_str");
        chk!(s, sel != 5 || ((k_cmp == Equal) == k_eq), "C16.cmp_str.equal_iff_eq");
        chk!(s, sel != 6 || (k_cmp == e_cmp), "C16.cmp_str.eq_ord");
        chk!(s, sel != 7 || (konst::string::cmp_str(l, r) == e_cmp), "C16.string_cmp_str.eq_ord");
        chk!(s, sel != 8 || (const_cmp!(l, r) == e_cmp), "C16.const_cmp.str");
        chk!(s, sel != 9 || (konst::cmp_option_str(lo, ro) == o_cmp), "C16.cmp_option_str.eq_ord");
        chk!(s, sel != 10 || (const_cmp!(lo, ro) == o_cmp), "C16.const_cmp.option_str");
    }
}

// ---------------------------------------------------------------------------
// slices of strings / of byte slices (equality and ordering in separate harnesses: cost)

macro_rules! c16_nested_eq {
    ($name:ident, $kind:ident, $e:ty, $eq:ident, $eqo:ident, $ref_eq:ident, $ref_cmp:ident) => {
        harness! {
            /// kind=bounded tier=quick bound="two slices of <=2 items each, every item a valid UTF-8 string / arbitrary byte slice of <=2 bytes (all length combinations at both levels); Option operands None/Some"
            #[kani::unwind(6)]
            fn $name(s) {
                use konst::slice::cmp as sc;
                c16_nested_inputs!($kind, s, la, ra);
                let ll = s.upto(2);
                let rl = s.upto(2);
                let l: &[$e] = &la[..ll];
                let r: &[$e] = &ra[..rl];
                let e_eq = ref_eq_by(l, r, $ref_eq);
                let lo: Option<&[$e]> = opt(s, l);
                let ro: Option<&[$e]> = opt(s, r);
                let o_eq = ref_opt_eq(lo, ro, |a, b| ref_eq_by(a, b, $ref_eq));
                cov!(s, ll == 2 && e_eq && la[1].len() == 2, "C16.cover.nested_equal_len2");
                cov!(s, ll == 2 && rl == 2 && $ref_eq(&la[0], &ra[0]) && la[1].len() == ra[1].len() && !e_eq, "C16.cover.nested_differ_in_last_byte_only");
                cov!(s, ll == 1 && rl == 2 && $ref_eq(&la[0], &ra[0]), "C16.cover.nested_proper_prefix");
                cov!(s, lo.is_none() && ro.is_some() && rl == 0, "C16.cover.nested_none_vs_some_empty");
                // every obligation is checked on its own selector value, so that a failing one does not mask the others
                let sel = s.upto(3);
                chk!(s, sel != 0 || (sc::$eq(l, r) == e_eq), "C16.eq_slice_nested.eq_std");
                chk!(s, sel != 1 || (const_eq!(l, r) == e_eq), "C16.const_eq.slice_nested");
                chk!(s, sel != 2 || (sc::$eqo(lo, ro) == o_eq), "C16.eq_option_slice_nested.eq_std");
                chk!(s, sel != 3 || (const_eq!(lo, ro) == o_eq), "C16.const_eq.option_slice_nested");
            }
        }
    };
}

macro_rules! c16_nested_cmp {
    ($name:ident, $kind:ident, $e:ty, $eq:ident, $cmp:ident, $cmpo:ident, $ref_eq:ident, $ref_cmp:ident, $bytes:ident) => {
        harness! {
            /// kind=bounded tier=quick bound="two slices of <=2 items each, every item a valid UTF-8 string / arbitrary byte slice of <=2 bytes (all length combinations at both levels); Option operands None/Some"
            #[kani::unwind(6)]
            fn $name(s) {
                use konst::slice::cmp as sc;
                c16_nested_inputs!($kind, s, la, ra);
                let ll = s.upto(2);
                let rl = s.upto(2);
                let l: &[$e] = &la[..ll];
                let r: &[$e] = &ra[..rl];
                let e_cmp = ref_lex_cmp_by(l, r, $ref_cmp);
                let lo: Option<&[$e]> = opt(s, l);
                let ro: Option<&[$e]> = opt(s, r);
                let o_cmp = ref_opt_cmp(lo, ro, |a, b| ref_lex_cmp_by(a, b, $ref_cmp));
                cov!(s, ll == 1 && rl == 2 && $ref_cmp(&la[0], &ra[0]) == Greater, "C16.cover.nested_shorter_with_larger_first");
                cov!(s, ll == 2 && rl == 2 && $ref_eq(&la[0], &ra[0]) && la[1].len() == 1 && ra[1].len() == 2 && e_cmp == Greater, "C16.cover.nested_second_decides_inner_short_larger");
                cov!(s, ll == 1 && rl == 2 && e_cmp == Less && $ref_eq(&la[0], &ra[0]), "C16.cover.nested_cmp_proper_prefix");
                cov!(s, ll == 2 && e_cmp == Equal && la[1].len() == 2, "C16.cover.nested_cmp_equal_len2");
                cov!(s, lo.is_some() && ro.is_none() && ll == 0, "C16.cover.nested_some_empty_vs_none");
                // every obligation is checked on its own selector value, so that a failing one does not mask the others
                let sel = s.upto(6);
                let k_cmp = sc::$cmp(l, r);
                chk!(s, sel != 0 || ((k_cmp == Equal) == sc::$eq(l, r)), "C16.cmp_slice_nested.equal_iff_eq");
                chk!(s, sel != 1 || (k_cmp == e_cmp), "C16.cmp_slice_nested.eq_ord");
                chk!(s, sel != 2 || (const_cmp!(l, r) == e_cmp), "C16.const_cmp.slice_nested");
                chk!(s, sel != 3 || (sc::$cmpo(lo, ro) == o_cmp), "C16.cmp_option_slice_nested.eq_ord");
                chk!(s, sel != 4 || (const_cmp!(lo, ro) == o_cmp), "C16.const_cmp.option_slice_nested");
                // items of equal length or prefix-related, and the outer slices too: "lengths first" cannot matter at either level
                let d3_free = same_len_or_prefix_by(l, r, $ref_eq)
                    && (ll < 1 || rl < 1 || same_len_or_prefix($bytes(&la[0]), $bytes(&ra[0])))
                    && (ll < 2 || rl < 2 || same_len_or_prefix($bytes(&la[1]), $bytes(&ra[1])));
                chk!(s, sel != 5 || !d3_free || (k_cmp == e_cmp), "C16.cmp_slice_nested.eq_ord_same_len_or_prefix");
                chk!(s, sel != 6 || (lo.is_some() && ro.is_some() && !d3_free) || (sc::$cmpo(lo, ro) == o_cmp), "C16.cmp_option_slice_nested.eq_ord_none_arms_same_len_or_prefix");
            }
        }
    };
}

// (a helper, not a harness template: parenthesised so that the runner's template scan skips it)
macro_rules! c16_nested_inputs (
    (str, $s:ident, $la:ident, $ra:ident) => {
        let (a0, a1, b0, b1) = (BStr::<2>::any($s), BStr::<2>::any($s), BStr::<2>::any($s), BStr::<2>::any($s));
        let $la: [&str; 2] = [a0.as_str(), a1.as_str()];
        let $ra: [&str; 2] = [b0.as_str(), b1.as_str()];
    };
    (bytes, $s:ident, $la:ident, $ra:ident) => {
        let (a0, a1, b0, b1): ([u8; 2], [u8; 2], [u8; 2], [u8; 2]) = ($s.bytes(), $s.bytes(), $s.bytes(), $s.bytes());
        let (n0, n1, m0, m1) = ($s.upto(2), $s.upto(2), $s.upto(2), $s.upto(2));
        let $la: [&[u8]; 2] = [&a0[..n0], &a1[..n1]];
        let $ra: [&[u8]; 2] = [&b0[..m0], &b1[..m1]];
    };
);

c16_nested_eq! {c16_slice_str_eq, str, &str, eq_slice_str, eq_option_slice_str, ref_str_eq, ref_str_cmp}
c16_nested_eq! {c16_slice_bytes_eq, bytes, &[u8], eq_slice_bytes, eq_option_slice_bytes, ref_bytes_eq, ref_bytes_cmp}

c16_nested_cmp! {c16_slice_str_cmp, str, &str, eq_slice_str, cmp_slice_str, cmp_option_slice_str, ref_str_eq, ref_str_cmp, item_bytes_str}
c16_nested_cmp! {c16_slice_bytes_cmp, bytes, &[u8], eq_slice_bytes, cmp_slice_bytes, cmp_option_slice_bytes, ref_bytes_eq, ref_bytes_cmp, item_bytes_bytes}

// ---------------------------------------------------------------------------
// const_eq_for!/const_cmp_for!(slice; ..) in all four comparator forms

harness! {
    /// kind=bounded tier=quick bound="two u8 slices of len<=3 each (all 16 length combinations), all byte values; comparator forms: default, |l, r| closure, |x| key closure, function path"
    #[kani::unwind(6)]
    fn c16_cmp_for_slice(s) {
        let la: [u8; 3] = s.bytes();
        let ra: [u8; 3] = s.bytes();
        let ll = s.upto(3);
        let rl = s.upto(3);
        let l: &[u8] = &la[..ll];
        let r: &[u8] = &ra[..rl];
        let e_eq = ref_eq(l, r);
        let e_cmp = ref_lex_cmp(l, r);
        cov!(s, ll == 1 && rl == 2 && la[0] > ra[0], "C16.cover.cmp_for_shorter_with_larger_first");
        cov!(s, ll == 3 && rl == 3 && la[0] == ra[0] && la[1] == ra[1] && la[2] > ra[2], "C16.cover.cmp_for_last_decides");
        cov!(s, ll == 2 && rl == 3 && e_cmp == Less && la[0] == ra[0] && la[1] == ra[1], "C16.cover.cmp_for_proper_prefix");
        cov!(s, ll == 3 && e_eq, "C16.cover.cmp_for_equal_len3");
        // every obligation is checked on its own selector value, so that a failing one does not mask the others
        let sel = s.upto(12);
        chk!(s, sel != 0 || (const_eq_for!(slice; l, r) == e_eq), "C16.const_eq_for.slice_default");
        chk!(s, sel != 1 || (const_eq_for!(slice; l, r, |a, b| *a == *b) == e_eq), "C16.const_eq_for.slice_closure2");
        chk!(s, sel != 2 || (const_eq_for!(slice; l, r, |a| *a) == e_eq), "C16.const_eq_for.slice_key");
        chk!(s, sel != 3 || (const_eq_for!(slice; l, r, eq_u8_ref) == e_eq), "C16.const_eq_for.slice_fn");
        chk!(s, sel != 4 || ({ let c: Ordering = const_cmp_for!(slice; l, r); c } == e_cmp), "C16.const_cmp_for.slice_default");
        chk!(s, sel != 5 || ({ let c: Ordering = const_cmp_for!(slice; l, r, |a, b| konst::primitive::cmp::cmp_u8(*a, *b)); c } == e_cmp), "C16.const_cmp_for.slice_closure2");
        chk!(s, sel != 6 || ({ let c: Ordering = const_cmp_for!(slice; l, r, |a| *a); c } == e_cmp), "C16.const_cmp_for.slice_key");
        chk!(s, sel != 7 || ({ let c: Ordering = const_cmp_for!(slice; l, r, cmp_u8_ref); c } == e_cmp), "C16.const_cmp_for.slice_fn");
        chk!(s, sel != 8 || (({ let c: Ordering = const_cmp_for!(slice; l, r, |a, b| konst::primitive::cmp::cmp_u8(*a, *b)); c } == Equal) == e_eq), "C16.const_cmp_for.slice_equal_iff_eq");
        chk!(s, sel != 9 || !same_len_or_prefix(l, r) || ({ let c: Ordering = const_cmp_for!(slice; l, r); c } == e_cmp), "C16.const_cmp_for.slice_default_same_len_or_prefix");
        chk!(s, sel != 10 || !same_len_or_prefix(l, r) || ({ let c: Ordering = const_cmp_for!(slice; l, r, |a, b| konst::primitive::cmp::cmp_u8(*a, *b)); c } == e_cmp), "C16.const_cmp_for.slice_closure2_same_len_or_prefix");
        chk!(s, sel != 11 || !same_len_or_prefix(l, r) || ({ let c: Ordering = const_cmp_for!(slice; l, r, |a| *a); c } == e_cmp), "C16.const_cmp_for.slice_key_same_len_or_prefix");
        chk!(s, sel != 12 || !same_len_or_prefix(l, r) || ({ let c: Ordering = const_cmp_for!(slice; l, r, cmp_u8_ref); c } == e_cmp), "C16.const_cmp_for.slice_fn_same_len_or_prefix");
    }
}

// ---------------------------------------------------------------------------
// user type through impl_cmp!/try_equal! (the `IsNotStdKind` dispatch of const_eq!/const_cmp!)

#[derive(Copy, Clone, PartialEq, Eq, PartialOrd, Ord)]
pub struct C16Pair(pub u32, pub Option<i8>);

impl_cmp! {
    impl C16Pair;

    pub const fn const_eq(&self, other: &Self) -> bool {
        const_eq!(self.0, other.0) && const_eq!(self.1, other.1)
    }
    pub const fn const_cmp(&self, other: &Self) -> Ordering {
        try_equal!(const_cmp!(self.0, other.0));
        try_equal!(const_cmp!(self.1, other.1))
    }
}

harness! {
    /// kind=complete tier=quick bound="none: a (u32, Option<i8>) struct with field-wise const_eq/const_cmp written with const_eq!/const_cmp!/try_equal!, both operands over the full domain"
    fn c16_impl_cmp(s) {
        let (lb, rb) = (s.i8(), s.i8());
        let l = C16Pair(s.u32(), opt(s, lb));
        let r = C16Pair(s.u32(), opt(s, rb));
        let (lo, ro) = (Some(l), opt(s, r));
        cov!(s, l.0 == r.0 && l.1 == Some(1) && r.1 == Some(-1), "C16.cover.impl_cmp_second_field_decides");
        cov!(s, l.0 > r.0 && l.1.is_none() && r.1.is_some(), "C16.cover.impl_cmp_first_field_decides");
        cov!(s, l == r, "C16.cover.impl_cmp_equal");
        chk!(s, const_eq!(l, r) == (l == r), "C16.const_eq.impl_cmp_type");
        chk!(s, const_eq_for!(option; lo, ro) == (lo == ro), "C16.const_eq_for.option_impl_cmp_type");
        chk!(s, const_cmp!(l, r) == Ord::cmp(&l, &r), "C16.const_cmp.impl_cmp_type");
        chk!(s, const_cmp!(&l, &r) == Ord::cmp(&l, &r), "C16.const_cmp.ref_impl_cmp_type");
        chk!(s, const_cmp_for!(option; lo, ro) == Ord::cmp(&lo, &ro), "C16.const_cmp_for.option_impl_cmp_type");
    }
}

// ---------------------------------------------------------------------------
// assertc_eq!/assertc_ne!: panic exactly when `==` / `!=` is false

harness! {
    /// kind=complete tier=quick bound="none: u8 and char operands over the full domain; the asserted condition holds, so neither macro may panic"
    #[kani::unwind(2)]
    fn c16_assertc_pass(s) {
        let l = s.u8();
        let r = s.u8();
        if s.bool() {
            s.assume(l == r);
            assertc_eq!(l, r);
        } else {
            s.assume(l != r);
            assertc_ne!(l, r);
        }
        let c = s.char();
        let d = s.char();
        s.assume(c != d);
        assertc_ne!(c, d);
        assertc_eq!(c, c);
        chk!(s, true, "C16.assertc.no_panic_when_condition_holds");
        cov!(s, l == r && l == 255, "C16.cover.assertc_eq_pass");
        cov!(s, l != r, "C16.cover.assertc_ne_pass");
    }
}

harness! {
    /// kind=bounded tier=quick bound="4 concrete operand pairs per macro on which the asserted condition holds (u8, bool), selected symbolically; unwinding deep enough to reach a (wrong) panic, so that a spurious panic is a violation and not an unwinding failure"
    #[kani::unwind(45)]
    fn c16_assertc_pass_concrete(s) {
        match s.upto(7) {
            0 => assertc_eq!(0u8, 0u8),
            1 => assertc_eq!(255u8, 255u8),
            2 => assertc_eq!(true, true),
            3 => assertc_eq!(42u8, 42u8),
            4 => assertc_ne!(0u8, 1u8),
            5 => assertc_ne!(255u8, 0u8),
            6 => assertc_ne!(true, false),
            _ => assertc_ne!(7u8, 200u8),
        }
        chk!(s, true, "C16.assertc.no_panic_when_condition_holds_concrete");
        cov!(s, true, "C16.cover.assertc_pass_concrete_end_reached");
    }
}

// The panic side formats its message with const_panic (nested byte loops over a 1024-byte buffer);
// with symbolic operands the message length is symbolic and symbolic execution does not finish
// (> 15 min), and `const_panic::concat_panic` cannot be stubbed from here (its argument type
// `const_panic::PanicVal` is not nameable: const_panic is not a dependency of this crate).
// So the panic side runs on concrete operand pairs selected by one symbolic value; the decision
// itself (`const_eq` of the operands) is covered on the full domain by the harnesses above.

harness! {
    /// kind=bounded tier=quick bound="4 concrete unequal operand pairs (u8 0/1, u8 255/0, bool true/false, u8 7/200) selected symbolically; assertc_eq! must panic on each" expect_fail="in konst::const_panic::concat_panic_::panic_inner"
    #[kani::unwind(45)]
    fn c16_assertc_eq_panics(s) {
        match s.upto(3) {
            0 => must_panic!(s, "C16.assertc_eq.must_panic_when_ne", assertc_eq!(0u8, 1u8)),
            1 => must_panic!(s, "C16.assertc_eq.must_panic_when_ne", assertc_eq!(255u8, 0u8)),
            2 => must_panic!(s, "C16.assertc_eq.must_panic_when_ne", assertc_eq!(true, false)),
            _ => must_panic!(s, "C16.assertc_eq.must_panic_when_ne", assertc_eq!(7u8, 200u8)),
        }
    }
}

harness! {
    /// kind=bounded tier=quick bound="4 concrete equal operand pairs (u8 0, u8 255, bool false, u8 42) selected symbolically; assertc_ne! must panic on each" expect_fail="in konst::const_panic::concat_panic_::panic_inner"
    #[kani::unwind(45)]
    fn c16_assertc_ne_panics(s) {
        match s.upto(3) {
            0 => must_panic!(s, "C16.assertc_ne.must_panic_when_eq", assertc_ne!(0u8, 0u8)),
            1 => must_panic!(s, "C16.assertc_ne.must_panic_when_eq", assertc_ne!(255u8, 255u8)),
            2 => must_panic!(s, "C16.assertc_ne.must_panic_when_eq", assertc_ne!(false, false)),
            _ => must_panic!(s, "C16.assertc_ne.must_panic_when_eq", assertc_ne!(42u8, 42u8)),
        }
    }
}

// ---------------------------------------------------------------------------
// spec adequacy: the reference loops against the real std (memcmp-backed: tiny bounds)

harness! {
    /// kind=bounded tier=quick bound="two u16 slices of len<=3, all element values: ref_lex_cmp/ref_eq vs <[u16]>::cmp / =="
    #[kani::unwind(8)]
    fn c16_spec_lex_u16(s) {
        let la: [u16; 3] = [s.u16(), s.u16(), s.u16()];
        let ra: [u16; 3] = [s.u16(), s.u16(), s.u16()];
        let ll = s.upto(3);
        let rl = s.upto(3);
        let (l, r) = (&la[..ll], &ra[..rl]);
        chk!(s, ref_lex_cmp(l, r) == Ord::cmp(l, r), "SPEC.ref_lex_cmp.eq_std_slice_u16_cmp");
        chk!(s, ref_eq(l, r) == (l == r), "SPEC.ref_eq.eq_std_slice_u16_eq");
        cov!(s, ll == 1 && rl == 2 && la[0] > ra[0], "SPEC.cover.u16_shorter_with_larger_first");
        cov!(s, ll == 3 && rl == 3 && ref_eq(l, r), "SPEC.cover.u16_equal_len3");
    }
}

harness! {
    /// kind=bounded tier=quick bound="two u8 slices of len<=2, all byte values: ref_lex_cmp/ref_eq vs <[u8]>::cmp / == (memcmp)"
    #[kani::unwind(8)]
    fn c16_spec_lex_u8(s) {
        let la: [u8; 2] = s.bytes();
        let ra: [u8; 2] = s.bytes();
        let ll = s.upto(2);
        let rl = s.upto(2);
        let (l, r) = (&la[..ll], &ra[..rl]);
        chk!(s, ref_lex_cmp(l, r) == Ord::cmp(l, r), "SPEC.ref_lex_cmp.eq_std_slice_u8_cmp");
        chk!(s, ref_eq(l, r) == (l == r), "SPEC.ref_eq.eq_std_slice_u8_eq");
        cov!(s, ll == 1 && rl == 2 && la[0] > ra[0], "SPEC.cover.u8_shorter_with_larger_first");
        cov!(s, ll == 2 && rl == 2 && ref_eq(l, r), "SPEC.cover.u8_equal_len2");
    }
}

harness! {
    /// kind=bounded tier=quick bound="two valid UTF-8 strings of <=2 bytes: byte-wise reference vs str::cmp / =="
    #[kani::unwind(8)]
    fn c16_spec_str(s) {
        let ls = BStr::<2>::any(s);
        let rs = BStr::<2>::any(s);
        let (l, r) = (ls.as_str(), rs.as_str());
        chk!(s, ref_str_cmp(&l, &r) == Ord::cmp(l, r), "SPEC.ref_str_cmp.eq_std_str_cmp");
        chk!(s, ref_str_eq(&l, &r) == (l == r), "SPEC.ref_str_eq.eq_std_str_eq");
        cov!(s, l.len() == 1 && r.len() == 2, "SPEC.cover.str_one_vs_two_bytes");
    }
}

harness! {
    /// kind=bounded tier=quick bound="two slices of <=2 strings of <=1 byte each: nested reference vs <[&str]>::cmp / =="
    #[kani::unwind(8)]
    fn c16_spec_slice_str(s) {
        let (a0, a1, b0, b1) = (BStr::<1>::any(s), BStr::<1>::any(s), BStr::<1>::any(s), BStr::<1>::any(s));
        let la: [&str; 2] = [a0.as_str(), a1.as_str()];
        let ra: [&str; 2] = [b0.as_str(), b1.as_str()];
        let ll = s.upto(2);
        let rl = s.upto(2);
        let (l, r) = (&la[..ll], &ra[..rl]);
        chk!(s, ref_lex_cmp_by(l, r, ref_str_cmp) == Ord::cmp(l, r), "SPEC.ref_lex_cmp_by.eq_std_slice_str_cmp");
        chk!(s, ref_eq_by(l, r, ref_str_eq) == (l == r), "SPEC.ref_eq_by.eq_std_slice_str_eq");
        cov!(s, ll == 1 && rl == 2 && ref_str_cmp(&la[0], &ra[0]) == Greater, "SPEC.cover.slice_str_shorter_with_larger_first");
    }
}

// ---------------------------------------------------------------------------
// LONG slices (loop unrolling / block-wise rewrites only show beyond a block): lengths up to 17

fn ref_eq_u8(a: &[u8], b: &[u8]) -> bool {
    if a.len() != b.len() {
        return false;
    }
    let mut i = 0;
    let mut eq = true;
    while i < a.len() {
        if a[i] != b[i] {
            eq = false;
        }
        i += 1;
    }
    eq
}
fn ref_cmp_u8(a: &[u8], b: &[u8]) -> core::cmp::Ordering {
    let mut i = 0;
    while i < a.len() && i < b.len() {
        if a[i] != b[i] {
            return if a[i] < b[i] { core::cmp::Ordering::Less } else { core::cmp::Ordering::Greater };
        }
        i += 1;
    }
    if a.len() == b.len() { core::cmp::Ordering::Equal } else if a.len() < b.len() { core::cmp::Ordering::Less } else { core::cmp::Ordering::Greater }
}

harness! {
    /// kind=bounded tier=quick bound="byte slices and strs of length <= 17 (all byte values; strs ASCII), both lengths symbolic: eq_bytes / eq_slice_u8 / cmp_bytes / eq_str / cmp_str and const_eq!/const_cmp! on them against an element-wise reference"
    #[kani::unwind(20)]
    fn c16_eq_cmp_long_byte_slices(s) {
        let a: [u8; 17] = s.bytes();
        let b: [u8; 17] = s.bytes();
        let la = s.upto(17);
        let lb = s.upto(17);
        let (x, y) = (&a[..la], &b[..lb]);
        let e = ref_eq_u8(x, y);
        let o = ref_cmp_u8(x, y);
        chk!(s, konst::slice::eq_bytes(x, y) == e, "C16.eq_bytes.long.eq_std");
        chk!(s, konst::slice::cmp::eq_slice_u8(x, y) == e, "C16.eq_slice.long.eq_std");
        chk!(s, konst::slice::cmp_bytes(x, y) == o, "C16.cmp_bytes.long.eq_ord");
        chk!(s, konst::const_eq!(x, y) == e, "C16.const_eq.long_slice");
        chk!(s, (o == core::cmp::Ordering::Equal) == e, "C16.cmp_equal_iff_eq.long");
        cov!(s, la == 17 && lb == 17 && !e && a[7] != b[7] && a[16] == b[16], "C16.cover.long_slices_differ_at_index_7_only_region");
    }
}

harness! {
    /// kind=bounded tier=quick bound="u16 slices of length <= 12, both lengths symbolic: eq_slice_u16 / cmp_slice_u16 against an element-wise reference"
    #[kani::unwind(15)]
    fn c16_eq_cmp_long_u16_slices(s) {
        let mut a = [0u16; 12];
        let mut b = [0u16; 12];
        let mut i = 0;
        while i < 12 {
            a[i] = s.u16();
            b[i] = s.u16();
            i += 1;
        }
        let la = s.upto(12);
        let lb = s.upto(12);
        let (x, y) = (&a[..la], &b[..lb]);
        let mut eq = la == lb;
        let mut ord = core::cmp::Ordering::Equal;
        let mut decided = false;
        let mut j = 0;
        while j < 12 {
            if j < la && j < lb && !decided && x[j] != y[j] {
                ord = if x[j] < y[j] { core::cmp::Ordering::Less } else { core::cmp::Ordering::Greater };
                decided = true;
                eq = false;
            }
            j += 1;
        }
        if !decided {
            ord = if la == lb { core::cmp::Ordering::Equal } else if la < lb { core::cmp::Ordering::Less } else { core::cmp::Ordering::Greater };
        }
        chk!(s, konst::slice::cmp::eq_slice_u16(x, y) == eq, "C16.eq_slice.long_u16.eq_std");
        chk!(s, konst::slice::cmp::cmp_slice_u16(x, y) == ord, "C16.cmp_slice.long_u16.eq_ord");
        cov!(s, la == 12 && lb == 12 && x[7] != y[7] && decided, "C16.cover.long_u16_slices_differ");
    }
}
