//! C05 — prefix/suffix tests, stripping and trimming agree with std.
use crate::hlib::*;
use konst::{slice, string};

const H: usize = 6;
const N: usize = 3;

harness! {
    /// kind=bounded tier=quick bound="input<=6 bytes, pattern<=3 bytes, all byte values"
    #[kani::unwind(9)]
    fn c05_bytes_strip(s) {
        let h: [u8; H] = s.bytes();
        let n: [u8; N] = s.bytes();
        let hl = s.upto(H);
        let nl = s.upto(N);
        let (hay, nee) = (&h[..hl], &n[..nl]);
        let pre = ref_occurs_at(hay, nee, 0);
        let suf = nl <= hl && ref_occurs_at(hay, nee, hl - nl);
        chk!(s, slice::bytes_start_with(hay, nee) == pre, "C05.bytes_start_with.eq_std");
        chk!(s, slice::bytes_end_with(hay, nee) == suf, "C05.bytes_end_with.eq_std");
        chk!(s, match slice::bytes_strip_prefix(hay, nee) { Some(r) => pre && is_subslice_at(hay, r, nl, hl), None => !pre }, "C05.bytes_strip_prefix.eq_std");
        chk!(s, match slice::bytes_strip_suffix(hay, nee) { Some(r) => suf && is_subslice_at(hay, r, 0, hl - nl), None => !suf }, "C05.bytes_strip_suffix.eq_std");
        cov!(s, nl == 3 && pre && hl > 3, "C05.cover.prefix3");
        cov!(s, nl == 2 && suf && !pre, "C05.cover.suffix_only");
        cov!(s, nl > hl, "C05.cover.pattern_longer");
    }
}

harness! {
    /// kind=bounded tier=quick bound="input<=7 bytes, all byte values (every ASCII control/whitespace byte included)"
    #[kani::unwind(10)]
    fn c05_bytes_trim_ws(s) {
        let h: [u8; 7] = s.bytes();
        let hl = s.upto(7);
        let hay = &h[..hl];
        let a = ref_ws_start(hay);
        let e = ref_ws_end(hay);
        chk!(s, is_subslice_at(hay, slice::bytes_trim_start(hay), a, hl), "C05.bytes_trim_start.eq_trim_ascii_start");
        chk!(s, is_subslice_at(hay, slice::bytes_trim_end(hay), 0, e), "C05.bytes_trim_end.eq_trim_ascii_end");
        let t = slice::bytes_trim(hay);
        chk!(s, if a <= e { is_subslice_at(hay, t, a, e) } else { t.len() == 0 }, "C05.bytes_trim.eq_trim_ascii");
        chk!(s, same_slice(slice::bytes_trim_start(hay), hay.trim_ascii_start()), "C05.bytes_trim_start.eq_std");
        chk!(s, same_slice(slice::bytes_trim_end(hay), hay.trim_ascii_end()), "C05.bytes_trim_end.eq_std");
        chk!(s, t.len() == hay.trim_ascii().len() && (t.len() == 0 || t.as_ptr() == hay.trim_ascii().as_ptr()), "C05.bytes_trim.eq_std");
        cov!(s, hl == 7 && a == 2 && e == 5, "C05.cover.ws_both_sides");
        cov!(s, hl >= 1 && h[0] == 0x0C, "C05.cover.form_feed_first");
        cov!(s, hl >= 1 && h[0] == 0x0B, "C05.cover.vertical_tab_first");
    }
}

harness! {
    /// kind=bounded tier=quick bound="LONG inputs (block-wise rewrites only show beyond a block): any bytes, length 17..=20; whitespace trims against the maximal-run reference; starts_with / ends_with / strip_prefix / strip_suffix and trim_start/end_matches with a one-byte pattern against the prefix / repetition references"
    #[kani::unwind(23)]
    fn c05_long_inputs(s) {
        let raw: [u8; 20] = s.bytes();
        let hl = 17 + s.upto(3);
        let hay = &raw[..hl];
        let a = ref_ws_start(hay);
        let e = ref_ws_end(hay);
        chk!(s, is_subslice_at(hay, slice::bytes_trim_start(hay), a, hl), "C05.bytes_trim_start.long.eq_trim_ascii_start");
        chk!(s, is_subslice_at(hay, slice::bytes_trim_end(hay), 0, e), "C05.bytes_trim_end.long.eq_trim_ascii_end");
        let t = slice::bytes_trim(hay);
        chk!(s, if a <= e { is_subslice_at(hay, t, a, e) } else { t.len() == 0 }, "C05.bytes_trim.long.eq_trim_ascii");
        let nb = [s.u8()];
        let n = &nb[..];
        let is_pre = hay[0] == nb[0];
        let is_suf = hay[hl - 1] == nb[0];
        chk!(s, slice::bytes_start_with(hay, n) == is_pre, "C05.bytes_start_with.long.eq_std");
        chk!(s, slice::bytes_end_with(hay, n) == is_suf, "C05.bytes_end_with.long.eq_std");
        chk!(s, match slice::bytes_strip_prefix(hay, n) { Some(r) => is_pre && is_subslice_at(hay, r, 1, hl), None => !is_pre }, "C05.bytes_strip_prefix.long.eq_std");
        chk!(s, match slice::bytes_strip_suffix(hay, n) { Some(r) => is_suf && is_subslice_at(hay, r, 0, hl - 1), None => !is_suf }, "C05.bytes_strip_suffix.long.eq_std");
        let ra = ref_reps_start(hay, n);
        let re = ref_reps_end(hay, n);
        chk!(s, is_subslice_at(hay, slice::bytes_trim_start_matches(hay, n), ra, hl), "C05.bytes_trim_start_matches.long.maximal_whole_reps");
        chk!(s, is_subslice_at(hay, slice::bytes_trim_end_matches(hay, n), 0, re), "C05.bytes_trim_end_matches.long.maximal_whole_reps");
        cov!(s, a == 9 && e == 12, "C05.cover.long_ws_both_sides");
        cov!(s, ra == 17 && hl == 18, "C05.cover.long_repetition_run");
    }
}

macro_rules! c05_btm {
    ($name:ident, $h:literal, $n:literal, $tier:ident) => {
        harness! {
            /// kind=bounded tier=quick bound="input<=5 bytes, needle<=2 bytes, all byte values (thorough: c05_bytes_trim_matches_big 6/3)"
            #[kani::unwind(9)]
            fn $name(s) {
                let h: [u8; $h] = s.bytes();
                let n: [u8; $n] = s.bytes();
                let hl = s.upto($h);
                let nl = s.upto($n);
                let (hay, nee) = (&h[..hl], &n[..nl]);
                let a = ref_reps_start(hay, nee);
                let e = ref_reps_end(hay, nee);
                chk!(s, is_subslice_at(hay, slice::bytes_trim_start_matches(hay, nee), a, hl), "C05.bytes_trim_start_matches.maximal_whole_reps");
                chk!(s, is_subslice_at(hay, slice::bytes_trim_end_matches(hay, nee), 0, e), "C05.bytes_trim_end_matches.maximal_whole_reps");
                // both ends: either order of the two one-sided trims is "the maximal runs from both ends"
                let t = slice::bytes_trim_matches(hay, nee);
                let e1 = a + ref_reps_end(&hay[a..], nee);
                let a2 = ref_reps_start(&hay[..e], nee);
                chk!(s, is_subslice_at(hay, t, a, e1) || is_subslice_at(hay, t, a2, e), "C05.bytes_trim_matches.both_ends");
                chk!(s, nl != 0 || same_slice(t, hay), "C05.bytes_trim_matches.empty_pattern_removes_nothing");
                cov!(s, nl == 2 && a == 4 && hl == 5, "C05.cover.two_reps_then_partial");
                cov!(s, nl == 2 && e == 1 && hl == 5, "C05.cover.two_reps_end");
                cov!(s, nl == 0, "C05.cover.empty_needle");
            }
        }
    };
}
c05_btm! {c05_bytes_trim_matches, 5, 2, quick}

harness! {
    /// kind=bounded tier=quick bound="input<=6 bytes, needle<=3 bytes, all byte values"
    #[kani::unwind(9)]
    fn c05_bytes_trim_matches_big(s) {
        let h: [u8; 6] = s.bytes();
        let n: [u8; 3] = s.bytes();
        let hl = s.upto(6);
        let nl = s.upto(3);
        let (hay, nee) = (&h[..hl], &n[..nl]);
        let a = ref_reps_start(hay, nee);
        let e = ref_reps_end(hay, nee);
        chk!(s, is_subslice_at(hay, slice::bytes_trim_start_matches(hay, nee), a, hl), "C05.bytes_trim_start_matches.maximal_whole_reps");
        chk!(s, is_subslice_at(hay, slice::bytes_trim_end_matches(hay, nee), 0, e), "C05.bytes_trim_end_matches.maximal_whole_reps");
        cov!(s, nl == 3 && a == 3 && hl == 6, "C05.cover.big_rep3");
    }
}

harness! {
    /// kind=bounded tier=quick bound="valid UTF-8 string<=5 bytes, &str pattern<=3 bytes"
    #[kani::unwind(8)]
    fn c05_str_strip_strpat(s) {
        let hs = BStr::<5>::any(s);
        let ps = BStr::<3>::any(s);
        let (h, p) = (hs.as_str(), ps.as_str());
        let (hb, pb) = (h.as_bytes(), p.as_bytes());
        let (hl, nl) = (hb.len(), pb.len());
        let pre = ref_occurs_at(hb, pb, 0);
        let suf = nl <= hl && ref_occurs_at(hb, pb, hl - nl);
        chk!(s, string::starts_with(h, p) == pre, "C05.string_starts_with.str");
        chk!(s, string::ends_with(h, p) == suf, "C05.string_ends_with.str");
        chk!(s, match string::strip_prefix(h, p) { Some(r) => pre && is_subslice_at(hb, r.as_bytes(), nl, hl), None => !pre }, "C05.string_strip_prefix.str");
        chk!(s, match string::strip_suffix(h, p) { Some(r) => suf && is_subslice_at(hb, r.as_bytes(), 0, hl - nl), None => !suf }, "C05.string_strip_suffix.str");
        cov!(s, nl == 3 && pb[0] >= 0xE0 && pre && hl == 5, "C05.cover.str_three_byte_prefix");
    }
}

harness! {
    /// kind=bounded tier=quick bound="valid UTF-8 string<=4 bytes, &str pattern<=2 bytes"
    #[kani::unwind(8)]
    fn c05_str_trim_matches_strpat(s) {
        let hs = BStr::<4>::any(s);
        let ps = BStr::<2>::any(s);
        let (h, p) = (hs.as_str(), ps.as_str());
        let (hb, pb) = (h.as_bytes(), p.as_bytes());
        let (hl, nl) = (hb.len(), pb.len());
        let a = ref_reps_start(hb, pb);
        let e = ref_reps_end(hb, pb);
        chk!(s, is_subslice_at(hb, string::trim_start_matches(h, p).as_bytes(), a, hl), "C05.string_trim_start_matches.str");
        chk!(s, is_subslice_at(hb, string::trim_end_matches(h, p).as_bytes(), 0, e), "C05.string_trim_end_matches.str");
        let t = string::trim_matches(h, p).as_bytes();
        let e1 = a + ref_reps_end(&hb[a..], pb);
        let a2 = ref_reps_start(&hb[..e], pb);
        chk!(s, is_subslice_at(hb, t, a, e1) || is_subslice_at(hb, t, a2, e), "C05.string_trim_matches.str");
        cov!(s, nl == 2 && pb[0] >= 0xC2 && a == 4, "C05.cover.str_two_byte_reps");
    }
}

harness! {
    /// kind=bounded tier=quick bound="valid UTF-8 string<=5 bytes, char pattern (any char)"
    #[kani::unwind(8)]
    fn c05_str_charpat(s) {
        let hs = BStr::<5>::any(s);
        let c = s.char();
        let h = hs.as_str();
        let hb = h.as_bytes();
        let hl = hb.len();
        let mut tmp = [0u8; 4];
        let pb = c.encode_utf8(&mut tmp).as_bytes();
        let nl = pb.len();
        let pre = ref_occurs_at(hb, pb, 0);
        let suf = nl <= hl && ref_occurs_at(hb, pb, hl - nl);
        chk!(s, string::starts_with(h, c) == pre, "C05.string_starts_with.char");
        chk!(s, string::ends_with(h, c) == suf, "C05.string_ends_with.char");
        chk!(s, match string::strip_prefix(h, c) { Some(r) => pre && is_subslice_at(hb, r.as_bytes(), nl, hl), None => !pre }, "C05.string_strip_prefix.char");
        chk!(s, match string::strip_suffix(h, c) { Some(r) => suf && is_subslice_at(hb, r.as_bytes(), 0, hl - nl), None => !suf }, "C05.string_strip_suffix.char");
        let a = ref_reps_start(hb, pb);
        let e = ref_reps_end(hb, pb);
        chk!(s, is_subslice_at(hb, string::trim_start_matches(h, c).as_bytes(), a, hl), "C05.string_trim_start_matches.char");
        chk!(s, is_subslice_at(hb, string::trim_end_matches(h, c).as_bytes(), 0, e), "C05.string_trim_end_matches.char");
        let t = string::trim_matches(h, c).as_bytes();
        chk!(s, if a <= e { is_subslice_at(hb, t, a, e) } else { t.len() == 0 }, "C05.string_trim_matches.char");
        cov!(s, nl == 2 && a == 4 && hl == 5, "C05.cover.char2_reps");
    }
}

harness! {
    /// kind=bounded tier=quick bound="valid UTF-8 string<=6 bytes"
    #[kani::unwind(9)]
    fn c05_str_ws(s) {
        let hs = BStr::<6>::any(s);
        let h = hs.as_str();
        let hb = h.as_bytes();
        let hl = hb.len();
        // whitespace trims on strings are the ASCII trims (konst's documented behaviour; the property names trim_ascii*)
        let wa = ref_ws_start(hb);
        let we = ref_ws_end(hb);
        chk!(s, is_subslice_at(hb, string::trim_start(h).as_bytes(), wa, hl), "C05.string_trim_start.eq_trim_ascii_start");
        chk!(s, is_subslice_at(hb, string::trim_end(h).as_bytes(), 0, we), "C05.string_trim_end.eq_trim_ascii_end");
        let tt = string::trim(h).as_bytes();
        chk!(s, if wa <= we { is_subslice_at(hb, tt, wa, we) } else { tt.len() == 0 }, "C05.string_trim.eq_trim_ascii");
        cov!(s, wa == 1 && we == 5 && hl == 6 && hb[1] >= 0xF0, "C05.cover.str_ws_both");
    }
}

harness! {
    /// kind=bounded tier=quick bound="input<=4 bytes; pattern kinds [u8;2], [u8], str, char"
    #[kani::unwind(8)]
    fn c05_pattern_kinds(s) {
        let h: [u8; 4] = s.bytes();
        let hl = s.upto(4);
        let hay = &h[..hl];
        let arr: [u8; 2] = s.bytes();
        let pre = ref_occurs_at(hay, &arr, 0);
        chk!(s, slice::bytes_start_with(hay, &arr) == pre, "C05.pattern_kind.array");
        chk!(s, slice::bytes_start_with(hay, &arr[..]) == pre, "C05.pattern_kind.slice");
        let c = s.char();
        let mut tmp = [0u8; 4];
        let cs: &str = c.encode_utf8(&mut tmp);
        let prec = ref_occurs_at(hay, cs.as_bytes(), 0);
        chk!(s, slice::bytes_start_with(hay, &c) == prec, "C05.pattern_kind.char");
        chk!(s, slice::bytes_start_with(hay, cs) == prec, "C05.pattern_kind.str");
        let a = ref_reps_start(hay, cs.as_bytes());
        chk!(s, is_subslice_at(hay, slice::bytes_trim_start_matches(hay, &c), a, hl), "C05.pattern_kind.char_trim");
        cov!(s, pre && prec, "C05.cover.kinds_prefix");
    }
}
