//! C11 — array-building macros return fully initialised arrays equal to std's.
//!
//! Every macro arm is treated as a function of its (syntactic, inlined) closure.  The closure body
//! used here is the *most general client* (`client!`): at each call it records the argument it was
//! given, and then, under symbolic choice, leaves through an unlabelled `break`, a `continue`, a
//! `break 'outer` to a labelled block the harness wraps around the macro call, a `return` from the
//! enclosing helper function, or hands back a fresh symbolic value that is recorded under the number
//! of the *completed* call.  If the macro expression produces a value, element j must be the value of
//! the j-th completed call (CBMC's uninitialised memory is nondeterministic, so an unwritten slot
//! cannot satisfy this) and the j-th completed call must have been given element/index j
//! (`<[T; N]>::map` / `core::array::from_fn` order).  The guard assertions of the macros
//! (`assert!(i == len)`, `ArrayBuilder::build`'s fullness assert) are the documented "panic
//! instead" outcome and are whitelisted only in the harnesses where *every* path must hit them.
//! A panicking closure ends the path under Kani (no unwinding), so nothing is observable after it.
//!
//! NB (runner): helper macros are written with parenthesis delimiters (`macro_rules! name ( … );`)
//! so that the runner's template regex only sees the real harness templates.
use crate::hlib::*;
use konst::array::ArrayBuilder;

pub const CAP: usize = 8;

pub const X_NONE: u8 = 0;
pub const X_BREAK: u8 = 1;
pub const X_CONT: u8 = 2;
pub const X_LBREAK: u8 = 3;
pub const X_RET: u8 = 4;

/// client never leaves early
pub const M_OK: u8 = 0;
/// client takes exactly one unlabelled `break`, at call number `at`
pub const M_BRK: u8 = 1;
/// client takes exactly one `continue`, at call number `at`
pub const M_CONT1: u8 = 2;
/// client chooses at every call among value / `break 'outer` / `return` / `continue`
pub const M_EXITS: u8 = 3;
/// client chooses at every call among value / `break 'outer` / `return`
pub const M_EXITS_NOCONT: u8 = 4;

pub struct Rec {
    /// closure entries so far
    pub calls: usize,
    /// closure calls that ran to their end (returned a value)
    pub done: usize,
    pub vals: [u16; CAP],
    pub seen: [u8; CAP],
    /// last early exit taken (X_*)
    pub exit: u8,
    /// some `break 'outer` / `return` / unlabelled `break` was taken
    pub left: bool,
    pub conts: usize,
    pub at: usize,
}

impl Rec {
    pub fn new(at: usize) -> Self {
        Rec { calls: 0, done: 0, vals: [0; CAP], seen: [0; CAP], exit: X_NONE, left: false, conts: 0, at }
    }
}

/// The most general client.  `$n` is the array length, `$seen` the argument the macro passed in.
/// Step budget: a `continue` inside `map!`/`from_fn!` re-runs the same index, possibly forever (the
/// property allows looping); paths with more than N+2 closure entries are cut with `assume(false)`.
macro_rules! client (
    ($s:ident, $rec:ident, $mode:ident, $n:expr, $outer:lifetime, $seen:expr) => {{
        let k = $rec.calls;
        $rec.calls += 1;
        if k >= $n + 2 {
            $s.assume(false);
        }
        $rec.seen[$rec.done] = $seen;
        let c = if $mode == M_EXITS || $mode == M_EXITS_NOCONT { $s.u8() } else { 0 };
        if $mode == M_BRK && k == $rec.at {
            $rec.exit = X_BREAK;
            $rec.left = true;
            break;
        }
        if $mode == M_CONT1 && k == $rec.at {
            $rec.exit = X_CONT;
            $rec.conts += 1;
            continue;
        }
        if c == 1 {
            $rec.exit = X_LBREAK;
            $rec.left = true;
            break $outer None;
        }
        if c == 2 {
            $rec.exit = X_RET;
            $rec.left = true;
            return None;
        }
        if c == 3 && $mode == M_EXITS {
            $rec.exit = X_CONT;
            $rec.conts += 1;
            continue;
        }
        let v = $s.u16();
        $rec.vals[$rec.done] = v;
        $rec.done += 1;
        v
    }};
);

/// non-Copy element types (no Drop: C15 owns the drop accounting)
pub struct NC(pub u8);
pub struct NCO(pub u16);

fn nc_in<const N: usize>(input: [u8; N]) -> [NC; N] {
    core::array::from_fn(|i| NC(input[i]))
}
fn nco_out<const N: usize>(a: [NCO; N]) -> [u16; N] {
    a.map(|o| o.0)
}

// ---------------------------------------------------------------------------
// the macro arms as functions of their closure

/// `konst::array::map!`; forms: 0 `|x| expr`, 1 `|x: T| -> R {block}`, 2 non-Copy input through a
/// Copy-field pattern, 3 non-Copy input through a `ref` pattern, 4 non-Copy output
fn run_map<S: Src, const N: usize>(s: &mut S, rec: &mut Rec, mode: u8, form: u8, input: [u8; N]) -> Option<[u16; N]> {
    'outer: {
        let r: [u16; N] = match form {
            0 => konst::array::map!(input, |x| client!(s, rec, mode, N, 'outer, x)),
            1 => konst::array::map!(input, |x: u8| -> u16 { client!(s, rec, mode, N, 'outer, x) }),
            2 => {
                let inp = nc_in(input);
                konst::array::map!(inp, |NC(v)| client!(s, rec, mode, N, 'outer, v))
            }
            3 => {
                let inp = nc_in(input);
                konst::array::map!(inp, |ref nc| client!(s, rec, mode, N, 'outer, nc.0))
            }
            _ => {
                let o: [NCO; N] = konst::array::map!(input, |x| NCO(client!(s, rec, mode, N, 'outer, x)));
                nco_out(o)
            }
        };
        Some(r)
    }
}
const MAP_FORMS: usize = 5;

/// `konst::array::from_fn!`; forms: 0 `|i| expr`, 1 `[T; N] => |i| expr`, 2 `|i: usize| -> R {block}`,
/// 3 typed + block, 4 non-Copy output
fn run_from_fn<S: Src, const N: usize>(s: &mut S, rec: &mut Rec, mode: u8, form: u8, _input: [u8; N]) -> Option<[u16; N]> {
    'outer: {
        let r: [u16; N] = match form {
            0 => konst::array::from_fn!(|i| client!(s, rec, mode, N, 'outer, i as u8)),
            1 => konst::array::from_fn!([u16; N] => |i| client!(s, rec, mode, N, 'outer, i as u8)),
            2 => konst::array::from_fn!(|i: usize| -> u16 { client!(s, rec, mode, N, 'outer, i as u8) }),
            3 => konst::array::from_fn!([u16; N] => |i: usize| -> u16 { client!(s, rec, mode, N, 'outer, i as u8) }),
            _ => {
                let o = konst::array::from_fn!([NCO; N] => |i| NCO(client!(s, rec, mode, N, 'outer, i as u8)));
                nco_out(o)
            }
        };
        Some(r)
    }
}
const FROM_FN_FORMS: usize = 5;

/// `konst::array::map_!` (by value); forms: 0 `|x| expr`, 1 `|x: T| -> R {block}`, 2 non-Copy input
/// moved into the closure, 3 non-Copy output
fn run_map_val<S: Src, const N: usize>(s: &mut S, rec: &mut Rec, mode: u8, form: u8, input: [u8; N]) -> Option<[u16; N]> {
    'outer: {
        let r: [u16; N] = match form {
            0 => konst::array::map_!(input, |x| client!(s, rec, mode, N, 'outer, x)),
            1 => konst::array::map_!(input, |x: u8| -> u16 { client!(s, rec, mode, N, 'outer, x) }),
            2 => {
                let inp = nc_in(input);
                konst::array::map_!(inp, |nc: NC| client!(s, rec, mode, N, 'outer, nc.0))
            }
            _ => {
                let o: [NCO; N] = konst::array::map_!(input, |x| NCO(client!(s, rec, mode, N, 'outer, x)));
                nco_out(o)
            }
        };
        Some(r)
    }
}
const MAP_VAL_FORMS: usize = 4;

/// `konst::array::from_fn_!` (builder based); forms as for `from_fn!`
fn run_from_fn_val<S: Src, const N: usize>(s: &mut S, rec: &mut Rec, mode: u8, form: u8, _input: [u8; N]) -> Option<[u16; N]> {
    'outer: {
        let r: [u16; N] = match form {
            0 => konst::array::from_fn_!(|i| client!(s, rec, mode, N, 'outer, i as u8)),
            1 => konst::array::from_fn_!([u16; N] => |i| client!(s, rec, mode, N, 'outer, i as u8)),
            2 => konst::array::from_fn_!(|i: usize| -> u16 { client!(s, rec, mode, N, 'outer, i as u8) }),
            3 => konst::array::from_fn_!([u16; N] => |i: usize| -> u16 { client!(s, rec, mode, N, 'outer, i as u8) }),
            _ => {
                let o = konst::array::from_fn_!([NCO; N] => |i| NCO(client!(s, rec, mode, N, 'outer, i as u8)));
                nco_out(o)
            }
        };
        Some(r)
    }
}
const FROM_FN_VAL_FORMS: usize = 5;

// ---------------------------------------------------------------------------
// postconditions

/// element j of the produced array is the value of the j-th completed closure call, and there
/// were exactly N completed calls
fn vals_match<const N: usize>(rec: &Rec, a: &[u16; N]) -> bool {
    let mut ok = rec.done == N;
    let mut j = 0;
    while j < N {
        if a[j] != rec.vals[j] {
            ok = false;
        }
        j += 1;
    }
    ok
}

/// the j-th completed call was given `input[j]` (map) or `j` (from_fn)
fn args_match<const N: usize>(rec: &Rec, input: &[u8; N], by_index: bool) -> bool {
    let mut ok = true;
    let mut j = 0;
    while j < N {
        let want = if by_index { j as u8 } else { input[j] };
        if rec.seen[j] != want {
            ok = false;
        }
        j += 1;
    }
    ok
}

// ---------------------------------------------------------------------------
// harness templates (array length fixed per harness; the closure form is a symbolic selector)

macro_rules! c11_ok {
    ($name:ident, $run:ident, $forms:ident, $n:literal, $by_index:literal, $o_some:literal, $o_vals:literal, $o_args:literal) => {
        harness! {
            /// kind=bounded tier=quick bound="array length N fixed per harness (0,1,2,3), every closure form of the macro (symbolic selector), symbolic u8 input elements, closure = non-exiting most-general client returning a fresh symbolic u16 per call"
            #[kani::unwind(7)]
            fn $name(s) {
                const N: usize = $n;
                let input: [u8; N] = s.bytes();
                let form = s.upto($forms - 1) as u8;
                let mut rec = Rec::new(0);
                let r = $run::<S, N>(s, &mut rec, M_OK, form, input);
                match r {
                    Some(a) => {
                        chk!(s, vals_match(&rec, &a), $o_vals);
                        chk!(s, args_match(&rec, &input, $by_index), $o_args);
                        chk!(s, rec.calls == N, $o_args);
                    }
                    None => {
                        chk!(s, false, $o_some);
                    }
                }
                cov!(s, form == 0 && r.is_some(), "C11.cover.ok_first_form");
                cov!(s, form as usize == $forms - 1 && r.is_some(), "C11.cover.ok_last_form");
            }
        }
    };
}

c11_ok! {c11_map_ok_n0, run_map, MAP_FORMS, 0, false, "C11.map.completing_closure_yields_value", "C11.map.elements_eq_closure_values_in_order", "C11.map.closure_called_once_per_element_in_order"}
c11_ok! {c11_map_ok_n1, run_map, MAP_FORMS, 1, false, "C11.map.completing_closure_yields_value", "C11.map.elements_eq_closure_values_in_order", "C11.map.closure_called_once_per_element_in_order"}
c11_ok! {c11_map_ok_n2, run_map, MAP_FORMS, 2, false, "C11.map.completing_closure_yields_value", "C11.map.elements_eq_closure_values_in_order", "C11.map.closure_called_once_per_element_in_order"}
c11_ok! {c11_map_ok_n3, run_map, MAP_FORMS, 3, false, "C11.map.completing_closure_yields_value", "C11.map.elements_eq_closure_values_in_order", "C11.map.closure_called_once_per_element_in_order"}
c11_ok! {c11_from_fn_ok_n0, run_from_fn, FROM_FN_FORMS, 0, true, "C11.from_fn.completing_closure_yields_value", "C11.from_fn.elements_eq_closure_values_in_order", "C11.from_fn.closure_called_once_per_index_in_order"}
c11_ok! {c11_from_fn_ok_n1, run_from_fn, FROM_FN_FORMS, 1, true, "C11.from_fn.completing_closure_yields_value", "C11.from_fn.elements_eq_closure_values_in_order", "C11.from_fn.closure_called_once_per_index_in_order"}
c11_ok! {c11_from_fn_ok_n2, run_from_fn, FROM_FN_FORMS, 2, true, "C11.from_fn.completing_closure_yields_value", "C11.from_fn.elements_eq_closure_values_in_order", "C11.from_fn.closure_called_once_per_index_in_order"}
c11_ok! {c11_from_fn_ok_n3, run_from_fn, FROM_FN_FORMS, 3, true, "C11.from_fn.completing_closure_yields_value", "C11.from_fn.elements_eq_closure_values_in_order", "C11.from_fn.closure_called_once_per_index_in_order"}
c11_ok! {c11_map_val_ok_n0, run_map_val, MAP_VAL_FORMS, 0, false, "C11.map_.completing_closure_yields_value", "C11.map_.elements_eq_closure_values_in_order", "C11.map_.closure_called_once_per_element_in_order"}
c11_ok! {c11_map_val_ok_n1, run_map_val, MAP_VAL_FORMS, 1, false, "C11.map_.completing_closure_yields_value", "C11.map_.elements_eq_closure_values_in_order", "C11.map_.closure_called_once_per_element_in_order"}
c11_ok! {c11_map_val_ok_n2, run_map_val, MAP_VAL_FORMS, 2, false, "C11.map_.completing_closure_yields_value", "C11.map_.elements_eq_closure_values_in_order", "C11.map_.closure_called_once_per_element_in_order"}
c11_ok! {c11_map_val_ok_n3, run_map_val, MAP_VAL_FORMS, 3, false, "C11.map_.completing_closure_yields_value", "C11.map_.elements_eq_closure_values_in_order", "C11.map_.closure_called_once_per_element_in_order"}
c11_ok! {c11_from_fn_val_ok_n0, run_from_fn_val, FROM_FN_VAL_FORMS, 0, true, "C11.from_fn_.completing_closure_yields_value", "C11.from_fn_.elements_eq_closure_values_in_order", "C11.from_fn_.closure_called_once_per_index_in_order"}
c11_ok! {c11_from_fn_val_ok_n1, run_from_fn_val, FROM_FN_VAL_FORMS, 1, true, "C11.from_fn_.completing_closure_yields_value", "C11.from_fn_.elements_eq_closure_values_in_order", "C11.from_fn_.closure_called_once_per_index_in_order"}
c11_ok! {c11_from_fn_val_ok_n2, run_from_fn_val, FROM_FN_VAL_FORMS, 2, true, "C11.from_fn_.completing_closure_yields_value", "C11.from_fn_.elements_eq_closure_values_in_order", "C11.from_fn_.closure_called_once_per_index_in_order"}
c11_ok! {c11_from_fn_val_ok_n3, run_from_fn_val, FROM_FN_VAL_FORMS, 3, true, "C11.from_fn_.completing_closure_yields_value", "C11.from_fn_.elements_eq_closure_values_in_order", "C11.from_fn_.closure_called_once_per_index_in_order"}

/// every path takes an early exit that leaves the macro's loop with fewer than N writes:
/// the macro's guard must fire, no value may come out
macro_rules! c11_guard {
    ($name:ident, $run:ident, $forms:ident, $n:literal, $with_continue:literal, $o_sentinel:literal) => {
        harness! {
            /// kind=bounded tier=quick bound="array length N fixed per harness (1,2,3), every closure form, one unlabelled break (by-value macros: break or continue) at a symbolic call number < N, symbolic values before it" expect_fail="assertion failed: i == len|placeholder message.* in konst::array::ArrayBuilder::<"
            #[kani::unwind(7)]
            fn $name(s) {
                const N: usize = $n;
                let input: [u8; N] = s.bytes();
                let form = s.upto($forms - 1) as u8;
                let at = s.upto(N - 1);
                let mode = if $with_continue && s.bool() { M_CONT1 } else { M_BRK };
                let mut rec = Rec::new(at);
                cov!(s, at == N - 1 && form == 0, "C11.cover.guard_exit_at_last_call");
                cov!(s, at == 0 && form as usize == $forms - 1 && (mode == M_CONT1) == $with_continue, "C11.cover.guard_exit_at_first_call");
                let r = $run::<S, N>(s, &mut rec, mode, form, input);
                // sentinel: reaching this point means the macro expression produced a value (or
                // the helper returned) although fewer than N elements were written
                chk!(s, rec.exit == X_NONE, $o_sentinel);
                chk!(s, r.is_none(), $o_sentinel);
            }
        }
    };
}

c11_guard! {c11_map_break_panics_n1, run_map, MAP_FORMS, 1, false, "C11.map.value_produced_only_without_early_exit"}
c11_guard! {c11_map_break_panics_n2, run_map, MAP_FORMS, 2, false, "C11.map.value_produced_only_without_early_exit"}
c11_guard! {c11_map_break_panics_n3, run_map, MAP_FORMS, 3, false, "C11.map.value_produced_only_without_early_exit"}
c11_guard! {c11_from_fn_break_panics_n1, run_from_fn, FROM_FN_FORMS, 1, false, "C11.from_fn.value_produced_only_without_early_exit"}
c11_guard! {c11_from_fn_break_panics_n2, run_from_fn, FROM_FN_FORMS, 2, false, "C11.from_fn.value_produced_only_without_early_exit"}
c11_guard! {c11_from_fn_break_panics_n3, run_from_fn, FROM_FN_FORMS, 3, false, "C11.from_fn.value_produced_only_without_early_exit"}
c11_guard! {c11_map_val_skip_panics_n1, run_map_val, MAP_VAL_FORMS, 1, true, "C11.map_.value_produced_only_without_early_exit"}
c11_guard! {c11_map_val_skip_panics_n2, run_map_val, MAP_VAL_FORMS, 2, true, "C11.map_.value_produced_only_without_early_exit"}
c11_guard! {c11_map_val_skip_panics_n3, run_map_val, MAP_VAL_FORMS, 3, true, "C11.map_.value_produced_only_without_early_exit"}
c11_guard! {c11_from_fn_val_skip_panics_n1, run_from_fn_val, FROM_FN_VAL_FORMS, 1, true, "C11.from_fn_.value_produced_only_without_early_exit"}
c11_guard! {c11_from_fn_val_skip_panics_n2, run_from_fn_val, FROM_FN_VAL_FORMS, 2, true, "C11.from_fn_.value_produced_only_without_early_exit"}
c11_guard! {c11_from_fn_val_skip_panics_n3, run_from_fn_val, FROM_FN_VAL_FORMS, 3, true, "C11.from_fn_.value_produced_only_without_early_exit"}

/// exits that do not go through the guard: `break 'outer`, `return` (no value may come out) and, for
/// the by-reference macros, `continue` (re-runs the same index: a value may come out, fully written)
macro_rules! c11_exits {
    ($name:ident, $run:ident, $forms:ident, $n:literal, $mode:ident, $by_index:literal, $o_sentinel:literal, $o_vals:literal, $o_args:literal) => {
        harness! {
            /// kind=bounded tier=quick bound="array length N fixed per harness (1,2,3), every closure form, at most N+2 closure entries each choosing symbolically among value / break-to-outer-label / return / continue (continue only for map!, from_fn!)"
            #[kani::unwind(8)]
            fn $name(s) {
                const N: usize = $n;
                let input: [u8; N] = s.bytes();
                let form = s.upto($forms - 1) as u8;
                let mut rec = Rec::new(0);
                let r = $run::<S, N>(s, &mut rec, $mode, form, input);
                match r {
                    Some(a) => {
                        chk!(s, !rec.left, $o_sentinel);
                        chk!(s, vals_match(&rec, &a), $o_vals);
                        chk!(s, args_match(&rec, &input, $by_index), $o_args);
                    }
                    None => {
                        // a `None` can only come from the client's own `break 'outer None` / `return None`
                        chk!(s, rec.left, $o_sentinel);
                    }
                }
                let some = r.is_some();
                cov!(s, rec.exit == X_LBREAK && !some && rec.done == N - 1, "C11.cover.exits_labelled_break_at_last");
                cov!(s, rec.exit == X_RET && !some && rec.done == 0, "C11.cover.exits_return_at_first");
                cov!(s, ($mode != M_EXITS) || (rec.conts > 0 && some), "C11.cover.exits_continue_then_value");
                cov!(s, rec.exit == X_NONE && some, "C11.cover.exits_none_taken");
            }
        }
    };
}

c11_exits! {c11_map_exits_n1, run_map, MAP_FORMS, 1, M_EXITS, false, "C11.map.value_produced_only_without_early_exit", "C11.map.elements_eq_closure_values_in_order", "C11.map.closure_called_once_per_element_in_order"}
c11_exits! {c11_map_exits_n2, run_map, MAP_FORMS, 2, M_EXITS, false, "C11.map.value_produced_only_without_early_exit", "C11.map.elements_eq_closure_values_in_order", "C11.map.closure_called_once_per_element_in_order"}
c11_exits! {c11_map_exits_n3, run_map, MAP_FORMS, 3, M_EXITS, false, "C11.map.value_produced_only_without_early_exit", "C11.map.elements_eq_closure_values_in_order", "C11.map.closure_called_once_per_element_in_order"}
c11_exits! {c11_from_fn_exits_n1, run_from_fn, FROM_FN_FORMS, 1, M_EXITS, true, "C11.from_fn.value_produced_only_without_early_exit", "C11.from_fn.elements_eq_closure_values_in_order", "C11.from_fn.closure_called_once_per_index_in_order"}
c11_exits! {c11_from_fn_exits_n2, run_from_fn, FROM_FN_FORMS, 2, M_EXITS, true, "C11.from_fn.value_produced_only_without_early_exit", "C11.from_fn.elements_eq_closure_values_in_order", "C11.from_fn.closure_called_once_per_index_in_order"}
c11_exits! {c11_from_fn_exits_n3, run_from_fn, FROM_FN_FORMS, 3, M_EXITS, true, "C11.from_fn.value_produced_only_without_early_exit", "C11.from_fn.elements_eq_closure_values_in_order", "C11.from_fn.closure_called_once_per_index_in_order"}
c11_exits! {c11_map_val_exits_n1, run_map_val, MAP_VAL_FORMS, 1, M_EXITS_NOCONT, false, "C11.map_.value_produced_only_without_early_exit", "C11.map_.elements_eq_closure_values_in_order", "C11.map_.closure_called_once_per_element_in_order"}
c11_exits! {c11_map_val_exits_n2, run_map_val, MAP_VAL_FORMS, 2, M_EXITS_NOCONT, false, "C11.map_.value_produced_only_without_early_exit", "C11.map_.elements_eq_closure_values_in_order", "C11.map_.closure_called_once_per_element_in_order"}
c11_exits! {c11_map_val_exits_n3, run_map_val, MAP_VAL_FORMS, 3, M_EXITS_NOCONT, false, "C11.map_.value_produced_only_without_early_exit", "C11.map_.elements_eq_closure_values_in_order", "C11.map_.closure_called_once_per_element_in_order"}
c11_exits! {c11_from_fn_val_exits_n1, run_from_fn_val, FROM_FN_VAL_FORMS, 1, M_EXITS_NOCONT, true, "C11.from_fn_.value_produced_only_without_early_exit", "C11.from_fn_.elements_eq_closure_values_in_order", "C11.from_fn_.closure_called_once_per_index_in_order"}
c11_exits! {c11_from_fn_val_exits_n2, run_from_fn_val, FROM_FN_VAL_FORMS, 2, M_EXITS_NOCONT, true, "C11.from_fn_.value_produced_only_without_early_exit", "C11.from_fn_.elements_eq_closure_values_in_order", "C11.from_fn_.closure_called_once_per_index_in_order"}
c11_exits! {c11_from_fn_val_exits_n3, run_from_fn_val, FROM_FN_VAL_FORMS, 3, M_EXITS_NOCONT, true, "C11.from_fn_.value_produced_only_without_early_exit", "C11.from_fn_.elements_eq_closure_values_in_order", "C11.from_fn_.closure_called_once_per_index_in_order"}

// ---------------------------------------------------------------------------
// against the real std functions (deterministic closure with symbolic parameters)

fn g(x: u8, p: u16, q: u16) -> u16 {
    ((x as u16) ^ p).rotate_left(3).wrapping_add(q)
}
fn g1(x: u8) -> u16 {
    g(x, 259, 77)
}
fn gi(i: usize) -> u16 {
    g(i as u8, 1031, 5)
}

fn same_arr<const N: usize>(a: &[u16; N], b: &[u16; N]) -> bool {
    let mut ok = true;
    let mut j = 0;
    while j < N {
        if a[j] != b[j] {
            ok = false;
        }
        j += 1;
    }
    ok
}

macro_rules! c11_eq_std_ref {
    ($name:ident, $n:literal) => {
        harness! {
            /// kind=bounded tier=quick bound="map!/from_fn!: array length N fixed per harness (0,1,2,3), symbolic u8 elements, closure x -> rotl(x^p,3)+q with symbolic p,q, plus the function-path form; compared with <[T;N]>::map and core::array::from_fn"
            #[kani::unwind(7)]
            fn $name(s) {
                const N: usize = $n;
                let input: [u8; N] = s.bytes();
                let p = s.u16();
                let q = s.u16();
                let e: [u16; N] = input.map(|x| g(x, p, q));
                let a: [u16; N] = konst::array::map!(input, |x| g(x, p, q));
                chk!(s, same_arr(&a, &e), "C11.map.eq_std_map");
                let a: [u16; N] = konst::array::map!(input, g1);
                chk!(s, same_arr(&a, &input.map(g1)), "C11.map.eq_std_map");
                let a: [NCO; N] = konst::array::map!(nc_in(input), |ref nc| NCO(g(nc.0, p, q)));
                chk!(s, same_arr(&nco_out(a), &e), "C11.map.eq_std_map");
                let e: [u16; N] = core::array::from_fn(|i| g(input[i] ^ (i as u8), p, q));
                let a: [u16; N] = konst::array::from_fn!(|i| g(input[i] ^ (i as u8), p, q));
                chk!(s, same_arr(&a, &e), "C11.from_fn.eq_std_from_fn");
                let a = konst::array::from_fn!([u16; N] => gi);
                chk!(s, same_arr(&a, &core::array::from_fn(gi)), "C11.from_fn.eq_std_from_fn");
                cov!(s, N == 0 || e[N - 1] == 0x1234, "C11.cover.eq_std_nontrivial");
            }
        }
    };
}

c11_eq_std_ref! {c11_eq_std_ref_n0, 0}
c11_eq_std_ref! {c11_eq_std_ref_n1, 1}
c11_eq_std_ref! {c11_eq_std_ref_n2, 2}
c11_eq_std_ref! {c11_eq_std_ref_n3, 3}

macro_rules! c11_eq_std_val {
    ($name:ident, $n:literal) => {
        harness! {
            /// kind=bounded tier=quick bound="map_!/from_fn_!: array length N fixed per harness (0,1,2,3), symbolic u8 elements, closure x -> rotl(x^p,3)+q with symbolic p,q, plus the function-path form; compared with <[T;N]>::map and core::array::from_fn"
            #[kani::unwind(7)]
            fn $name(s) {
                const N: usize = $n;
                let input: [u8; N] = s.bytes();
                let p = s.u16();
                let q = s.u16();
                let e: [u16; N] = input.map(|x| g(x, p, q));
                let a: [u16; N] = konst::array::map_!(input, |x| g(x, p, q));
                chk!(s, same_arr(&a, &e), "C11.map_.eq_std_map");
                let a: [u16; N] = konst::array::map_!(input, g1);
                chk!(s, same_arr(&a, &input.map(g1)), "C11.map_.eq_std_map");
                let a: [NCO; N] = konst::array::map_!(nc_in(input), |nc: NC| NCO(g(nc.0, p, q)));
                chk!(s, same_arr(&nco_out(a), &e), "C11.map_.eq_std_map");
                let e: [u16; N] = core::array::from_fn(|i| g(input[i] ^ (i as u8), p, q));
                let a: [u16; N] = konst::array::from_fn_!(|i| g(input[i] ^ (i as u8), p, q));
                chk!(s, same_arr(&a, &e), "C11.from_fn_.eq_std_from_fn");
                let a = konst::array::from_fn_!([u16; N] => gi);
                chk!(s, same_arr(&a, &core::array::from_fn(gi)), "C11.from_fn_.eq_std_from_fn");
                cov!(s, N == 0 || e[N - 1] == 0x1234, "C11.cover.eq_std_nontrivial");
            }
        }
    };
}

c11_eq_std_val! {c11_eq_std_val_n0, 0}
c11_eq_std_val! {c11_eq_std_val_n1, 1}
c11_eq_std_val! {c11_eq_std_val_n2, 2}
c11_eq_std_val! {c11_eq_std_val_n3, 3}

// ---------------------------------------------------------------------------
// the mapper given as a function EXPRESSION (not a closure literal, not a bare path): evaluated once, like the
// argument of `<[T; N]>::map` / `core::array::from_fn`, and (for `map!`) after the array expression

fn pick(c: &core::cell::Cell<u8>, k: u8) -> impl Fn(u8) -> u16 + Copy {
    c.set(c.get() + 1);
    let n = c.get();
    move |x: u8| (x as u16) * 3 + (k as u16) + (n as u16) * 1000
}
fn pick_idx(c: &core::cell::Cell<u8>, k: u8) -> impl Fn(usize) -> u16 + Copy {
    c.set(c.get() + 1);
    let n = c.get();
    move |i: usize| (i as u16) * 5 + (k as u16) + (n as u16) * 1000
}

harness! {
    /// kind=bounded tier=quick bound="N in {0, 3}: array::map!, map_!, from_fn!, from_fn_! with the mapper given as a function-valued EXPRESSION with a side effect (an evaluation counter that also changes the function returned): evaluated exactly once and the result equals the std call; for map! the array expression is evaluated before the mapper expression"
    #[kani::unwind(6)]
    fn c11_mapper_expression_evaluated_once(s) {
        use core::cell::Cell;
        let k = s.u8() % 7;
        let input: [u8; 3] = [s.u8(), s.u8(), s.u8()];
        let c = Cell::new(0u8);
        let a: [u16; 3] = konst::array::map!(input, pick(&c, k));
        chk!(s, c.get() == 1, "C11.map.mapper_expression_evaluated_once");
        let e = input.map(pick(&Cell::new(0), k));
        chk!(s, a[0] == e[0] && a[1] == e[1] && a[2] == e[2], "C11.map.mapper_expression_eq_std_map");
        c.set(0);
        let a: [u16; 3] = konst::array::map_!(input, pick(&c, k));
        chk!(s, c.get() == 1 && a[0] == e[0] && a[1] == e[1] && a[2] == e[2], "C11.map_.mapper_expression_evaluated_once");
        c.set(0);
        let a: [u16; 3] = konst::array::from_fn!(pick_idx(&c, k));
        let e2: [u16; 3] = core::array::from_fn(pick_idx(&Cell::new(0), k));
        chk!(s, c.get() == 1 && a[0] == e2[0] && a[1] == e2[1] && a[2] == e2[2], "C11.from_fn.mapper_expression_evaluated_once");
        c.set(0);
        let a: [u16; 3] = konst::array::from_fn_!(pick_idx(&c, k));
        chk!(s, c.get() == 1 && a[0] == e2[0] && a[1] == e2[1] && a[2] == e2[2], "C11.from_fn_.mapper_expression_evaluated_once");
        // length 0: std still evaluates the mapper expression once
        c.set(0);
        let z: [u8; 0] = [];
        let _a0: [u16; 0] = konst::array::map!(z, pick(&c, k));
        chk!(s, c.get() == 1, "C11.map.mapper_expression_evaluated_once_len0");
        // order: array expression first, then the mapper expression (as in `ARRAY.map(F)`)
        let order = Cell::new(0u8);
        let arr_seen = Cell::new(0u8);
        let _ao: [u16; 3] = konst::array::map!({ order.set(order.get() + 1); arr_seen.set(order.get()); input }, { order.set(order.get() + 1); pick(&c, k) });
        chk!(s, arr_seen.get() == 1 && order.get() == 2, "C11.map.array_expression_evaluated_before_mapper_expression");
        cov!(s, k == 3 && input[2] == 200, "C11.cover.mapper_expression_values");
    }
}

// ---------------------------------------------------------------------------
// ArrayBuilder<u8, N>: reachable states are new() + k <= N pushes

fn slice_is(sl: &[u8], model: &[u8; 4], k: usize) -> bool {
    let mut ok = sl.len() == k;
    let mut j = 0;
    while j < 3 {
        if j < k && j < sl.len() && sl[j] != model[j] {
            ok = false;
        }
        j += 1;
    }
    ok
}

macro_rules! c11_builder_ops {
    ($name:ident, $n:literal) => {
        harness! {
            /// kind=bounded tier=quick bound="ArrayBuilder<u8, N>, N fixed per harness (0,1,2,3); symbolic sequence of N+2 steps among push (only while not full) / len+is_full+as_slice / write through as_mut_slice / clone (optionally continue on the clone) / copy (optionally continue on the copy); then build if full, else drop"
            #[kani::unwind(7)]
            fn $name(s) {
                const N: usize = $n;
                let mut b = ArrayBuilder::<u8, N>::new();
                let mut model = [0u8; 4];
                let mut k = 0usize;
                let mut cloned = false;
                let mut observed = false;
                let mut step = 0;
                while step < N + 2 {
                    step += 1;
                    match s.upto(4) {
                        0 => {
                            s.assume(k < N);
                            let v = s.u8();
                            b.push(v);
                            model[k] = v;
                            k += 1;
                        }
                        1 => {
                            chk!(s, b.len() == k, "C11.builder.len_counts_pushes");
                            chk!(s, b.is_full() == (k == N), "C11.builder.is_full_iff_n_pushes");
                            chk!(s, slice_is(b.as_slice(), &model, k), "C11.builder.as_slice_is_pushed_values_in_order");
                            observed = true;
                        }
                        2 => {
                            let sl = b.as_mut_slice();
                            chk!(s, slice_is(sl, &model, k), "C11.builder.as_mut_slice_is_pushed_values_in_order");
                            if k > 0 {
                                let j = s.upto(k - 1);
                                let v = s.u8();
                                if j < sl.len() {
                                    sl[j] = v;
                                }
                                model[j] = v;
                            }
                        }
                        3 => {
                            let c = b.clone();
                            chk!(s, c.len() == k && slice_is(c.as_slice(), &model, k), "C11.builder.clone_equal");
                            chk!(s, b.len() == k && slice_is(b.as_slice(), &model, k), "C11.builder.clone_leaves_original");
                            cloned = true;
                            if s.bool() {
                                b = c;
                            }
                        }
                        _ => {
                            let c = b.copy();
                            chk!(s, c.len() == k && slice_is(c.as_slice(), &model, k), "C11.builder.copy_equal");
                            if s.bool() {
                                b = c;
                            }
                        }
                    }
                }
                let full = k == N;
                if full {
                    let arr: [u8; N] = b.build();
                    let mut ok = true;
                    let mut j = 0;
                    while j < N {
                        if arr[j] != model[j] {
                            ok = false;
                        }
                        j += 1;
                    }
                    chk!(s, ok, "C11.builder.build_returns_pushed_values_in_push_order");
                }
                cov!(s, full && cloned, "C11.cover.builder_built_after_clone");
                cov!(s, full && observed, "C11.cover.builder_built_after_observe");
                cov!(s, N == 0 || (!full && k == N - 1), "C11.cover.builder_dropped_partial");
            }
        }
    };
}

harness! {
    /// kind=bounded tier=quick bound="ArrayBuilder<T, 3> for a zero-sized T ((), and a unit struct with drop glue): k <= 3 pushes (k symbolic), observing len / is_full / as_slice().len() after every push; the `while !is_full() { push }` idiom; build when full"
    #[kani::unwind(6)]
    fn c11_builder_zero_sized_elements(s) {
        struct Unit;
        impl Drop for Unit { fn drop(&mut self) {} }
        let k = s.upto(3);
        let mut b = ArrayBuilder::<(), 3>::new();
        let mut u = ArrayBuilder::<Unit, 3>::new();
        let mut j = 0;
        while j < 3 {
            if j < k {
                b.push(());
                u.push(Unit);
            }
            j += 1;
        }
        chk!(s, b.len() == k && u.len() == k, "C11.builder.zst.len_counts_pushes");
        chk!(s, b.is_full() == (k == 3) && u.is_full() == (k == 3), "C11.builder.zst.is_full_iff_n_pushes");
        chk!(s, b.as_slice().len() == k && u.as_slice().len() == k, "C11.builder.zst.as_slice_len_counts_pushes");
        let mut fills = 0usize;
        let mut guard = 0;
        while !b.is_full() && guard < 4 {
            b.push(());
            fills += 1;
            guard += 1;
        }
        chk!(s, fills == 3 - k, "C11.builder.zst.fill_loop_pushes_exactly_the_missing_elements");
        let arr: [(); 3] = b.build();
        chk!(s, arr.len() == 3, "C11.builder.zst.build_after_fill");
        cov!(s, k == 0, "C11.cover.zst_builder_empty");
        cov!(s, k == 3, "C11.cover.zst_builder_full");
    }
}

c11_builder_ops! {c11_builder_ops_n0, 0}
c11_builder_ops! {c11_builder_ops_n1, 1}
c11_builder_ops! {c11_builder_ops_n2, 2}
c11_builder_ops! {c11_builder_ops_n3, 3}

harness! {
    /// kind=bounded tier=quick bound="ArrayBuilder<u8, N>, N in {0,1,2,3}: N pushes, optionally cloned, then one more push" expect_fail="placeholder message.* in konst::array::ArrayBuilder::<"
    #[kani::unwind(7)]
    fn c11_builder_push_full_panics(s) {
        fn go<S: Src, const N: usize>(s: &mut S) {
            let mut b = ArrayBuilder::<u8, N>::new();
            let mut j = 0;
            while j < N {
                b.push(s.u8());
                j += 1;
            }
            if s.bool() {
                b = b.clone();
            }
            let v = s.u8();
            must_panic!(s, "C11.builder.push_on_full_must_panic", b.push(v));
        }
        let n = s.upto(3);
        cov!(s, n == 0, "C11.cover.push_full_len0");
        cov!(s, n == 3, "C11.cover.push_full_len3");
        match n {
            0 => go::<S, 0>(s),
            1 => go::<S, 1>(s),
            2 => go::<S, 2>(s),
            _ => go::<S, 3>(s),
        }
    }
}

harness! {
    /// kind=bounded tier=quick bound="ArrayBuilder<u8, N>, N in {1,2,3}: k < N pushes (k symbolic), optionally cloned, then build" expect_fail="placeholder message.* in konst::array::ArrayBuilder::<"
    #[kani::unwind(7)]
    fn c11_builder_build_nonfull_panics(s) {
        fn go<S: Src, const N: usize>(s: &mut S) {
            let mut b = ArrayBuilder::<u8, N>::new();
            let k = s.upto(N - 1);
            let mut j = 0;
            while j < N {
                if j < k {
                    b.push(s.u8());
                }
                j += 1;
            }
            if s.bool() {
                b = b.clone();
            }
            must_panic!(s, "C11.builder.build_on_non_full_must_panic", b.build());
        }
        let n = 1 + s.upto(2);
        cov!(s, n == 1, "C11.cover.build_nonfull_len1");
        cov!(s, n == 3, "C11.cover.build_nonfull_len3");
        match n {
            1 => go::<S, 1>(s),
            2 => go::<S, 2>(s),
            _ => go::<S, 3>(s),
        }
    }
}

harness! {
    /// kind=bounded tier=quick bound="ArrayBuilder<u8, N>, N in {0,1,2,3}: destination with kb <= N pushes and source with ko <= N pushes (both symbolic), `Clone::clone_from(&mut dst, &src)` (the trait method; today the default `*dst = src.clone()`), then observe, fill up and build"
    #[kani::unwind(7)]
    fn c11_builder_clone_from(s) {
        fn go<S: Src, const N: usize>(s: &mut S) {
            let mut b = ArrayBuilder::<u8, N>::new();
            let kb = s.upto(N);
            let mut j = 0;
            while j < N {
                if j < kb {
                    b.push(s.u8());
                }
                j += 1;
            }
            let mut o = ArrayBuilder::<u8, N>::new();
            let ko = s.upto(N);
            let mut model = [0u8; 4];
            let mut j = 0;
            while j < N {
                if j < ko {
                    let v = s.u8();
                    o.push(v);
                    model[j] = v;
                }
                j += 1;
            }
            Clone::clone_from(&mut b, &o);
            chk!(s, b.len() == ko, "C11.builder.clone_from_len_is_source_len");
            chk!(s, b.is_full() == (ko == N), "C11.builder.clone_from_is_full_iff_source_full");
            chk!(s, slice_is(b.as_slice(), &model, ko), "C11.builder.clone_from_as_slice_is_source_values");
            chk!(s, o.len() == ko && slice_is(o.as_slice(), &model, ko), "C11.builder.clone_from_leaves_source");
            cov!(s, N == 0 || kb > ko, "C11.cover.clone_from_longer_destination");
            cov!(s, N == 0 || kb < ko, "C11.cover.clone_from_shorter_destination");
            let mut k = ko;
            let mut j = 0;
            while j < N {
                if k < N && !b.is_full() {
                    let v = s.u8();
                    b.push(v);
                    model[k] = v;
                    k += 1;
                }
                j += 1;
            }
            chk!(s, k == N && b.is_full(), "C11.builder.clone_from_then_exactly_n_minus_len_pushes_fill");
            if b.is_full() {
                let arr: [u8; N] = b.build();
                let mut ok = true;
                let mut j = 0;
                while j < N {
                    if arr[j] != model[j] {
                        ok = false;
                    }
                    j += 1;
                }
                chk!(s, ok, "C11.builder.clone_from_then_build_returns_source_then_pushed_values");
            }
        }
        let n = s.upto(3);
        cov!(s, n == 0, "C11.cover.clone_from_len0");
        cov!(s, n == 3, "C11.cover.clone_from_len3");
        match n {
            0 => go::<S, 0>(s),
            1 => go::<S, 1>(s),
            2 => go::<S, 2>(s),
            _ => go::<S, 3>(s),
        }
    }
}

// ---------------------------------------------------------------------------
// collect_const!: the macro evaluates its iterator inside `const` items, so the input cannot be
// symbolic; this is an enumeration of instance programs (4 chains x 6 constant inputs of length
// 0..=3, plus one instance with a `break` inside a closure), each compared with collecting the
// same std iterator chain at run time.

const I0: [u8; 0] = [];
const I1: [u8; 1] = [6];
const I2: [u8; 2] = [255, 4];
const I3A: [u8; 3] = [9, 10, 250];
const I3B: [u8; 3] = [2, 4, 6];
const I3C: [u8; 3] = [201, 3, 100];
/// the other side of the `zip` instances (same length as the longest inputs, not a palindrome)
const ZIPB: [u8; 3] = [7, 40, 90];

/// `a` has the length and contents of the std iterator `e`
fn eq_iter<const M: usize, I: Iterator<Item = u8>>(a: [u8; M], mut e: I) -> bool {
    let mut ok = true;
    let mut j = 0usize;
    let mut guard = 0;
    while guard < 5 {
        guard += 1;
        match e.next() {
            Some(v) => {
                if j >= M || a[j] != v {
                    ok = false;
                }
                j += 1;
            }
            None => break,
        }
    }
    ok && j == M
}

macro_rules! cc_one (
    ($s:ident, $ob:literal, $inp:ident, ($($chain:tt)*), |$it:ident| $std:expr) => {{
        let a = konst::iter::collect_const!(u8 => &$inp, $($chain)*);
        let $it = $inp.iter();
        chk!($s, eq_iter(a, $std), $ob);
        a.len()
    }};
);

macro_rules! c11_cc {
    ($name:ident, $ob:literal, $chain:tt, |$it:ident| $std:expr) => {
        harness! {
            /// kind=bounded tier=quick bound="enumeration of instance programs: one iterator chain per harness (map+filter, skip+take_while, rev, filter_map+take) over 6 constant u8 arrays of length 0..=3; collect_const! is const-evaluated, so its inputs cannot be symbolic"
            #[kani::unwind(8)]
            fn $name(s) {
                let mut total = 0;
                total += cc_one!(s, $ob, I0, $chain, |$it| $std);
                total += cc_one!(s, $ob, I1, $chain, |$it| $std);
                total += cc_one!(s, $ob, I2, $chain, |$it| $std);
                total += cc_one!(s, $ob, I3A, $chain, |$it| $std);
                total += cc_one!(s, $ob, I3B, $chain, |$it| $std);
                total += cc_one!(s, $ob, I3C, $chain, |$it| $std);
                cov!(s, total >= 4, "C11.cover.collect_const_nonempty_results");
            }
        }
    };
}

c11_cc! {c11_collect_const_map_filter, "C11.collect_const.map_filter_eq_std_collect",
    (copied(), map(|x| x.wrapping_mul(3)), filter(|x| *x % 2 == 0)),
    |it| it.copied().map(|x| x.wrapping_mul(3)).filter(|x| *x % 2 == 0)}
c11_cc! {c11_collect_const_skip_take_while, "C11.collect_const.skip_take_while_eq_std_collect",
    (copied(), skip(1), take_while(|x| *x < 200)),
    |it| it.copied().skip(1).take_while(|x| *x < 200)}
c11_cc! {c11_collect_const_rev, "C11.collect_const.rev_eq_std_collect",
    (rev(), copied()),
    |it| it.rev().copied()}
c11_cc! {c11_collect_const_filter_map_take, "C11.collect_const.filter_map_take_eq_std_collect",
    (filter_map(|x| if *x > 5 { Some(*x / 2) } else { None }), take(2)),
    |it| it.filter_map(|x| if *x > 5 { Some(*x / 2) } else { None }).take(2)}

/// like `c11_cc!`, over a chosen list of the constant inputs
macro_rules! c11_cc_on {
    ($name:ident, $ob:literal, [$($inp:ident),+], $bound:literal, $chain:tt, |$it:ident| $std:expr) => {
        harness! {
            /// kind=bounded tier=quick bound="enumeration of instance programs: one iterator chain over the listed constant u8 arrays; collect_const! is const-evaluated, so its inputs cannot be symbolic"
            #[kani::unwind(8)]
            fn $name(s) {
                let mut total = 0;
                $( total += cc_one!(s, $ob, $inp, $chain, |$it| $std); )+
                cov!(s, total >= 1, "C11.cover.collect_const_nonempty_results");
            }
        }
    };
}

// `zip(..), rev()`: with both sides of the SAME length konst agrees with std ...
c11_cc_on! {c11_collect_const_zip_rev_equal_len, "C11.collect_const.zip_rev_equal_lengths_eq_std_collect", [I3A, I3B, I3C], "",
    (copied(), zip(&ZIPB), map(|(x, y)| x.wrapping_mul(2) ^ *y), rev()),
    |it| it.copied().zip(ZIPB.iter()).map(|(x, y)| x.wrapping_mul(2) ^ *y).rev()}
// ... with sides of different lengths it does not (std trims the longer side first, the DSL steps both sides from their own
// ends), and neither does `take(n), rev()`: genuine divergences of the iterator DSL from std, recorded in known_findings.json
c11_cc_on! {c11_collect_const_zip_rev_unequal_len, "C11.collect_const.zip_then_rev_unequal_lengths_eq_std_collect", [I1, I2], "",
    (copied(), zip(&ZIPB), map(|(x, y)| x.wrapping_mul(2) ^ *y), rev()),
    |it| it.copied().zip(ZIPB.iter()).map(|(x, y)| x.wrapping_mul(2) ^ *y).rev()}
c11_cc_on! {c11_collect_const_take_rev, "C11.collect_const.take_then_rev_eq_std_collect", [I3A, I3B], "",
    (copied(), take(2), rev()),
    |it| it.copied().take(2).rev()}
c11_cc_on! {c11_collect_const_rev_take, "C11.collect_const.rev_then_take_eq_std_collect", [I0, I1, I2, I3A, I3B, I3C], "",
    (rev(), copied(), take(2)),
    |it| it.rev().copied().take(2)}
c11_cc! {c11_collect_const_rev_zip, "C11.collect_const.rev_zip_eq_std_collect",
    (rev(), copied(), zip(&ZIPB), map(|(x, y)| x.wrapping_sub(*y))),
    |it| it.rev().copied().zip(ZIPB.iter()).map(|(x, y)| x.wrapping_sub(*y))}
c11_cc! {c11_collect_const_enumerate_skip_while, "C11.collect_const.enumerate_skip_while_eq_std_collect",
    (copied(), enumerate(), skip_while(|(i, x)| *i == 0 && *x > 5), map(|(i, x)| x.wrapping_add(i as u8))),
    |it| it.copied().enumerate().skip_while(|(i, x)| *i == 0 && *x > 5).map(|(i, x)| x.wrapping_add(i as u8))}

harness! {
    /// kind=bounded tier=quick bound="one instance program: break inside a collect_const! map closure over a constant 3-element array"
    #[kani::unwind(6)]
    fn c11_collect_const_break(s) {
        // early exit inside a closure: both passes must still agree; every element that is
        // there was written by the closure (the property does not fix the length here)
        let a = konst::iter::collect_const!(u8 => &I3A, copied(), map(|x| { if x == 250 { break } x + 1 }));
        let mut ok = a.len() <= 3;
        let mut j = 0;
        while j < 3 {
            if j < a.len() && a[j] != I3A[j] + 1 {
                ok = false;
            }
            j += 1;
        }
        chk!(s, ok, "C11.collect_const.break_in_closure_elements_written");
        cov!(s, a.len() == 2, "C11.cover.collect_const_break_len2");
    }
}
