//! Harness support: every harness body is written against `Src`, so the same
//! body is (a) verified by Kani with `KaniSrc` (each draw is a `kani::any()`)
//! and (b) re-run natively on a recorded counterexample with `VecSrc`
//! (`/verif/bin/check replay <file>`).

pub trait Src {
    fn u8(&mut self) -> u8;
    fn u16(&mut self) -> u16;
    fn u32(&mut self) -> u32;
    fn u64(&mut self) -> u64;
    fn u128(&mut self) -> u128;
    fn usize(&mut self) -> usize;
    fn bool(&mut self) -> bool;
    fn char(&mut self) -> char;
    fn assume(&mut self, c: bool);
    /// records a failed obligation (native replay only; under Kani `chk!` asserts)
    fn fail(&mut self, name: &'static str);

    fn i8(&mut self) -> i8 { self.u8() as i8 }
    fn i16(&mut self) -> i16 { self.u16() as i16 }
    fn i32(&mut self) -> i32 { self.u32() as i32 }
    fn i64(&mut self) -> i64 { self.u64() as i64 }
    fn i128(&mut self) -> i128 { self.u128() as i128 }
    fn isize(&mut self) -> isize { self.usize() as isize }
    /// a value in 0..=max
    fn upto(&mut self, max: usize) -> usize {
        let v = self.usize();
        self.assume(v <= max);
        v
    }
    fn bytes<const N: usize>(&mut self) -> [u8; N] {
        let mut a = [0u8; N];
        let mut i = 0;
        while i < N {
            a[i] = self.u8();
            i += 1;
        }
        a
    }
}

#[cfg(kani)]
pub struct KaniSrc;

#[cfg(kani)]
impl Src for KaniSrc {
    fn u8(&mut self) -> u8 { kani::any() }
    fn u16(&mut self) -> u16 { kani::any() }
    fn u32(&mut self) -> u32 { kani::any() }
    fn u64(&mut self) -> u64 { kani::any() }
    fn u128(&mut self) -> u128 { kani::any() }
    fn usize(&mut self) -> usize { kani::any() }
    fn bool(&mut self) -> bool {
        // drawn as a byte so that the recorded value replays without knowing kani's bool encoding
        let b: u8 = kani::any();
        kani::assume(b <= 1);
        b == 1
    }
    fn char(&mut self) -> char {
        let n: u32 = kani::any();
        kani::assume(n < 0xD800 || (n >= 0xE000 && n <= 0x10FFFF));
        // std's own conversion: the harness must not depend on konst to build its inputs
        match char::from_u32(n) {
            Some(c) => c,
            None => {
                kani::assume(false);
                'a'
            }
        }
    }
    fn assume(&mut self, c: bool) { kani::assume(c) }
    fn fail(&mut self, _name: &'static str) {}
}

#[cfg(not(kani))]
pub struct VecSrc {
    pub vals: Vec<Vec<u8>>,
    pub pos: usize,
    pub failed: Vec<&'static str>,
    pub assumption_violated: bool,
    pub exhausted: bool,
}

#[cfg(not(kani))]
impl VecSrc {
    pub fn new(vals: Vec<Vec<u8>>) -> Self {
        VecSrc { vals, pos: 0, failed: Vec::new(), assumption_violated: false, exhausted: false }
    }
    fn next(&mut self, n: usize) -> u128 {
        let mut v: u128 = 0;
        if self.pos < self.vals.len() {
            let b = &self.vals[self.pos];
            let mut i = 0;
            while i < b.len() && i < n && i < 16 {
                v |= (b[i] as u128) << (8 * i);
                i += 1;
            }
        } else {
            self.exhausted = true;
        }
        self.pos += 1;
        v
    }
}

#[cfg(not(kani))]
impl Src for VecSrc {
    fn u8(&mut self) -> u8 { self.next(1) as u8 }
    fn u16(&mut self) -> u16 { self.next(2) as u16 }
    fn u32(&mut self) -> u32 { self.next(4) as u32 }
    fn u64(&mut self) -> u64 { self.next(8) as u64 }
    fn u128(&mut self) -> u128 { self.next(16) }
    fn usize(&mut self) -> usize { self.next(8) as usize }
    fn bool(&mut self) -> bool { self.next(1) as u8 == 1 }
    fn char(&mut self) -> char {
        let n = self.next(4) as u32;
        match char::from_u32(n) {
            Some(c) => c,
            None => {
                self.assumption_violated = true;
                'a'
            }
        }
    }
    fn assume(&mut self, c: bool) {
        if !c {
            self.assumption_violated = true;
            std::panic::panic_any(AssumeViolated);
        }
    }
    fn fail(&mut self, name: &'static str) {
        if !self.failed.contains(&name) {
            self.failed.push(name);
        }
    }
}

#[cfg(not(kani))]
pub struct AssumeViolated;

/// `chk!(s, cond, "Cxx.obligation.name")`
#[cfg(kani)]
#[macro_export]
macro_rules! chk {
    ($s:expr, $c:expr, $n:literal) => {
        assert!($c, $n)
    };
}
#[cfg(not(kani))]
#[macro_export]
macro_rules! chk {
    ($s:expr, $c:expr, $n:literal) => {
        if !($c) {
            $crate::hlib::Src::fail($s, $n);
        }
    };
}

/// reachability witness behind an assumption / for a non-trivial case
#[cfg(kani)]
#[macro_export]
macro_rules! cov {
    ($s:expr, $c:expr, $n:literal) => {
        kani::cover!($c, $n)
    };
}
#[cfg(not(kani))]
#[macro_export]
macro_rules! cov {
    ($s:expr, $c:expr, $n:literal) => {
        let _ = $c;
    };
}

/// `must_panic!(s, "name", expr)`: evaluating `expr` must not return.
/// Under Kani the panic inside `expr` is a failed check that the runner
/// whitelists (`expect_fail`), and the sentinel behind it must be unreachable.
#[cfg(kani)]
#[macro_export]
macro_rules! must_panic {
    ($s:expr, $n:literal, $e:expr) => {{
        let _ = $e;
        assert!(false, $n);
    }};
}
#[cfg(not(kani))]
#[macro_export]
macro_rules! must_panic {
    ($s:expr, $n:literal, $e:expr) => {{
        let r = std::panic::catch_unwind(std::panic::AssertUnwindSafe(|| {
            let _ = $e;
        }));
        if r.is_ok() {
            $crate::hlib::Src::fail($s, $n);
        }
    }};
}

/// Declares a harness.  The doc lines carry the metadata the runner reads
/// (`kind=… tier=… bound=… [expect_fail=…]`); attributes go onto the Kani proof.
#[macro_export]
macro_rules! harness {
    ($(#[$attr:meta])* fn $name:ident($s:ident) $body:block) => {
        pub mod $name {
            #[allow(unused_imports)]
            use super::*;
            pub fn body<S: $crate::hlib::Src>($s: &mut S) $body
            #[cfg(kani)]
            #[kani::proof]
            // konst_kernel's panic helper formats a 256-byte message in loops before panicking: stubbed in EVERY harness, so
            // that a change which makes a string function panic is reported as that panic, not as an unwinding failure
            #[kani::stub(konst_kernel::string::non_char_boundary_panic, $crate::hlib::stub_non_char_boundary_panic)]
            $(#[$attr])*
            pub fn k() {
                body(&mut $crate::hlib::KaniSrc)
            }
        }
    };
}

// ---------------------------------------------------------------------------
// helpers shared by harnesses

/// Slices compared element-wise (never `==` on slices: CBMC unwinds memcmp).
pub fn eq_bytes(a: &[u8], b: &[u8]) -> bool {
    if a.len() != b.len() {
        return false;
    }
    let mut i = 0;
    while i < a.len() {
        if a[i] != b[i] {
            return false;
        }
        i += 1;
    }
    true
}

/// `sub` is exactly `whole[a..b]` as a *place* (same address and length).
pub fn is_subslice_at<T>(whole: &[T], sub: &[T], a: usize, b: usize) -> bool {
    a <= b
        && b <= whole.len()
        && sub.len() == b - a
        && (sub.as_ptr() as usize)
            == (whole.as_ptr() as usize).wrapping_add(a.wrapping_mul(core::mem::size_of::<T>()))
}

pub fn same_slice<T>(x: &[T], y: &[T]) -> bool {
    x.len() == y.len() && x.as_ptr() == y.as_ptr()
}

pub fn same_opt_slice<T>(x: Option<&[T]>, y: Option<&[T]>) -> bool {
    match (x, y) {
        (None, None) => true,
        (Some(a), Some(b)) => same_slice(a, b),
        _ => false,
    }
}

pub fn same_str(x: &str, y: &str) -> bool {
    same_slice(x.as_bytes(), y.as_bytes())
}

pub fn same_opt_str(x: Option<&str>, y: Option<&str>) -> bool {
    match (x, y) {
        (None, None) => true,
        (Some(a), Some(b)) => same_str(a, b),
        _ => false,
    }
}

/// A symbolic valid UTF-8 string of at most `K` chars in a `4*K`-byte buffer.
pub struct SymStr<const CAP: usize> {
    pub buf: [u8; CAP],
    pub len: usize,
}

impl<const CAP: usize> SymStr<CAP> {
    /// up to `max_chars` symbolic chars (`CAP >= 4*max_chars`)
    pub fn any<S: Src>(s: &mut S, max_chars: usize) -> Self {
        let mut buf = [0u8; CAP];
        let mut len = 0usize;
        let n = s.upto(max_chars);
        let mut i = 0;
        while i < max_chars {
            if i < n {
                let c = s.char();
                let mut tmp = [0u8; 4];
                let e = c.encode_utf8(&mut tmp);
                let eb = e.as_bytes();
                let mut j = 0;
                while j < eb.len() {
                    buf[len] = eb[j];
                    len += 1;
                    j += 1;
                }
            }
            i += 1;
        }
        SymStr { buf, len }
    }
    pub fn as_str(&self) -> &str {
        // built from encode_utf8 output only
        unsafe { core::str::from_utf8_unchecked(&self.buf[..self.len]) }
    }
}

/// reference: first occurrence of `n` in `h` (None if none); empty `n` -> Some(0)
pub fn ref_find(h: &[u8], n: &[u8]) -> Option<usize> {
    let mut i = 0;
    while i + n.len() <= h.len() {
        if ref_occurs_at(h, n, i) {
            return Some(i);
        }
        i += 1;
    }
    None
}

/// reference: last occurrence
pub fn ref_rfind(h: &[u8], n: &[u8]) -> Option<usize> {
    if n.len() > h.len() {
        return None;
    }
    let mut i = h.len() - n.len() + 1;
    while i > 0 {
        i -= 1;
        if ref_occurs_at(h, n, i) {
            return Some(i);
        }
    }
    None
}

pub fn ref_occurs_at(h: &[u8], n: &[u8], i: usize) -> bool {
    if i + n.len() > h.len() {
        return false;
    }
    let mut j = 0;
    while j < n.len() {
        if h[i + j] != n[j] {
            return false;
        }
        j += 1;
    }
    true
}

pub fn is_ascii_ws(b: u8) -> bool {
    b == b'\t' || b == b'\n' || b == 0x0C || b == b'\r' || b == b' '
}

/// Unicode Table 3-7 (well-formed UTF-8 byte sequences), comparisons only.
pub fn utf8_ok(b: &[u8]) -> bool {
    let n = b.len();
    let mut i = 0;
    while i < n {
        let b0 = b[i];
        if b0 < 0x80 {
            i += 1;
        } else if b0 >= 0xC2 && b0 <= 0xDF {
            if i + 1 >= n || !is_cont(b[i + 1]) {
                return false;
            }
            i += 2;
        } else if b0 >= 0xE0 && b0 <= 0xEF {
            if i + 2 >= n {
                return false;
            }
            let b1 = b[i + 1];
            let lo = if b0 == 0xE0 { 0xA0 } else { 0x80 };
            let hi = if b0 == 0xED { 0x9F } else { 0xBF };
            if b1 < lo || b1 > hi || !is_cont(b[i + 2]) {
                return false;
            }
            i += 3;
        } else if b0 >= 0xF0 && b0 <= 0xF4 {
            if i + 3 >= n {
                return false;
            }
            let b1 = b[i + 1];
            let lo = if b0 == 0xF0 { 0x90 } else { 0x80 };
            let hi = if b0 == 0xF4 { 0x8F } else { 0xBF };
            if b1 < lo || b1 > hi || !is_cont(b[i + 2]) || !is_cont(b[i + 3]) {
                return false;
            }
            i += 4;
        } else {
            return false;
        }
    }
    true
}

pub fn is_cont(b: u8) -> bool {
    b >= 0x80 && b < 0xC0
}

/// std's definition of `str::is_char_boundary` over bytes
pub fn ref_boundary(b: &[u8], i: usize) -> bool {
    i == b.len() || (i < b.len() && !is_cont(b[i]))
}

/// A symbolic valid UTF-8 string of at most `max_len` *bytes* (every mix of 1-4 byte
/// sequences that fits), built from symbolic bytes constrained by `utf8_ok`.
pub struct BStr<const CAP: usize> {
    pub buf: [u8; CAP],
    pub len: usize,
}

impl<const CAP: usize> BStr<CAP> {
    pub fn any<S: Src>(s: &mut S) -> Self {
        let buf: [u8; CAP] = s.bytes();
        let len = s.upto(CAP);
        let ok = utf8_ok(&buf[..len]);
        s.assume(ok);
        BStr { buf, len }
    }
    pub fn as_str(&self) -> &str {
        // guarded by the utf8_ok assumption (cross-checked against core::str::from_utf8 in c03_spec_utf8_ok)
        unsafe { core::str::from_utf8_unchecked(&self.buf[..self.len]) }
    }
    pub fn as_bytes(&self) -> &[u8] {
        &self.buf[..self.len]
    }
}

/// Stubs for konst_kernel's panic helpers (`basic_panic` formats a 256-byte message in loops
/// before panicking; its argument type is crate-private, so its callers are stubbed instead).
/// Each stub keeps the only behaviour the properties talk about: it panics and never returns.
pub fn stub_non_char_boundary_panic(_extreme: &str, _index: usize) -> ! {
    panic!("non_char_boundary_panic (stubbed)")
}

/// reference for `trim_start_matches`: offset after the maximal run of whole repetitions of `n`
pub fn ref_reps_start(h: &[u8], n: &[u8]) -> usize {
    if n.len() == 0 {
        return 0;
    }
    let mut i = 0;
    while ref_occurs_at(h, n, i) {
        i += n.len();
    }
    i
}

/// reference for `trim_end_matches`: offset where the maximal trailing run of repetitions starts
pub fn ref_reps_end(h: &[u8], n: &[u8]) -> usize {
    let mut e = h.len();
    if n.len() == 0 {
        return e;
    }
    while e >= n.len() && ref_occurs_at(&h[..e], n, e - n.len()) {
        e -= n.len();
    }
    e
}

pub fn ref_ws_start(h: &[u8]) -> usize {
    let mut i = 0;
    while i < h.len() && is_ascii_ws(h[i]) {
        i += 1;
    }
    i
}

pub fn ref_ws_end(h: &[u8]) -> usize {
    let mut e = h.len();
    while e > 0 && is_ascii_ws(h[e - 1]) {
        e -= 1;
    }
    e
}

/// Declares a *function-contract* harness: `target` is a thin monomorphic wrapper around a konst
/// function carrying `#[kani::requires]/#[kani::ensures]`; Kani checks the contract with
/// `proof_for_contract` (callers may then use `#[kani::stub_verified(target)]`).
/// Same metadata line as `harness!` (use `kind=contract contract_of=<konst fn>`).
#[macro_export]
macro_rules! contract_harness {
    ($(#[$attr:meta])* fn $name:ident($s:ident) for $target:path $body:block) => {
        pub mod $name {
            #[allow(unused_imports)]
            use super::*;
            pub fn body<S: $crate::hlib::Src>($s: &mut S) $body
            #[cfg(kani)]
            #[kani::proof_for_contract($target)]
            $(#[$attr])*
            pub fn k() {
                body(&mut $crate::hlib::KaniSrc)
            }
        }
    };
}
