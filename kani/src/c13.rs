//! C13 — Parser positions always describe where its remainder sits in the original string.
//!
//! The invariant is relational and inductive.  A Parser does not store the original, so every
//! harness owns `orig` and a base offset and builds a parser state that satisfies
//!     INV(p):  p.remainder() is orig[p.start_offset()-base .. p.end_offset()-base]  (same memory)
//!              and both offsets are char boundaries of orig
//! as `Parser::with_start_offset(&orig[a..b], base + a)` for *every* pair of char boundaries a <= b
//! (all such states are reachable through the public API exactly like this), then applies ONE
//! operation and checks INV of the result (Ok) or the error's offset / direction (Err).  No
//! operation reads `parse_direction` (each one overwrites it first); the only other hidden state,
//! `yielded_last_split`, is only ever set together with an empty remainder and never cleared, so
//! the split harnesses reach every flagged state by one `split`/`rsplit` on an empty parser at a
//! symbolic char boundary (`exhausted_at`; its result is *assumed* to satisfy INV there — the same
//! operations are *checked* as operations under test of c13_split_* — so a defect shows up once,
//! under the operation that has it).  Hence one step from these states is the induction step for
//! histories of any length.
//!
//! Assumption recorded in every bound text: base + orig.len() <= u32::MAX (the parser keeps its
//! start offset in a u32; `with_start_offset` truncates silently beyond that).
//!
//! Remainder comparison is by pointer + length when the remainder is non-empty (stronger than
//! value equality and loop-free); an empty remainder only has to have start == end in range
//! (the statement is about the *string* orig[start..end], which is "" wherever it sits).
use crate::hlib::*;
use konst::parsing::{ErrorKind, ParseDirection, ParseError, Parser};
use konst::string::Pattern;

pub struct Ctx<'a> {
    pub ob: &'a [u8],
    pub base: usize,
}

/// remainder is orig[start-base .. end-base]
fn inv_slice(c: &Ctx, p: Parser) -> bool {
    let (so, eo) = (p.start_offset(), p.end_offset());
    if so < c.base || eo < so || eo - c.base > c.ob.len() {
        return false;
    }
    let rem = p.remainder().as_bytes();
    if rem.len() == 0 {
        so == eo
    } else {
        is_subslice_at(c.ob, rem, so - c.base, eo - c.base)
    }
}

/// both offsets are char boundaries of orig
fn inv_bound(c: &Ctx, p: Parser) -> bool {
    let (so, eo) = (p.start_offset(), p.end_offset());
    so >= c.base && eo >= c.base && ref_boundary(c.ob, so - c.base) && ref_boundary(c.ob, eo - c.base)
}

fn sub_str(ob: &[u8], a: usize, b: usize) -> &str {
    // callers assume a <= b <= len and both on char boundaries of a valid UTF-8 string
    unsafe { core::str::from_utf8_unchecked(&ob[a..b]) }
}

/// every state with INV, direction FromStart, flag clear: (orig, base, parser over orig[a..b])
fn any_state<'a, S: Src>(s: &mut S, orig: &'a str) -> (Ctx<'a>, Parser<'a>) {
    let ob = orig.as_bytes();
    let base = s.u32() as usize;
    s.assume(base + ob.len() <= u32::MAX as usize);
    let a = s.upto(ob.len());
    let b = s.upto(ob.len());
    s.assume(a <= b && ref_boundary(ob, a) && ref_boundary(ob, b));
    let p = Parser::with_start_offset(sub_str(ob, a, b), base + a);
    (Ctx { ob, base }, p)
}

/// a state whose `yielded_last_split` flag is set.  The flag is only ever set together with an empty
/// remainder and is never cleared, so every such reachable state is "empty remainder at some char
/// boundary x, flag set"; one `split` on an empty parser at x produces exactly that.
fn exhausted_at<'a, S: Src>(s: &mut S, c: &Ctx<'a>) -> (Parser<'a>, bool) {
    let x = s.upto(c.ob.len());
    s.assume(ref_boundary(c.ob, x));
    let e = Parser::with_start_offset(sub_str(c.ob, x, x), c.base + x);
    let q = match if s.bool() { e.split('x') } else { e.rsplit('x') } {
        Ok((_, q)) => q,
        Err(_) => e,
    };
    // second component: the inductive hypothesis for that state, to be assumed by the caller when it uses
    // the state (`split`/`rsplit` themselves are operations under test in c13_split_*)
    let hyp = inv_slice(c, q) && inv_bound(c, q);
    (q, hyp)
}

fn drop_piece<'a>(r: Result<(&'a str, Parser<'a>), ParseError<'a>>) -> Result<Parser<'a>, ParseError<'a>> {
    match r {
        Ok((_, p)) => Ok(p),
        Err(e) => Err(e),
    }
}

fn is_start(d: ParseDirection) -> bool {
    match d { ParseDirection::FromStart => true, _ => false }
}
fn is_end(d: ParseDirection) -> bool {
    match d { ParseDirection::FromEnd => true, _ => false }
}
fn fam_trim_one_sided<'a, S: Src>(s: &mut S, c: &Ctx, p: Parser<'a>, which: usize) -> Option<Parser<'a>> {
    match which {
        0 => {
            let r = p.trim_start();
            chk!(s, inv_slice(c, r), "C13.trim_start.remainder_is_orig_slice_at_offsets");
            chk!(s, inv_bound(c, r), "C13.trim_start.offsets_on_char_boundaries");
            Some(r)
        }
        _ => {
            let r = p.trim_end();
            chk!(s, inv_slice(c, r), "C13.trim_end.remainder_is_orig_slice_at_offsets");
            chk!(s, inv_bound(c, r), "C13.trim_end.offsets_on_char_boundaries");
            Some(r)
        }
    }
}

fn fam_trim_matches_one_sided<'a, 'p, P: Pattern<'p>, S: Src>(s: &mut S, c: &Ctx, p: Parser<'a>, which: usize, pat: P) -> Option<Parser<'a>> {
    match which {
        0 => {
            let r = p.trim_start_matches(pat);
            chk!(s, inv_slice(c, r), "C13.trim_start_matches.remainder_is_orig_slice_at_offsets");
            chk!(s, inv_bound(c, r), "C13.trim_start_matches.offsets_on_char_boundaries");
            Some(r)
        }
        _ => {
            let r = p.trim_end_matches(pat);
            chk!(s, inv_slice(c, r), "C13.trim_end_matches.remainder_is_orig_slice_at_offsets");
            chk!(s, inv_bound(c, r), "C13.trim_end_matches.offsets_on_char_boundaries");
            Some(r)
        }
    }
}

fn fam_strip<'a, 'p, P: Pattern<'p>, S: Src>(s: &mut S, c: &Ctx, p: Parser<'a>, which: usize, pat: P) -> Option<Parser<'a>> {
    match which {
        0 => match p.strip_prefix(pat) {
            Ok(r) => {
                chk!(s, inv_slice(c, r), "C13.strip_prefix.remainder_is_orig_slice_at_offsets");
                chk!(s, inv_bound(c, r), "C13.strip_prefix.offsets_on_char_boundaries");
                Some(r)
            }
            Err(e) => {
                chk!(s, e.offset() == p.start_offset(), "C13.strip_prefix.error_offset_is_start_offset_of_receiver");
                chk!(s, is_start(e.error_direction()), "C13.strip_prefix.error_direction_names_the_start");
                None
            }
        },
        _ => match p.strip_suffix(pat) {
            Ok(r) => {
                chk!(s, inv_slice(c, r), "C13.strip_suffix.remainder_is_orig_slice_at_offsets");
                chk!(s, inv_bound(c, r), "C13.strip_suffix.offsets_on_char_boundaries");
                Some(r)
            }
            Err(e) => {
                chk!(s, e.offset() == p.end_offset(), "C13.strip_suffix.error_offset_is_end_offset_of_receiver");
                chk!(s, is_end(e.error_direction()), "C13.strip_suffix.error_direction_names_the_end");
                None
            }
        },
    }
}

fn fam_find_skip<'a, 'p, P: Pattern<'p>, S: Src>(s: &mut S, c: &Ctx, p: Parser<'a>, which: usize, pat: P) -> Option<Parser<'a>> {
    match which {
        0 => match p.find_skip(pat) {
            Ok(r) => {
                chk!(s, inv_slice(c, r), "C13.find_skip.remainder_is_orig_slice_at_offsets");
                chk!(s, inv_bound(c, r), "C13.find_skip.offsets_on_char_boundaries");
                Some(r)
            }
            Err(e) => {
                chk!(s, e.offset() == p.start_offset(), "C13.find_skip.error_offset_is_start_offset_of_receiver");
                chk!(s, is_start(e.error_direction()), "C13.find_skip.error_direction_names_the_start");
                None
            }
        },
        _ => match p.rfind_skip(pat) {
            Ok(r) => {
                chk!(s, inv_slice(c, r), "C13.rfind_skip.remainder_is_orig_slice_at_offsets");
                chk!(s, inv_bound(c, r), "C13.rfind_skip.offsets_on_char_boundaries");
                Some(r)
            }
            Err(e) => {
                chk!(s, e.offset() == p.end_offset(), "C13.rfind_skip.error_offset_is_end_offset_of_receiver");
                chk!(s, is_end(e.error_direction()), "C13.rfind_skip.error_direction_names_the_end");
                None
            }
        },
    }
}

fn fam_split<'a, 'p, P: Pattern<'p>, S: Src>(s: &mut S, c: &Ctx, p: Parser<'a>, which: usize, pat: P) -> Option<Parser<'a>> {
    match which {
        0 => match drop_piece(p.split(pat)) {
            Ok(r) => {
                chk!(s, inv_slice(c, r), "C13.split.remainder_is_orig_slice_at_offsets");
                chk!(s, inv_bound(c, r), "C13.split.offsets_on_char_boundaries");
                Some(r)
            }
            Err(e) => {
                chk!(s, e.offset() == p.start_offset(), "C13.split.error_offset_is_start_offset_of_receiver");
                chk!(s, is_start(e.error_direction()), "C13.split.error_direction_names_the_start");
                None
            }
        },
        1 => match drop_piece(p.rsplit(pat)) {
            Ok(r) => {
                chk!(s, inv_slice(c, r), "C13.rsplit.remainder_is_orig_slice_at_offsets");
                chk!(s, inv_bound(c, r), "C13.rsplit.offsets_on_char_boundaries");
                Some(r)
            }
            Err(e) => {
                chk!(s, e.offset() == p.end_offset(), "C13.rsplit.error_offset_is_end_offset_of_receiver");
                chk!(s, is_end(e.error_direction()), "C13.rsplit.error_direction_names_the_end");
                None
            }
        },
        _ => match drop_piece(p.split_keep(pat)) {
            Ok(r) => {
                chk!(s, inv_slice(c, r), "C13.split_keep.remainder_is_orig_slice_at_offsets");
                chk!(s, inv_bound(c, r), "C13.split_keep.offsets_on_char_boundaries");
                Some(r)
            }
            Err(e) => {
                chk!(s, e.offset() == p.start_offset(), "C13.split_keep.error_offset_is_start_offset_of_receiver");
                chk!(s, is_start(e.error_direction()), "C13.split_keep.error_direction_names_the_start");
                None
            }
        },
    }
}

fn fam_split_terminator<'a, 'p, P: Pattern<'p>, S: Src>(s: &mut S, c: &Ctx, p: Parser<'a>, which: usize, pat: P) -> Option<Parser<'a>> {
    match which {
        0 => match drop_piece(p.split_terminator(pat)) {
            Ok(r) => {
                chk!(s, inv_slice(c, r), "C13.split_terminator.remainder_is_orig_slice_at_offsets");
                chk!(s, inv_bound(c, r), "C13.split_terminator.offsets_on_char_boundaries");
                Some(r)
            }
            Err(e) => {
                chk!(s, e.offset() == p.start_offset(), "C13.split_terminator.error_offset_is_start_offset_of_receiver");
                chk!(s, is_start(e.error_direction()), "C13.split_terminator.error_direction_names_the_start");
                None
            }
        },
        _ => match drop_piece(p.rsplit_terminator(pat)) {
            Ok(r) => {
                chk!(s, inv_slice(c, r), "C13.rsplit_terminator.remainder_is_orig_slice_at_offsets");
                chk!(s, inv_bound(c, r), "C13.rsplit_terminator.offsets_on_char_boundaries");
                Some(r)
            }
            Err(e) => {
                chk!(s, e.offset() == p.end_offset(), "C13.rsplit_terminator.error_offset_is_end_offset_of_receiver");
                chk!(s, is_end(e.error_direction()), "C13.rsplit_terminator.error_direction_names_the_end");
                None
            }
        },
    }
}

fn fam_skip<'a, S: Src>(s: &mut S, c: &Ctx, p: Parser<'a>, which: usize, n: usize) -> Option<Parser<'a>> {
    match which {
        0 => {
            let r = p.skip(n);
            chk!(s, inv_slice(c, r), "C13.skip.remainder_is_orig_slice_at_offsets");
            chk!(s, inv_bound(c, r), "C13.skip.offsets_on_char_boundaries");
            Some(r)
        }
        _ => {
            let r = p.skip_back(n);
            chk!(s, inv_slice(c, r), "C13.skip_back.remainder_is_orig_slice_at_offsets");
            chk!(s, inv_bound(c, r), "C13.skip_back.offsets_on_char_boundaries");
            Some(r)
        }
    }
}

fn fam_parse<'a, S: Src>(s: &mut S, c: &Ctx, p: Parser<'a>, which: usize) -> Option<Parser<'a>> {
    match which {
        0 => match match p.parse_u8() { Ok((_, q)) => Ok(q), Err(e) => Err(e) } {
            Ok(r) => {
                chk!(s, inv_slice(c, r), "C13.parse_u8.remainder_is_orig_slice_at_offsets");
                chk!(s, inv_bound(c, r), "C13.parse_u8.offsets_on_char_boundaries");
                Some(r)
            }
            Err(e) => {
                chk!(s, e.offset() == p.start_offset(), "C13.parse_u8.error_offset_is_start_offset_of_receiver");
                chk!(s, is_start(e.error_direction()), "C13.parse_u8.error_direction_names_the_start");
                None
            }
        },
        1 => match match p.parse_i16() { Ok((_, q)) => Ok(q), Err(e) => Err(e) } {
            Ok(r) => {
                chk!(s, inv_slice(c, r), "C13.parse_i16.remainder_is_orig_slice_at_offsets");
                chk!(s, inv_bound(c, r), "C13.parse_i16.offsets_on_char_boundaries");
                Some(r)
            }
            Err(e) => {
                chk!(s, e.offset() == p.start_offset(), "C13.parse_i16.error_offset_is_start_offset_of_receiver");
                chk!(s, is_start(e.error_direction()), "C13.parse_i16.error_direction_names_the_start");
                None
            }
        },
        _ => match match p.parse_bool() { Ok((_, q)) => Ok(q), Err(e) => Err(e) } {
            Ok(r) => {
                chk!(s, inv_slice(c, r), "C13.parse_bool.remainder_is_orig_slice_at_offsets");
                chk!(s, inv_bound(c, r), "C13.parse_bool.offsets_on_char_boundaries");
                Some(r)
            }
            Err(e) => {
                chk!(s, e.offset() == p.start_offset(), "C13.parse_bool.error_offset_is_start_offset_of_receiver");
                chk!(s, is_start(e.error_direction()), "C13.parse_bool.error_direction_names_the_start");
                None
            }
        },
    }
}

harness! {
    /// kind=bounded tier=quick bound="orig: valid UTF-8 string<=6 bytes, every sub-slice on char boundaries; base any u32 with base+len<=u32::MAX; one direction-changing operation before into_error"
    #[kani::unwind(10)]
    fn c13_ctor(s) {
        let bs = BStr::<6>::any(s);
        let orig = bs.as_str();
        let ob = orig.as_bytes();
        // Parser::new: base 0
        let c0 = Ctx { ob, base: 0 };
        let c = &c0;
        let p0 = Parser::new(orig);
        chk!(s, p0.start_offset() == 0 && p0.end_offset() == ob.len(), "C13.new.offsets_span_the_string");
        chk!(s, inv_slice(c, p0), "C13.new.remainder_is_orig_slice_at_offsets");
        // with_start_offset: every offset shifted by the base
        let (c1, p) = any_state(s, orig);
        let c = &c1;
        chk!(s, inv_slice(c, p), "C13.with_start_offset.remainder_is_orig_slice_at_offsets");
        chk!(s, inv_bound(c, p), "C13.with_start_offset.offsets_on_char_boundaries");
        chk!(s, p.end_offset() == p.start_offset() + p.remainder().len(), "C13.end_offset.is_start_plus_len");
        // errors constructed by the user report the end the parser last worked from
        let n = s.usize();
        let q = match s.upto(2) { 0 => p, 1 => p.skip(n), _ => p.skip_back(n) };
        let e = q.into_error(ErrorKind::Other);
        if is_start(q.parse_direction()) {
            chk!(s, e.offset() == q.start_offset() && is_start(e.error_direction()), "C13.into_error.from_start_reports_start_offset");
        }
        if is_end(q.parse_direction()) {
            chk!(s, e.offset() == q.end_offset() && is_end(e.error_direction()), "C13.into_error.from_end_reports_end_offset");
        }
        let e2 = q.into_other_error(&"x");
        chk!(s, e2.offset() == e.offset(), "C13.into_other_error.same_offset_as_into_error");
        cov!(s, c.base > 70000 && p.start_offset() > c.base && p.remainder().len() == 2 && ob.len() == 6, "C13.cover.ctor_inner_slice_with_base");
        cov!(s, is_end(q.parse_direction()) && c.base > 0 && q.remainder().len() > 0, "C13.cover.ctor_from_end_error");
    }
}

harness! {
    /// kind=bounded tier=quick bound="orig: valid UTF-8 string<=6 bytes, parser over every sub-slice on char boundaries; base any u32 with base+len<=u32::MAX"
    #[kani::unwind(10)]
    fn c13_trim_one_sided(s) {
        let bs = BStr::<6>::any(s);
        let orig = bs.as_str();
        let (c1, p) = any_state(s, orig);
        let c = &c1;
        let which = s.upto(1);
        let r = fam_trim_one_sided(s, c, p, which);
        cov!(s, match r { Some(q) => q.start_offset() > p.start_offset() && q.remainder().len() > 0, None => false }, "C13.cover.trim_start_moved");
        cov!(s, match r { Some(q) => q.end_offset() < p.end_offset() && q.remainder().len() > 0 && c.base > 0, None => false }, "C13.cover.trim_end_cut");
    }
}

harness! {
    /// kind=bounded tier=quick bound="orig: valid UTF-8 string<=6 bytes, parser over every sub-slice on char boundaries; base any u32 with base+len<=u32::MAX"
    #[kani::unwind(10)]
    fn c13_trim_two_sided(s) {
        let bs = BStr::<6>::any(s);
        let orig = bs.as_str();
        let (c1, p) = any_state(s, orig);
        let c = &c1;
        let r = p.trim();
        chk!(s, inv_slice(c, r), "C13.trim.remainder_is_orig_slice_at_offsets");
        chk!(s, inv_bound(c, r), "C13.trim.offsets_on_char_boundaries");
        cov!(s, r.remainder().len() == 1 && p.remainder().len() == 3 && r.remainder().as_ptr() != p.remainder().as_ptr(), "C13.cover.trim_both_sides");
    }
}

harness! {
    /// kind=bounded tier=quick bound="orig: valid UTF-8 string<=4 bytes, parser over every sub-slice on char boundaries; pattern: any char; base any u32 with base+len<=u32::MAX"
    #[kani::unwind(7)]
    fn c13_trim_matches_two_sided_char(s) {
        let bs = BStr::<4>::any(s);
        let orig = bs.as_str();
        let (c1, p) = any_state(s, orig);
        let c = &c1;
        let pat = s.char();
        let r = p.trim_matches(pat);
        chk!(s, inv_slice(c, r), "C13.trim_matches.remainder_is_orig_slice_at_offsets");
        chk!(s, inv_bound(c, r), "C13.trim_matches.offsets_on_char_boundaries");
        cov!(s, r.remainder().len() == 1 && p.remainder().len() == 3 && r.remainder().as_ptr() != p.remainder().as_ptr(), "C13.cover.trim_matches_both_sides_char");
    }
}

harness! {
    /// kind=bounded tier=quick bound="orig: valid UTF-8 string<=4 bytes, parser over every sub-slice on char boundaries; pattern: any valid UTF-8 &str<=2 bytes; base any u32 with base+len<=u32::MAX"
    #[kani::unwind(7)]
    fn c13_trim_matches_two_sided_str(s) {
        let bs = BStr::<4>::any(s);
        let orig = bs.as_str();
        let (c1, p) = any_state(s, orig);
        let c = &c1;
        let ps = BStr::<2>::any(s);
        let pat = ps.as_str();
        let r = p.trim_matches(pat);
        chk!(s, inv_slice(c, r), "C13.trim_matches.remainder_is_orig_slice_at_offsets");
        chk!(s, inv_bound(c, r), "C13.trim_matches.offsets_on_char_boundaries");
        cov!(s, r.remainder().len() == 1 && p.remainder().len() == 3 && r.remainder().as_ptr() != p.remainder().as_ptr(), "C13.cover.trim_matches_both_sides_str");
    }
}

harness! {
    /// kind=bounded tier=quick bound="orig: valid UTF-8 string<=4 bytes, parser over every sub-slice on char boundaries; pattern: any char; base any u32 with base+len<=u32::MAX"
    #[kani::unwind(7)]
    fn c13_trim_start_matches_char(s) {
        let bs = BStr::<4>::any(s);
        let orig = bs.as_str();
        let (c1, p) = any_state(s, orig);
        let c = &c1;
        let which = 0;
        let pat = s.char();
        let r = fam_trim_matches_one_sided(s, c, p, which, pat);
        cov!(s, match r { Some(q) => q.start_offset() > p.start_offset() && q.remainder().len() > 0, None => false }, "C13.cover.trim_start_matches_moved_char");
    }
}

harness! {
    /// kind=bounded tier=quick bound="orig: valid UTF-8 string<=4 bytes, parser over every sub-slice on char boundaries; pattern: any valid UTF-8 &str<=2 bytes; base any u32 with base+len<=u32::MAX"
    #[kani::unwind(7)]
    fn c13_trim_start_matches_str(s) {
        let bs = BStr::<4>::any(s);
        let orig = bs.as_str();
        let (c1, p) = any_state(s, orig);
        let c = &c1;
        let which = 0;
        let ps = BStr::<2>::any(s);
        let pat = ps.as_str();
        let r = fam_trim_matches_one_sided(s, c, p, which, pat);
        cov!(s, match r { Some(q) => q.start_offset() > p.start_offset() && q.remainder().len() > 0, None => false }, "C13.cover.trim_start_matches_moved_str");
    }
}

harness! {
    /// kind=bounded tier=quick bound="orig: valid UTF-8 string<=4 bytes, parser over every sub-slice on char boundaries; pattern: any char; base any u32 with base+len<=u32::MAX"
    #[kani::unwind(7)]
    fn c13_trim_end_matches_char(s) {
        let bs = BStr::<4>::any(s);
        let orig = bs.as_str();
        let (c1, p) = any_state(s, orig);
        let c = &c1;
        let which = 1;
        let pat = s.char();
        let r = fam_trim_matches_one_sided(s, c, p, which, pat);
        cov!(s, match r { Some(q) => q.end_offset() < p.end_offset() && q.remainder().len() > 0 && c.base > 0, None => false }, "C13.cover.trim_end_matches_cut_char");
    }
}

harness! {
    /// kind=bounded tier=quick bound="orig: valid UTF-8 string<=4 bytes, parser over every sub-slice on char boundaries; pattern: any valid UTF-8 &str<=2 bytes; base any u32 with base+len<=u32::MAX"
    #[kani::unwind(7)]
    fn c13_trim_end_matches_str(s) {
        let bs = BStr::<4>::any(s);
        let orig = bs.as_str();
        let (c1, p) = any_state(s, orig);
        let c = &c1;
        let which = 1;
        let ps = BStr::<2>::any(s);
        let pat = ps.as_str();
        let r = fam_trim_matches_one_sided(s, c, p, which, pat);
        cov!(s, match r { Some(q) => q.end_offset() < p.end_offset() && q.remainder().len() > 0 && c.base > 0, None => false }, "C13.cover.trim_end_matches_cut_str");
    }
}

harness! {
    /// kind=bounded tier=quick bound="orig: valid UTF-8 string<=5 bytes, parser over every sub-slice on char boundaries; pattern: any char; base any u32 with base+len<=u32::MAX"
    #[kani::unwind(9)]
    fn c13_strip_char(s) {
        let bs = BStr::<5>::any(s);
        let orig = bs.as_str();
        let (c1, p) = any_state(s, orig);
        let c = &c1;
        let which = s.upto(1);
        let pat = s.char();
        let r = fam_strip(s, c, p, which, pat);
        cov!(s, match r { Some(q) => q.start_offset() > p.start_offset() && q.remainder().len() > 0, None => false }, "C13.cover.strip_prefix_moved_char");
        cov!(s, match r { Some(q) => q.end_offset() < p.end_offset() && q.remainder().len() > 0 && c.base > 0, None => false }, "C13.cover.strip_suffix_cut_char");
        cov!(s, r.is_none() && which == 1 && c.base > 0 && p.remainder().len() > 0 && p.end_offset() < c.base + c.ob.len(), "C13.cover.strip_suffix_error_inside_with_base_char");
        cov!(s, r.is_none() && which == 0 && p.start_offset() > c.base, "C13.cover.strip_prefix_error_inside_char");
    }
}

harness! {
    /// kind=bounded tier=quick bound="orig: valid UTF-8 string<=5 bytes, parser over every sub-slice on char boundaries; pattern: any valid UTF-8 &str<=2 bytes; base any u32 with base+len<=u32::MAX"
    #[kani::unwind(9)]
    fn c13_strip_str(s) {
        let bs = BStr::<5>::any(s);
        let orig = bs.as_str();
        let (c1, p) = any_state(s, orig);
        let c = &c1;
        let which = s.upto(1);
        let ps = BStr::<2>::any(s);
        let pat = ps.as_str();
        let r = fam_strip(s, c, p, which, pat);
        cov!(s, match r { Some(q) => q.start_offset() > p.start_offset() && q.remainder().len() > 0, None => false }, "C13.cover.strip_prefix_moved_str");
        cov!(s, match r { Some(q) => q.end_offset() < p.end_offset() && q.remainder().len() > 0 && c.base > 0, None => false }, "C13.cover.strip_suffix_cut_str");
        cov!(s, r.is_none() && which == 1 && c.base > 0 && p.remainder().len() > 0 && p.end_offset() < c.base + c.ob.len(), "C13.cover.strip_suffix_error_inside_with_base_str");
        cov!(s, r.is_none() && which == 0 && p.start_offset() > c.base, "C13.cover.strip_prefix_error_inside_str");
    }
}

harness! {
    /// kind=bounded tier=quick bound="orig: valid UTF-8 string<=4 bytes, parser over every sub-slice on char boundaries; pattern: any char; base any u32 with base+len<=u32::MAX"
    #[kani::unwind(12)]
    fn c13_find_skip_char(s) {
        let bs = BStr::<4>::any(s);
        let orig = bs.as_str();
        let (c1, p) = any_state(s, orig);
        let c = &c1;
        let which = s.upto(1);
        let pat = s.char();
        let r = fam_find_skip(s, c, p, which, pat);
        cov!(s, match r { Some(q) => q.start_offset() > p.start_offset() && q.remainder().len() > 0, None => false }, "C13.cover.find_skip_moved_char");
        cov!(s, match r { Some(q) => q.end_offset() < p.end_offset() && q.remainder().len() > 0 && c.base > 0, None => false }, "C13.cover.rfind_skip_cut_char");
        cov!(s, r.is_none() && which == 1 && c.base > 0 && p.remainder().len() > 0 && p.end_offset() < c.base + c.ob.len(), "C13.cover.rfind_skip_error_inside_with_base_char");
        cov!(s, r.is_none() && which == 0 && p.start_offset() > c.base, "C13.cover.find_skip_error_inside_char");
    }
}

harness! {
    /// kind=bounded tier=quick bound="orig: valid UTF-8 string<=5 bytes, parser over every sub-slice on char boundaries; pattern: any valid UTF-8 &str<=2 bytes; base any u32 with base+len<=u32::MAX"
    #[kani::unwind(12)]
    fn c13_find_skip_str(s) {
        let bs = BStr::<5>::any(s);
        let orig = bs.as_str();
        let (c1, p) = any_state(s, orig);
        let c = &c1;
        let which = s.upto(1);
        let ps = BStr::<2>::any(s);
        let pat = ps.as_str();
        let r = fam_find_skip(s, c, p, which, pat);
        cov!(s, match r { Some(q) => q.start_offset() > p.start_offset() && q.remainder().len() > 0, None => false }, "C13.cover.find_skip_moved_str");
        cov!(s, match r { Some(q) => q.end_offset() < p.end_offset() && q.remainder().len() > 0 && c.base > 0, None => false }, "C13.cover.rfind_skip_cut_str");
        cov!(s, r.is_none() && which == 1 && c.base > 0 && p.remainder().len() > 0 && p.end_offset() < c.base + c.ob.len(), "C13.cover.rfind_skip_error_inside_with_base_str");
        cov!(s, r.is_none() && which == 0 && p.start_offset() > c.base, "C13.cover.find_skip_error_inside_str");
    }
}

harness! {
    /// kind=bounded tier=quick bound="orig: valid UTF-8 string<=4 bytes, parser over every sub-slice on char boundaries, or an exhausted split (flag set, empty remainder at any char boundary); pattern: any char; base any u32 with base+len<=u32::MAX"
    #[kani::unwind(12)]
    fn c13_split_char(s) {
        let bs = BStr::<4>::any(s);
        let orig = bs.as_str();
        let (c1, p) = any_state(s, orig);
        let c = &c1;
        let flagged = s.bool();
        let (q, hyp) = exhausted_at(s, c);
        s.assume(!flagged || hyp);
        let p = if flagged { q } else { p };
        let which = s.upto(1);
        let pat = s.char();
        let r = fam_split(s, c, p, which, pat);
        cov!(s, match r { Some(q) => q.start_offset() > p.start_offset() && q.remainder().len() > 0, None => false }, "C13.cover.split_moved_char");
        cov!(s, match r { Some(q) => q.end_offset() < p.end_offset() && q.remainder().len() > 0 && c.base > 0, None => false }, "C13.cover.rsplit_cut_char");
        cov!(s, r.is_none() && flagged && which == 0 && p.start_offset() > c.base && c.base > 0, "C13.cover.split_exhausted_error_char");
        cov!(s, r.is_none() && flagged && which == 1 && c.base > 0 && p.end_offset() < c.base + c.ob.len(), "C13.cover.rsplit_exhausted_error_with_base_char");
    }
}

harness! {
    /// kind=bounded tier=quick bound="orig: valid UTF-8 string<=4 bytes, parser over every sub-slice on char boundaries, or an exhausted split (flag set, empty remainder at any char boundary); pattern: any valid UTF-8 &str<=2 bytes; base any u32 with base+len<=u32::MAX"
    #[kani::unwind(10)]
    fn c13_split_str(s) {
        let bs = BStr::<4>::any(s);
        let orig = bs.as_str();
        let (c1, p) = any_state(s, orig);
        let c = &c1;
        let flagged = s.bool();
        let (q, hyp) = exhausted_at(s, c);
        s.assume(!flagged || hyp);
        let p = if flagged { q } else { p };
        let which = s.upto(1);
        let ps = BStr::<2>::any(s);
        let pat = ps.as_str();
        let r = fam_split(s, c, p, which, pat);
        cov!(s, match r { Some(q) => q.start_offset() > p.start_offset() && q.remainder().len() > 0, None => false }, "C13.cover.split_moved_str");
        cov!(s, match r { Some(q) => q.end_offset() < p.end_offset() && q.remainder().len() > 0 && c.base > 0, None => false }, "C13.cover.rsplit_cut_str");
        cov!(s, r.is_none() && flagged && which == 0 && p.start_offset() > c.base && c.base > 0, "C13.cover.split_exhausted_error_str");
        cov!(s, r.is_none() && flagged && which == 1 && c.base > 0 && p.end_offset() < c.base + c.ob.len(), "C13.cover.rsplit_exhausted_error_with_base_str");
    }
}

harness! {
    /// kind=bounded tier=quick bound="orig: valid UTF-8 string<=4 bytes, parser over every sub-slice on char boundaries, or an exhausted split (flag set, empty remainder at any char boundary); pattern: any char; base any u32 with base+len<=u32::MAX"
    #[kani::unwind(12)]
    fn c13_split_keep_char(s) {
        let bs = BStr::<4>::any(s);
        let orig = bs.as_str();
        let (c1, p) = any_state(s, orig);
        let c = &c1;
        let flagged = s.bool();
        let (q, hyp) = exhausted_at(s, c);
        s.assume(!flagged || hyp);
        let p = if flagged { q } else { p };
        let which = 2;
        let pat = s.char();
        let r = fam_split(s, c, p, which, pat);
        cov!(s, match r { Some(q) => q.start_offset() > p.start_offset() && q.remainder().len() > 0, None => false }, "C13.cover.split_keep_moved_char");
        cov!(s, r.is_none() && flagged && p.start_offset() > c.base && c.base > 0, "C13.cover.split_keep_exhausted_error_char");
    }
}

harness! {
    /// kind=bounded tier=quick bound="orig: valid UTF-8 string<=4 bytes, parser over every sub-slice on char boundaries, or an exhausted split (flag set, empty remainder at any char boundary); pattern: any valid UTF-8 &str<=2 bytes; base any u32 with base+len<=u32::MAX"
    #[kani::unwind(10)]
    fn c13_split_keep_str(s) {
        let bs = BStr::<4>::any(s);
        let orig = bs.as_str();
        let (c1, p) = any_state(s, orig);
        let c = &c1;
        let flagged = s.bool();
        let (q, hyp) = exhausted_at(s, c);
        s.assume(!flagged || hyp);
        let p = if flagged { q } else { p };
        let which = 2;
        let ps = BStr::<2>::any(s);
        let pat = ps.as_str();
        let r = fam_split(s, c, p, which, pat);
        cov!(s, match r { Some(q) => q.start_offset() > p.start_offset() && q.remainder().len() > 0, None => false }, "C13.cover.split_keep_moved_str");
        cov!(s, r.is_none() && flagged && p.start_offset() > c.base && c.base > 0, "C13.cover.split_keep_exhausted_error_str");
    }
}

harness! {
    /// kind=bounded tier=quick bound="orig: valid UTF-8 string<=4 bytes, parser over every sub-slice on char boundaries, or an exhausted split (flag set, empty remainder at any char boundary); pattern: any char; base any u32 with base+len<=u32::MAX"
    #[kani::unwind(12)]
    fn c13_split_terminator_char(s) {
        let bs = BStr::<4>::any(s);
        let orig = bs.as_str();
        let (c1, p) = any_state(s, orig);
        let c = &c1;
        let flagged = s.bool();
        let (q, hyp) = exhausted_at(s, c);
        s.assume(!flagged || hyp);
        let p = if flagged { q } else { p };
        let which = s.upto(1);
        let pat = s.char();
        let r = fam_split_terminator(s, c, p, which, pat);
        cov!(s, match r { Some(q) => q.start_offset() > p.start_offset() && q.remainder().len() > 0, None => false }, "C13.cover.split_terminator_moved_char");
        cov!(s, match r { Some(q) => q.end_offset() < p.end_offset() && q.remainder().len() > 0 && c.base > 0, None => false }, "C13.cover.rsplit_terminator_cut_char");
        cov!(s, r.is_none() && which == 1 && c.base > 0 && p.remainder().len() > 0 && p.end_offset() < c.base + c.ob.len(), "C13.cover.rsplit_terminator_error_inside_with_base_char");
        cov!(s, r.is_none() && flagged && which == 0 && p.start_offset() > c.base && c.base > 0, "C13.cover.split_terminator_exhausted_error_char");
    }
}

harness! {
    /// kind=bounded tier=quick bound="orig: valid UTF-8 string<=4 bytes, parser over every sub-slice on char boundaries, or an exhausted split (flag set, empty remainder at any char boundary); pattern: any valid UTF-8 &str<=2 bytes; base any u32 with base+len<=u32::MAX"
    #[kani::unwind(10)]
    fn c13_split_terminator_str(s) {
        let bs = BStr::<4>::any(s);
        let orig = bs.as_str();
        let (c1, p) = any_state(s, orig);
        let c = &c1;
        let flagged = s.bool();
        let (q, hyp) = exhausted_at(s, c);
        s.assume(!flagged || hyp);
        let p = if flagged { q } else { p };
        let which = s.upto(1);
        let ps = BStr::<2>::any(s);
        let pat = ps.as_str();
        let r = fam_split_terminator(s, c, p, which, pat);
        cov!(s, match r { Some(q) => q.start_offset() > p.start_offset() && q.remainder().len() > 0, None => false }, "C13.cover.split_terminator_moved_str");
        cov!(s, match r { Some(q) => q.end_offset() < p.end_offset() && q.remainder().len() > 0 && c.base > 0, None => false }, "C13.cover.rsplit_terminator_cut_str");
        cov!(s, r.is_none() && which == 1 && c.base > 0 && p.remainder().len() > 0 && p.end_offset() < c.base + c.ob.len(), "C13.cover.rsplit_terminator_error_inside_with_base_str");
        cov!(s, r.is_none() && flagged && which == 0 && p.start_offset() > c.base && c.base > 0, "C13.cover.split_terminator_exhausted_error_str");
    }
}

harness! {
    /// kind=bounded tier=quick bound="orig: valid UTF-8 string<=6 bytes, parser over every sub-slice on char boundaries; byte count any usize; base any u32 with base+len<=u32::MAX"
    #[kani::unwind(10)]
    fn c13_skip(s) {
        let bs = BStr::<6>::any(s);
        let orig = bs.as_str();
        let (c1, p) = any_state(s, orig);
        let c = &c1;
        let which = s.upto(1);
        let n = s.usize();
        let r = fam_skip(s, c, p, which, n);
        cov!(s, which == 0 && n == 1 && match r { Some(q) => q.start_offset() == p.start_offset() + 4 && q.remainder().len() > 0, None => false }, "C13.cover.skip_rounds_up_over_4_byte_char");
        cov!(s, which == 1 && n == 1 && match r { Some(q) => q.end_offset() + 3 == p.end_offset() && q.remainder().len() > 0, None => false }, "C13.cover.skip_back_rounds_down_over_3_byte_char");
        cov!(s, n == usize::MAX, "C13.cover.skip_huge");
    }
}

harness! {
    /// kind=bounded tier=quick bound="orig: valid UTF-8 string<=6 bytes, parser over every sub-slice on char boundaries; parse_u8 / parse_i16 / parse_bool; base any u32 with base+len<=u32::MAX"
    #[kani::unwind(10)]
    fn c13_parse(s) {
        let bs = BStr::<6>::any(s);
        let orig = bs.as_str();
        let (c1, p) = any_state(s, orig);
        let c = &c1;
        let which = s.upto(2);
        let r = fam_parse(s, c, p, which);
        cov!(s, which == 0 && match r { Some(q) => q.start_offset() > p.start_offset() && q.remainder().len() > 0, None => false }, "C13.cover.parse_u8_moved");
        cov!(s, which == 1 && match r { Some(q) => q.start_offset() > p.start_offset() && q.remainder().len() > 0, None => false }, "C13.cover.parse_i16_moved");
        cov!(s, which == 2 && match r { Some(q) => q.start_offset() == p.start_offset() + 4 && p.start_offset() > c.base, None => false }, "C13.cover.parse_bool_true_inside");
        cov!(s, r.is_none() && p.start_offset() > c.base && p.remainder().len() > 0, "C13.cover.parse_error_inside");
    }
}

harness! {
    /// kind=bounded tier=thorough bound="orig: valid UTF-8 string<=6 bytes, parser over every sub-slice on char boundaries; pattern: any char; base any u32 with base+len<=u32::MAX"
    #[kani::unwind(9)]
    fn c13_trim_matches_one_sided_big_char(s) {
        let bs = BStr::<6>::any(s);
        let orig = bs.as_str();
        let (c1, p) = any_state(s, orig);
        let c = &c1;
        let which = s.upto(1);
        let pat = s.char();
        let r = fam_trim_matches_one_sided(s, c, p, which, pat);
        cov!(s, match r { Some(q) => q.start_offset() > p.start_offset() && q.remainder().len() > 0, None => false }, "C13.cover.trim_start_matches_moved_char_big");
        cov!(s, match r { Some(q) => q.end_offset() < p.end_offset() && q.remainder().len() > 0 && c.base > 0, None => false }, "C13.cover.trim_end_matches_cut_char_big");
    }
}

harness! {
    /// kind=bounded tier=thorough bound="orig: valid UTF-8 string<=6 bytes, parser over every sub-slice on char boundaries; pattern: any valid UTF-8 &str<=2 bytes; base any u32 with base+len<=u32::MAX"
    #[kani::unwind(9)]
    fn c13_trim_matches_one_sided_big_str(s) {
        let bs = BStr::<6>::any(s);
        let orig = bs.as_str();
        let (c1, p) = any_state(s, orig);
        let c = &c1;
        let which = s.upto(1);
        let ps = BStr::<2>::any(s);
        let pat = ps.as_str();
        let r = fam_trim_matches_one_sided(s, c, p, which, pat);
        cov!(s, match r { Some(q) => q.start_offset() > p.start_offset() && q.remainder().len() > 0, None => false }, "C13.cover.trim_start_matches_moved_str_big");
        cov!(s, match r { Some(q) => q.end_offset() < p.end_offset() && q.remainder().len() > 0 && c.base > 0, None => false }, "C13.cover.trim_end_matches_cut_str_big");
    }
}

harness! {
    /// kind=bounded tier=quick bound="orig: valid UTF-8 string<=7 bytes, parser over every sub-slice on char boundaries; pattern: any char; base any u32 with base+len<=u32::MAX"
    #[kani::unwind(11)]
    fn c13_strip_big_char(s) {
        let bs = BStr::<7>::any(s);
        let orig = bs.as_str();
        let (c1, p) = any_state(s, orig);
        let c = &c1;
        let which = s.upto(1);
        let pat = s.char();
        let r = fam_strip(s, c, p, which, pat);
        cov!(s, match r { Some(q) => q.start_offset() > p.start_offset() && q.remainder().len() > 0, None => false }, "C13.cover.strip_prefix_moved_char_big");
        cov!(s, match r { Some(q) => q.end_offset() < p.end_offset() && q.remainder().len() > 0 && c.base > 0, None => false }, "C13.cover.strip_suffix_cut_char_big");
    }
}

harness! {
    /// kind=bounded tier=quick bound="orig: valid UTF-8 string<=7 bytes, parser over every sub-slice on char boundaries; pattern: any valid UTF-8 &str<=2 bytes; base any u32 with base+len<=u32::MAX"
    #[kani::unwind(11)]
    fn c13_strip_big_str(s) {
        let bs = BStr::<7>::any(s);
        let orig = bs.as_str();
        let (c1, p) = any_state(s, orig);
        let c = &c1;
        let which = s.upto(1);
        let ps = BStr::<2>::any(s);
        let pat = ps.as_str();
        let r = fam_strip(s, c, p, which, pat);
        cov!(s, match r { Some(q) => q.start_offset() > p.start_offset() && q.remainder().len() > 0, None => false }, "C13.cover.strip_prefix_moved_str_big");
        cov!(s, match r { Some(q) => q.end_offset() < p.end_offset() && q.remainder().len() > 0 && c.base > 0, None => false }, "C13.cover.strip_suffix_cut_str_big");
    }
}

harness! {
    /// kind=bounded tier=quick bound="orig: valid UTF-8 string<=5 bytes, parser over every sub-slice on char boundaries; pattern: any char; base any u32 with base+len<=u32::MAX"
    #[kani::unwind(17)]
    fn c13_find_skip_big_char(s) {
        let bs = BStr::<5>::any(s);
        let orig = bs.as_str();
        let (c1, p) = any_state(s, orig);
        let c = &c1;
        let which = s.upto(1);
        let pat = s.char();
        let r = fam_find_skip(s, c, p, which, pat);
        cov!(s, match r { Some(q) => q.start_offset() > p.start_offset() && q.remainder().len() > 0, None => false }, "C13.cover.find_skip_moved_char_big");
        cov!(s, match r { Some(q) => q.end_offset() < p.end_offset() && q.remainder().len() > 0 && c.base > 0, None => false }, "C13.cover.rfind_skip_cut_char_big");
    }
}

harness! {
    /// kind=bounded tier=quick bound="orig: valid UTF-8 string<=6 bytes, parser over every sub-slice on char boundaries; pattern: any valid UTF-8 &str<=2 bytes; base any u32 with base+len<=u32::MAX"
    #[kani::unwind(15)]
    fn c13_find_skip_big_str(s) {
        let bs = BStr::<6>::any(s);
        let orig = bs.as_str();
        let (c1, p) = any_state(s, orig);
        let c = &c1;
        let which = s.upto(1);
        let ps = BStr::<2>::any(s);
        let pat = ps.as_str();
        let r = fam_find_skip(s, c, p, which, pat);
        cov!(s, match r { Some(q) => q.start_offset() > p.start_offset() && q.remainder().len() > 0, None => false }, "C13.cover.find_skip_moved_str_big");
        cov!(s, match r { Some(q) => q.end_offset() < p.end_offset() && q.remainder().len() > 0 && c.base > 0, None => false }, "C13.cover.rfind_skip_cut_str_big");
    }
}

harness! {
    /// kind=bounded tier=thorough bound="orig: valid UTF-8 string<=5 bytes, parser over every sub-slice on char boundaries, or an exhausted split (flag set, empty remainder at any char boundary); pattern: any char; base any u32 with base+len<=u32::MAX"
    #[kani::unwind(17)]
    fn c13_split_big_char(s) {
        let bs = BStr::<5>::any(s);
        let orig = bs.as_str();
        let (c1, p) = any_state(s, orig);
        let c = &c1;
        let flagged = s.bool();
        let (q, hyp) = exhausted_at(s, c);
        s.assume(!flagged || hyp);
        let p = if flagged { q } else { p };
        let which = s.upto(2);
        let pat = s.char();
        let r = fam_split(s, c, p, which, pat);
        cov!(s, match r { Some(q) => q.start_offset() > p.start_offset() && q.remainder().len() > 0, None => false }, "C13.cover.split_moved_char_big");
        cov!(s, match r { Some(q) => q.end_offset() < p.end_offset() && q.remainder().len() > 0 && c.base > 0, None => false }, "C13.cover.rsplit_cut_char_big");
    }
}

harness! {
    /// kind=bounded tier=thorough bound="orig: valid UTF-8 string<=6 bytes, parser over every sub-slice on char boundaries, or an exhausted split (flag set, empty remainder at any char boundary); pattern: any valid UTF-8 &str<=2 bytes; base any u32 with base+len<=u32::MAX"
    #[kani::unwind(15)]
    fn c13_split_big_str(s) {
        let bs = BStr::<6>::any(s);
        let orig = bs.as_str();
        let (c1, p) = any_state(s, orig);
        let c = &c1;
        let flagged = s.bool();
        let (q, hyp) = exhausted_at(s, c);
        s.assume(!flagged || hyp);
        let p = if flagged { q } else { p };
        let which = s.upto(2);
        let ps = BStr::<2>::any(s);
        let pat = ps.as_str();
        let r = fam_split(s, c, p, which, pat);
        cov!(s, match r { Some(q) => q.start_offset() > p.start_offset() && q.remainder().len() > 0, None => false }, "C13.cover.split_moved_str_big");
        cov!(s, match r { Some(q) => q.end_offset() < p.end_offset() && q.remainder().len() > 0 && c.base > 0, None => false }, "C13.cover.rsplit_cut_str_big");
    }
}

harness! {
    /// kind=bounded tier=quick bound="orig: valid UTF-8 string<=5 bytes, parser over every sub-slice on char boundaries, or an exhausted split (flag set, empty remainder at any char boundary); pattern: any char; base any u32 with base+len<=u32::MAX"
    #[kani::unwind(17)]
    fn c13_split_terminator_big_char(s) {
        let bs = BStr::<5>::any(s);
        let orig = bs.as_str();
        let (c1, p) = any_state(s, orig);
        let c = &c1;
        let flagged = s.bool();
        let (q, hyp) = exhausted_at(s, c);
        s.assume(!flagged || hyp);
        let p = if flagged { q } else { p };
        let which = s.upto(1);
        let pat = s.char();
        let r = fam_split_terminator(s, c, p, which, pat);
        cov!(s, match r { Some(q) => q.start_offset() > p.start_offset() && q.remainder().len() > 0, None => false }, "C13.cover.split_terminator_moved_char_big");
        cov!(s, match r { Some(q) => q.end_offset() < p.end_offset() && q.remainder().len() > 0 && c.base > 0, None => false }, "C13.cover.rsplit_terminator_cut_char_big");
    }
}

harness! {
    /// kind=bounded tier=thorough bound="orig: valid UTF-8 string<=6 bytes, parser over every sub-slice on char boundaries, or an exhausted split (flag set, empty remainder at any char boundary); pattern: any valid UTF-8 &str<=2 bytes; base any u32 with base+len<=u32::MAX"
    #[kani::unwind(15)]
    fn c13_split_terminator_big_str(s) {
        let bs = BStr::<6>::any(s);
        let orig = bs.as_str();
        let (c1, p) = any_state(s, orig);
        let c = &c1;
        let flagged = s.bool();
        let (q, hyp) = exhausted_at(s, c);
        s.assume(!flagged || hyp);
        let p = if flagged { q } else { p };
        let which = s.upto(1);
        let ps = BStr::<2>::any(s);
        let pat = ps.as_str();
        let r = fam_split_terminator(s, c, p, which, pat);
        cov!(s, match r { Some(q) => q.start_offset() > p.start_offset() && q.remainder().len() > 0, None => false }, "C13.cover.split_terminator_moved_str_big");
        cov!(s, match r { Some(q) => q.end_offset() < p.end_offset() && q.remainder().len() > 0 && c.base > 0, None => false }, "C13.cover.rsplit_terminator_cut_str_big");
    }
}

