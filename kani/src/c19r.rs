//! C19 — rebind_if_ok!/try_rebind! with Ok payloads of 3..=6 components ("a tuple of up to six components").
//! Separate module with a *compile obligation* (`C19.rebind.arity3_to_6.compiles`): on the original tree
//! every invocation with three or more components was rejected by rustc (defect D5: `$rem_fields:tt`
//! written in a transcriber of `__priv_next_ai_access`, konst/src/macros/parsing_macros.rs), so this
//! module did not build.  /verif/bin/check first `cargo check`s it natively; a build error located in this
//! file is reported as a VIOLATION whose replay is the program, and the module is left out of the Kani run.
//! Uses `rb_case!`, `rb_chk!`, `Places`, `E` from c19.rs (declared `#[macro_use]` before this module).
//!
//! Patterns: arity 3 = all 4^3 mixes of {p = existing place, l = `let x`, t = `let x: u8`, u = `_`};
//! arities 4, 5, 6 = the four uniform rows, every "one odd position (l/t/u) among places" row and
//! every "one place among lets" row.  Post-condition (rb_chk!): on Ok every listed place holds its
//! component, every `let` saw its component, in order, nothing else changed, trailing code ran /
//! execution continued; on Err nothing changed and rebind_if_ok! skipped its code / try_rebind!
//! returned the same Err.
use crate::c19::*;
use crate::hlib::*;
use konst::{rebind_if_ok, try_rebind};

// ---- arity 3: all 4^3 patterns
rb_case! {a3_ppp, b"ppp", (u8, u8, u8), [p0 p1 p2 p3 p4 p5], o, (p0, p1, p2)}
rb_case! {a3_ppl, b"ppl", (u8, u8, u8), [p0 p1 p2 p3 p4 p5], o, (p0, p1, let x2), o[2] = Some(x2);}
rb_case! {a3_ppt, b"ppt", (u8, u8, u8), [p0 p1 p2 p3 p4 p5], o, (p0, p1, let x2: u8), o[2] = Some(x2);}
rb_case! {a3_ppu, b"ppu", (u8, u8, u8), [p0 p1 p2 p3 p4 p5], o, (p0, p1, _)}
rb_case! {a3_plp, b"plp", (u8, u8, u8), [p0 p1 p2 p3 p4 p5], o, (p0, let x1, p2), o[1] = Some(x1);}
rb_case! {a3_pll, b"pll", (u8, u8, u8), [p0 p1 p2 p3 p4 p5], o, (p0, let x1, let x2), o[1] = Some(x1); o[2] = Some(x2);}
rb_case! {a3_plt, b"plt", (u8, u8, u8), [p0 p1 p2 p3 p4 p5], o, (p0, let x1, let x2: u8), o[1] = Some(x1); o[2] = Some(x2);}
rb_case! {a3_plu, b"plu", (u8, u8, u8), [p0 p1 p2 p3 p4 p5], o, (p0, let x1, _), o[1] = Some(x1);}
rb_case! {a3_ptp, b"ptp", (u8, u8, u8), [p0 p1 p2 p3 p4 p5], o, (p0, let x1: u8, p2), o[1] = Some(x1);}
rb_case! {a3_ptl, b"ptl", (u8, u8, u8), [p0 p1 p2 p3 p4 p5], o, (p0, let x1: u8, let x2), o[1] = Some(x1); o[2] = Some(x2);}
rb_case! {a3_ptt, b"ptt", (u8, u8, u8), [p0 p1 p2 p3 p4 p5], o, (p0, let x1: u8, let x2: u8), o[1] = Some(x1); o[2] = Some(x2);}
rb_case! {a3_ptu, b"ptu", (u8, u8, u8), [p0 p1 p2 p3 p4 p5], o, (p0, let x1: u8, _), o[1] = Some(x1);}
rb_case! {a3_pup, b"pup", (u8, u8, u8), [p0 p1 p2 p3 p4 p5], o, (p0, _, p2)}
rb_case! {a3_pul, b"pul", (u8, u8, u8), [p0 p1 p2 p3 p4 p5], o, (p0, _, let x2), o[2] = Some(x2);}
rb_case! {a3_put, b"put", (u8, u8, u8), [p0 p1 p2 p3 p4 p5], o, (p0, _, let x2: u8), o[2] = Some(x2);}
rb_case! {a3_puu, b"puu", (u8, u8, u8), [p0 p1 p2 p3 p4 p5], o, (p0, _, _)}
rb_case! {a3_lpp, b"lpp", (u8, u8, u8), [p0 p1 p2 p3 p4 p5], o, (let x0, p1, p2), o[0] = Some(x0);}
rb_case! {a3_lpl, b"lpl", (u8, u8, u8), [p0 p1 p2 p3 p4 p5], o, (let x0, p1, let x2), o[0] = Some(x0); o[2] = Some(x2);}
rb_case! {a3_lpt, b"lpt", (u8, u8, u8), [p0 p1 p2 p3 p4 p5], o, (let x0, p1, let x2: u8), o[0] = Some(x0); o[2] = Some(x2);}
rb_case! {a3_lpu, b"lpu", (u8, u8, u8), [p0 p1 p2 p3 p4 p5], o, (let x0, p1, _), o[0] = Some(x0);}
rb_case! {a3_llp, b"llp", (u8, u8, u8), [p0 p1 p2 p3 p4 p5], o, (let x0, let x1, p2), o[0] = Some(x0); o[1] = Some(x1);}
rb_case! {a3_lll, b"lll", (u8, u8, u8), [p0 p1 p2 p3 p4 p5], o, (let x0, let x1, let x2), o[0] = Some(x0); o[1] = Some(x1); o[2] = Some(x2);}
rb_case! {a3_llt, b"llt", (u8, u8, u8), [p0 p1 p2 p3 p4 p5], o, (let x0, let x1, let x2: u8), o[0] = Some(x0); o[1] = Some(x1); o[2] = Some(x2);}
rb_case! {a3_llu, b"llu", (u8, u8, u8), [p0 p1 p2 p3 p4 p5], o, (let x0, let x1, _), o[0] = Some(x0); o[1] = Some(x1);}
rb_case! {a3_ltp, b"ltp", (u8, u8, u8), [p0 p1 p2 p3 p4 p5], o, (let x0, let x1: u8, p2), o[0] = Some(x0); o[1] = Some(x1);}
rb_case! {a3_ltl, b"ltl", (u8, u8, u8), [p0 p1 p2 p3 p4 p5], o, (let x0, let x1: u8, let x2), o[0] = Some(x0); o[1] = Some(x1); o[2] = Some(x2);}
rb_case! {a3_ltt, b"ltt", (u8, u8, u8), [p0 p1 p2 p3 p4 p5], o, (let x0, let x1: u8, let x2: u8), o[0] = Some(x0); o[1] = Some(x1); o[2] = Some(x2);}
rb_case! {a3_ltu, b"ltu", (u8, u8, u8), [p0 p1 p2 p3 p4 p5], o, (let x0, let x1: u8, _), o[0] = Some(x0); o[1] = Some(x1);}
rb_case! {a3_lup, b"lup", (u8, u8, u8), [p0 p1 p2 p3 p4 p5], o, (let x0, _, p2), o[0] = Some(x0);}
rb_case! {a3_lul, b"lul", (u8, u8, u8), [p0 p1 p2 p3 p4 p5], o, (let x0, _, let x2), o[0] = Some(x0); o[2] = Some(x2);}
rb_case! {a3_lut, b"lut", (u8, u8, u8), [p0 p1 p2 p3 p4 p5], o, (let x0, _, let x2: u8), o[0] = Some(x0); o[2] = Some(x2);}
rb_case! {a3_luu, b"luu", (u8, u8, u8), [p0 p1 p2 p3 p4 p5], o, (let x0, _, _), o[0] = Some(x0);}
rb_case! {a3_tpp, b"tpp", (u8, u8, u8), [p0 p1 p2 p3 p4 p5], o, (let x0: u8, p1, p2), o[0] = Some(x0);}
rb_case! {a3_tpl, b"tpl", (u8, u8, u8), [p0 p1 p2 p3 p4 p5], o, (let x0: u8, p1, let x2), o[0] = Some(x0); o[2] = Some(x2);}
rb_case! {a3_tpt, b"tpt", (u8, u8, u8), [p0 p1 p2 p3 p4 p5], o, (let x0: u8, p1, let x2: u8), o[0] = Some(x0); o[2] = Some(x2);}
rb_case! {a3_tpu, b"tpu", (u8, u8, u8), [p0 p1 p2 p3 p4 p5], o, (let x0: u8, p1, _), o[0] = Some(x0);}
rb_case! {a3_tlp, b"tlp", (u8, u8, u8), [p0 p1 p2 p3 p4 p5], o, (let x0: u8, let x1, p2), o[0] = Some(x0); o[1] = Some(x1);}
rb_case! {a3_tll, b"tll", (u8, u8, u8), [p0 p1 p2 p3 p4 p5], o, (let x0: u8, let x1, let x2), o[0] = Some(x0); o[1] = Some(x1); o[2] = Some(x2);}
rb_case! {a3_tlt, b"tlt", (u8, u8, u8), [p0 p1 p2 p3 p4 p5], o, (let x0: u8, let x1, let x2: u8), o[0] = Some(x0); o[1] = Some(x1); o[2] = Some(x2);}
rb_case! {a3_tlu, b"tlu", (u8, u8, u8), [p0 p1 p2 p3 p4 p5], o, (let x0: u8, let x1, _), o[0] = Some(x0); o[1] = Some(x1);}
rb_case! {a3_ttp, b"ttp", (u8, u8, u8), [p0 p1 p2 p3 p4 p5], o, (let x0: u8, let x1: u8, p2), o[0] = Some(x0); o[1] = Some(x1);}
rb_case! {a3_ttl, b"ttl", (u8, u8, u8), [p0 p1 p2 p3 p4 p5], o, (let x0: u8, let x1: u8, let x2), o[0] = Some(x0); o[1] = Some(x1); o[2] = Some(x2);}
rb_case! {a3_ttt, b"ttt", (u8, u8, u8), [p0 p1 p2 p3 p4 p5], o, (let x0: u8, let x1: u8, let x2: u8), o[0] = Some(x0); o[1] = Some(x1); o[2] = Some(x2);}
rb_case! {a3_ttu, b"ttu", (u8, u8, u8), [p0 p1 p2 p3 p4 p5], o, (let x0: u8, let x1: u8, _), o[0] = Some(x0); o[1] = Some(x1);}
rb_case! {a3_tup, b"tup", (u8, u8, u8), [p0 p1 p2 p3 p4 p5], o, (let x0: u8, _, p2), o[0] = Some(x0);}
rb_case! {a3_tul, b"tul", (u8, u8, u8), [p0 p1 p2 p3 p4 p5], o, (let x0: u8, _, let x2), o[0] = Some(x0); o[2] = Some(x2);}
rb_case! {a3_tut, b"tut", (u8, u8, u8), [p0 p1 p2 p3 p4 p5], o, (let x0: u8, _, let x2: u8), o[0] = Some(x0); o[2] = Some(x2);}
rb_case! {a3_tuu, b"tuu", (u8, u8, u8), [p0 p1 p2 p3 p4 p5], o, (let x0: u8, _, _), o[0] = Some(x0);}
rb_case! {a3_upp, b"upp", (u8, u8, u8), [p0 p1 p2 p3 p4 p5], o, (_, p1, p2)}
rb_case! {a3_upl, b"upl", (u8, u8, u8), [p0 p1 p2 p3 p4 p5], o, (_, p1, let x2), o[2] = Some(x2);}
rb_case! {a3_upt, b"upt", (u8, u8, u8), [p0 p1 p2 p3 p4 p5], o, (_, p1, let x2: u8), o[2] = Some(x2);}
rb_case! {a3_upu, b"upu", (u8, u8, u8), [p0 p1 p2 p3 p4 p5], o, (_, p1, _)}
rb_case! {a3_ulp, b"ulp", (u8, u8, u8), [p0 p1 p2 p3 p4 p5], o, (_, let x1, p2), o[1] = Some(x1);}
rb_case! {a3_ull, b"ull", (u8, u8, u8), [p0 p1 p2 p3 p4 p5], o, (_, let x1, let x2), o[1] = Some(x1); o[2] = Some(x2);}
rb_case! {a3_ult, b"ult", (u8, u8, u8), [p0 p1 p2 p3 p4 p5], o, (_, let x1, let x2: u8), o[1] = Some(x1); o[2] = Some(x2);}
rb_case! {a3_ulu, b"ulu", (u8, u8, u8), [p0 p1 p2 p3 p4 p5], o, (_, let x1, _), o[1] = Some(x1);}
rb_case! {a3_utp, b"utp", (u8, u8, u8), [p0 p1 p2 p3 p4 p5], o, (_, let x1: u8, p2), o[1] = Some(x1);}
rb_case! {a3_utl, b"utl", (u8, u8, u8), [p0 p1 p2 p3 p4 p5], o, (_, let x1: u8, let x2), o[1] = Some(x1); o[2] = Some(x2);}
rb_case! {a3_utt, b"utt", (u8, u8, u8), [p0 p1 p2 p3 p4 p5], o, (_, let x1: u8, let x2: u8), o[1] = Some(x1); o[2] = Some(x2);}
rb_case! {a3_utu, b"utu", (u8, u8, u8), [p0 p1 p2 p3 p4 p5], o, (_, let x1: u8, _), o[1] = Some(x1);}
rb_case! {a3_uup, b"uup", (u8, u8, u8), [p0 p1 p2 p3 p4 p5], o, (_, _, p2)}
rb_case! {a3_uul, b"uul", (u8, u8, u8), [p0 p1 p2 p3 p4 p5], o, (_, _, let x2), o[2] = Some(x2);}
rb_case! {a3_uut, b"uut", (u8, u8, u8), [p0 p1 p2 p3 p4 p5], o, (_, _, let x2: u8), o[2] = Some(x2);}
rb_case! {a3_uuu, b"uuu", (u8, u8, u8), [p0 p1 p2 p3 p4 p5], o, (_, _, _)}

// ---- arity 4: uniform rows, one odd position among places, one place among lets
rb_case! {a4_pppp, b"pppp", (u8, u8, u8, u8), [p0 p1 p2 p3 p4 p5], o, (p0, p1, p2, p3)}
rb_case! {a4_llll, b"llll", (u8, u8, u8, u8), [p0 p1 p2 p3 p4 p5], o, (let x0, let x1, let x2, let x3), o[0] = Some(x0); o[1] = Some(x1); o[2] = Some(x2); o[3] = Some(x3);}
rb_case! {a4_tttt, b"tttt", (u8, u8, u8, u8), [p0 p1 p2 p3 p4 p5], o, (let x0: u8, let x1: u8, let x2: u8, let x3: u8), o[0] = Some(x0); o[1] = Some(x1); o[2] = Some(x2); o[3] = Some(x3);}
rb_case! {a4_uuuu, b"uuuu", (u8, u8, u8, u8), [p0 p1 p2 p3 p4 p5], o, (_, _, _, _)}
rb_case! {a4_lppp, b"lppp", (u8, u8, u8, u8), [p0 p1 p2 p3 p4 p5], o, (let x0, p1, p2, p3), o[0] = Some(x0);}
rb_case! {a4_tppp, b"tppp", (u8, u8, u8, u8), [p0 p1 p2 p3 p4 p5], o, (let x0: u8, p1, p2, p3), o[0] = Some(x0);}
rb_case! {a4_uppp, b"uppp", (u8, u8, u8, u8), [p0 p1 p2 p3 p4 p5], o, (_, p1, p2, p3)}
rb_case! {a4_plpp, b"plpp", (u8, u8, u8, u8), [p0 p1 p2 p3 p4 p5], o, (p0, let x1, p2, p3), o[1] = Some(x1);}
rb_case! {a4_ptpp, b"ptpp", (u8, u8, u8, u8), [p0 p1 p2 p3 p4 p5], o, (p0, let x1: u8, p2, p3), o[1] = Some(x1);}
rb_case! {a4_pupp, b"pupp", (u8, u8, u8, u8), [p0 p1 p2 p3 p4 p5], o, (p0, _, p2, p3)}
rb_case! {a4_pplp, b"pplp", (u8, u8, u8, u8), [p0 p1 p2 p3 p4 p5], o, (p0, p1, let x2, p3), o[2] = Some(x2);}
rb_case! {a4_pptp, b"pptp", (u8, u8, u8, u8), [p0 p1 p2 p3 p4 p5], o, (p0, p1, let x2: u8, p3), o[2] = Some(x2);}
rb_case! {a4_ppup, b"ppup", (u8, u8, u8, u8), [p0 p1 p2 p3 p4 p5], o, (p0, p1, _, p3)}
rb_case! {a4_pppl, b"pppl", (u8, u8, u8, u8), [p0 p1 p2 p3 p4 p5], o, (p0, p1, p2, let x3), o[3] = Some(x3);}
rb_case! {a4_pppt, b"pppt", (u8, u8, u8, u8), [p0 p1 p2 p3 p4 p5], o, (p0, p1, p2, let x3: u8), o[3] = Some(x3);}
rb_case! {a4_pppu, b"pppu", (u8, u8, u8, u8), [p0 p1 p2 p3 p4 p5], o, (p0, p1, p2, _)}
rb_case! {a4_plll, b"plll", (u8, u8, u8, u8), [p0 p1 p2 p3 p4 p5], o, (p0, let x1, let x2, let x3), o[1] = Some(x1); o[2] = Some(x2); o[3] = Some(x3);}
rb_case! {a4_lpll, b"lpll", (u8, u8, u8, u8), [p0 p1 p2 p3 p4 p5], o, (let x0, p1, let x2, let x3), o[0] = Some(x0); o[2] = Some(x2); o[3] = Some(x3);}
rb_case! {a4_llpl, b"llpl", (u8, u8, u8, u8), [p0 p1 p2 p3 p4 p5], o, (let x0, let x1, p2, let x3), o[0] = Some(x0); o[1] = Some(x1); o[3] = Some(x3);}
rb_case! {a4_lllp, b"lllp", (u8, u8, u8, u8), [p0 p1 p2 p3 p4 p5], o, (let x0, let x1, let x2, p3), o[0] = Some(x0); o[1] = Some(x1); o[2] = Some(x2);}

// ---- arity 5: uniform rows, one odd position among places, one place among lets
rb_case! {a5_ppppp, b"ppppp", (u8, u8, u8, u8, u8), [p0 p1 p2 p3 p4 p5], o, (p0, p1, p2, p3, p4)}
rb_case! {a5_lllll, b"lllll", (u8, u8, u8, u8, u8), [p0 p1 p2 p3 p4 p5], o, (let x0, let x1, let x2, let x3, let x4), o[0] = Some(x0); o[1] = Some(x1); o[2] = Some(x2); o[3] = Some(x3); o[4] = Some(x4);}
rb_case! {a5_ttttt, b"ttttt", (u8, u8, u8, u8, u8), [p0 p1 p2 p3 p4 p5], o, (let x0: u8, let x1: u8, let x2: u8, let x3: u8, let x4: u8), o[0] = Some(x0); o[1] = Some(x1); o[2] = Some(x2); o[3] = Some(x3); o[4] = Some(x4);}
rb_case! {a5_uuuuu, b"uuuuu", (u8, u8, u8, u8, u8), [p0 p1 p2 p3 p4 p5], o, (_, _, _, _, _)}
rb_case! {a5_lpppp, b"lpppp", (u8, u8, u8, u8, u8), [p0 p1 p2 p3 p4 p5], o, (let x0, p1, p2, p3, p4), o[0] = Some(x0);}
rb_case! {a5_tpppp, b"tpppp", (u8, u8, u8, u8, u8), [p0 p1 p2 p3 p4 p5], o, (let x0: u8, p1, p2, p3, p4), o[0] = Some(x0);}
rb_case! {a5_upppp, b"upppp", (u8, u8, u8, u8, u8), [p0 p1 p2 p3 p4 p5], o, (_, p1, p2, p3, p4)}
rb_case! {a5_plppp, b"plppp", (u8, u8, u8, u8, u8), [p0 p1 p2 p3 p4 p5], o, (p0, let x1, p2, p3, p4), o[1] = Some(x1);}
rb_case! {a5_ptppp, b"ptppp", (u8, u8, u8, u8, u8), [p0 p1 p2 p3 p4 p5], o, (p0, let x1: u8, p2, p3, p4), o[1] = Some(x1);}
rb_case! {a5_puppp, b"puppp", (u8, u8, u8, u8, u8), [p0 p1 p2 p3 p4 p5], o, (p0, _, p2, p3, p4)}
rb_case! {a5_pplpp, b"pplpp", (u8, u8, u8, u8, u8), [p0 p1 p2 p3 p4 p5], o, (p0, p1, let x2, p3, p4), o[2] = Some(x2);}
rb_case! {a5_pptpp, b"pptpp", (u8, u8, u8, u8, u8), [p0 p1 p2 p3 p4 p5], o, (p0, p1, let x2: u8, p3, p4), o[2] = Some(x2);}
rb_case! {a5_ppupp, b"ppupp", (u8, u8, u8, u8, u8), [p0 p1 p2 p3 p4 p5], o, (p0, p1, _, p3, p4)}
rb_case! {a5_ppplp, b"ppplp", (u8, u8, u8, u8, u8), [p0 p1 p2 p3 p4 p5], o, (p0, p1, p2, let x3, p4), o[3] = Some(x3);}
rb_case! {a5_ppptp, b"ppptp", (u8, u8, u8, u8, u8), [p0 p1 p2 p3 p4 p5], o, (p0, p1, p2, let x3: u8, p4), o[3] = Some(x3);}
rb_case! {a5_pppup, b"pppup", (u8, u8, u8, u8, u8), [p0 p1 p2 p3 p4 p5], o, (p0, p1, p2, _, p4)}
rb_case! {a5_ppppl, b"ppppl", (u8, u8, u8, u8, u8), [p0 p1 p2 p3 p4 p5], o, (p0, p1, p2, p3, let x4), o[4] = Some(x4);}
rb_case! {a5_ppppt, b"ppppt", (u8, u8, u8, u8, u8), [p0 p1 p2 p3 p4 p5], o, (p0, p1, p2, p3, let x4: u8), o[4] = Some(x4);}
rb_case! {a5_ppppu, b"ppppu", (u8, u8, u8, u8, u8), [p0 p1 p2 p3 p4 p5], o, (p0, p1, p2, p3, _)}
rb_case! {a5_pllll, b"pllll", (u8, u8, u8, u8, u8), [p0 p1 p2 p3 p4 p5], o, (p0, let x1, let x2, let x3, let x4), o[1] = Some(x1); o[2] = Some(x2); o[3] = Some(x3); o[4] = Some(x4);}
rb_case! {a5_lplll, b"lplll", (u8, u8, u8, u8, u8), [p0 p1 p2 p3 p4 p5], o, (let x0, p1, let x2, let x3, let x4), o[0] = Some(x0); o[2] = Some(x2); o[3] = Some(x3); o[4] = Some(x4);}
rb_case! {a5_llpll, b"llpll", (u8, u8, u8, u8, u8), [p0 p1 p2 p3 p4 p5], o, (let x0, let x1, p2, let x3, let x4), o[0] = Some(x0); o[1] = Some(x1); o[3] = Some(x3); o[4] = Some(x4);}
rb_case! {a5_lllpl, b"lllpl", (u8, u8, u8, u8, u8), [p0 p1 p2 p3 p4 p5], o, (let x0, let x1, let x2, p3, let x4), o[0] = Some(x0); o[1] = Some(x1); o[2] = Some(x2); o[4] = Some(x4);}
rb_case! {a5_llllp, b"llllp", (u8, u8, u8, u8, u8), [p0 p1 p2 p3 p4 p5], o, (let x0, let x1, let x2, let x3, p4), o[0] = Some(x0); o[1] = Some(x1); o[2] = Some(x2); o[3] = Some(x3);}

// ---- arity 6: uniform rows, one odd position among places, one place among lets
rb_case! {a6_pppppp, b"pppppp", (u8, u8, u8, u8, u8, u8), [p0 p1 p2 p3 p4 p5], o, (p0, p1, p2, p3, p4, p5)}
rb_case! {a6_llllll, b"llllll", (u8, u8, u8, u8, u8, u8), [p0 p1 p2 p3 p4 p5], o, (let x0, let x1, let x2, let x3, let x4, let x5), o[0] = Some(x0); o[1] = Some(x1); o[2] = Some(x2); o[3] = Some(x3); o[4] = Some(x4); o[5] = Some(x5);}
rb_case! {a6_tttttt, b"tttttt", (u8, u8, u8, u8, u8, u8), [p0 p1 p2 p3 p4 p5], o, (let x0: u8, let x1: u8, let x2: u8, let x3: u8, let x4: u8, let x5: u8), o[0] = Some(x0); o[1] = Some(x1); o[2] = Some(x2); o[3] = Some(x3); o[4] = Some(x4); o[5] = Some(x5);}
rb_case! {a6_uuuuuu, b"uuuuuu", (u8, u8, u8, u8, u8, u8), [p0 p1 p2 p3 p4 p5], o, (_, _, _, _, _, _)}
rb_case! {a6_lppppp, b"lppppp", (u8, u8, u8, u8, u8, u8), [p0 p1 p2 p3 p4 p5], o, (let x0, p1, p2, p3, p4, p5), o[0] = Some(x0);}
rb_case! {a6_tppppp, b"tppppp", (u8, u8, u8, u8, u8, u8), [p0 p1 p2 p3 p4 p5], o, (let x0: u8, p1, p2, p3, p4, p5), o[0] = Some(x0);}
rb_case! {a6_uppppp, b"uppppp", (u8, u8, u8, u8, u8, u8), [p0 p1 p2 p3 p4 p5], o, (_, p1, p2, p3, p4, p5)}
rb_case! {a6_plpppp, b"plpppp", (u8, u8, u8, u8, u8, u8), [p0 p1 p2 p3 p4 p5], o, (p0, let x1, p2, p3, p4, p5), o[1] = Some(x1);}
rb_case! {a6_ptpppp, b"ptpppp", (u8, u8, u8, u8, u8, u8), [p0 p1 p2 p3 p4 p5], o, (p0, let x1: u8, p2, p3, p4, p5), o[1] = Some(x1);}
rb_case! {a6_pupppp, b"pupppp", (u8, u8, u8, u8, u8, u8), [p0 p1 p2 p3 p4 p5], o, (p0, _, p2, p3, p4, p5)}
rb_case! {a6_pplppp, b"pplppp", (u8, u8, u8, u8, u8, u8), [p0 p1 p2 p3 p4 p5], o, (p0, p1, let x2, p3, p4, p5), o[2] = Some(x2);}
rb_case! {a6_pptppp, b"pptppp", (u8, u8, u8, u8, u8, u8), [p0 p1 p2 p3 p4 p5], o, (p0, p1, let x2: u8, p3, p4, p5), o[2] = Some(x2);}
rb_case! {a6_ppuppp, b"ppuppp", (u8, u8, u8, u8, u8, u8), [p0 p1 p2 p3 p4 p5], o, (p0, p1, _, p3, p4, p5)}
rb_case! {a6_ppplpp, b"ppplpp", (u8, u8, u8, u8, u8, u8), [p0 p1 p2 p3 p4 p5], o, (p0, p1, p2, let x3, p4, p5), o[3] = Some(x3);}
rb_case! {a6_ppptpp, b"ppptpp", (u8, u8, u8, u8, u8, u8), [p0 p1 p2 p3 p4 p5], o, (p0, p1, p2, let x3: u8, p4, p5), o[3] = Some(x3);}
rb_case! {a6_pppupp, b"pppupp", (u8, u8, u8, u8, u8, u8), [p0 p1 p2 p3 p4 p5], o, (p0, p1, p2, _, p4, p5)}
rb_case! {a6_pppplp, b"pppplp", (u8, u8, u8, u8, u8, u8), [p0 p1 p2 p3 p4 p5], o, (p0, p1, p2, p3, let x4, p5), o[4] = Some(x4);}
rb_case! {a6_pppptp, b"pppptp", (u8, u8, u8, u8, u8, u8), [p0 p1 p2 p3 p4 p5], o, (p0, p1, p2, p3, let x4: u8, p5), o[4] = Some(x4);}
rb_case! {a6_ppppup, b"ppppup", (u8, u8, u8, u8, u8, u8), [p0 p1 p2 p3 p4 p5], o, (p0, p1, p2, p3, _, p5)}
rb_case! {a6_pppppl, b"pppppl", (u8, u8, u8, u8, u8, u8), [p0 p1 p2 p3 p4 p5], o, (p0, p1, p2, p3, p4, let x5), o[5] = Some(x5);}
rb_case! {a6_pppppt, b"pppppt", (u8, u8, u8, u8, u8, u8), [p0 p1 p2 p3 p4 p5], o, (p0, p1, p2, p3, p4, let x5: u8), o[5] = Some(x5);}
rb_case! {a6_pppppu, b"pppppu", (u8, u8, u8, u8, u8, u8), [p0 p1 p2 p3 p4 p5], o, (p0, p1, p2, p3, p4, _)}
rb_case! {a6_plllll, b"plllll", (u8, u8, u8, u8, u8, u8), [p0 p1 p2 p3 p4 p5], o, (p0, let x1, let x2, let x3, let x4, let x5), o[1] = Some(x1); o[2] = Some(x2); o[3] = Some(x3); o[4] = Some(x4); o[5] = Some(x5);}
rb_case! {a6_lpllll, b"lpllll", (u8, u8, u8, u8, u8, u8), [p0 p1 p2 p3 p4 p5], o, (let x0, p1, let x2, let x3, let x4, let x5), o[0] = Some(x0); o[2] = Some(x2); o[3] = Some(x3); o[4] = Some(x4); o[5] = Some(x5);}
rb_case! {a6_llplll, b"llplll", (u8, u8, u8, u8, u8, u8), [p0 p1 p2 p3 p4 p5], o, (let x0, let x1, p2, let x3, let x4, let x5), o[0] = Some(x0); o[1] = Some(x1); o[3] = Some(x3); o[4] = Some(x4); o[5] = Some(x5);}
rb_case! {a6_lllpll, b"lllpll", (u8, u8, u8, u8, u8, u8), [p0 p1 p2 p3 p4 p5], o, (let x0, let x1, let x2, p3, let x4, let x5), o[0] = Some(x0); o[1] = Some(x1); o[2] = Some(x2); o[4] = Some(x4); o[5] = Some(x5);}
rb_case! {a6_llllpl, b"llllpl", (u8, u8, u8, u8, u8, u8), [p0 p1 p2 p3 p4 p5], o, (let x0, let x1, let x2, let x3, p4, let x5), o[0] = Some(x0); o[1] = Some(x1); o[2] = Some(x2); o[3] = Some(x3); o[5] = Some(x5);}
rb_case! {a6_lllllp, b"lllllp", (u8, u8, u8, u8, u8, u8), [p0 p1 p2 p3 p4 p5], o, (let x0, let x1, let x2, let x3, let x4, p5), o[0] = Some(x0); o[1] = Some(x1); o[2] = Some(x2); o[3] = Some(x3); o[4] = Some(x4);}

harness! {
    /// kind=complete tier=quick bound="constant 6-iteration comparison loops; Ok payload (u8,u8,u8) / Err E(u8) and the prior contents of every place over the full domain; arity 3, pattern group a (8 patterns: ppp .. plu)"
    #[kani::unwind(8)]
    fn c19_rebind_arity3_a(s) {
        let init: Places = s.bytes();
        let (v0, v1, v2) = (s.u8(), s.u8(), s.u8());
        let e = E(s.u8());
        let r: Result<(u8, u8, u8), E> = if s.bool() { Ok((v0, v1, v2)) } else { Err(e) };
        let vals: Places = [v0, v1, v2, 0, 0, 0];
        rb_chk!(s, a3_ppp, r, vals, e, init, "C19.rebind_if_ok.arity3.ppp", "C19.try_rebind.arity3.ppp");
        rb_chk!(s, a3_ppl, r, vals, e, init, "C19.rebind_if_ok.arity3.ppl", "C19.try_rebind.arity3.ppl");
        rb_chk!(s, a3_ppt, r, vals, e, init, "C19.rebind_if_ok.arity3.ppt", "C19.try_rebind.arity3.ppt");
        rb_chk!(s, a3_ppu, r, vals, e, init, "C19.rebind_if_ok.arity3.ppu", "C19.try_rebind.arity3.ppu");
        rb_chk!(s, a3_plp, r, vals, e, init, "C19.rebind_if_ok.arity3.plp", "C19.try_rebind.arity3.plp");
        rb_chk!(s, a3_pll, r, vals, e, init, "C19.rebind_if_ok.arity3.pll", "C19.try_rebind.arity3.pll");
        rb_chk!(s, a3_plt, r, vals, e, init, "C19.rebind_if_ok.arity3.plt", "C19.try_rebind.arity3.plt");
        rb_chk!(s, a3_plu, r, vals, e, init, "C19.rebind_if_ok.arity3.plu", "C19.try_rebind.arity3.plu");
        cov!(s, r.is_ok() && v0 != init[0] && v1 != init[1] && v2 != init[2], "C19.cover.rebind3a_ok_changes");
        cov!(s, r.is_err(), "C19.cover.rebind3a_err");
    }
}

harness! {
    /// kind=complete tier=quick bound="constant 6-iteration comparison loops; Ok payload (u8,u8,u8) / Err E(u8) and the prior contents of every place over the full domain; arity 3, pattern group b (8 patterns: ptp .. puu)"
    #[kani::unwind(8)]
    fn c19_rebind_arity3_b(s) {
        let init: Places = s.bytes();
        let (v0, v1, v2) = (s.u8(), s.u8(), s.u8());
        let e = E(s.u8());
        let r: Result<(u8, u8, u8), E> = if s.bool() { Ok((v0, v1, v2)) } else { Err(e) };
        let vals: Places = [v0, v1, v2, 0, 0, 0];
        rb_chk!(s, a3_ptp, r, vals, e, init, "C19.rebind_if_ok.arity3.ptp", "C19.try_rebind.arity3.ptp");
        rb_chk!(s, a3_ptl, r, vals, e, init, "C19.rebind_if_ok.arity3.ptl", "C19.try_rebind.arity3.ptl");
        rb_chk!(s, a3_ptt, r, vals, e, init, "C19.rebind_if_ok.arity3.ptt", "C19.try_rebind.arity3.ptt");
        rb_chk!(s, a3_ptu, r, vals, e, init, "C19.rebind_if_ok.arity3.ptu", "C19.try_rebind.arity3.ptu");
        rb_chk!(s, a3_pup, r, vals, e, init, "C19.rebind_if_ok.arity3.pup", "C19.try_rebind.arity3.pup");
        rb_chk!(s, a3_pul, r, vals, e, init, "C19.rebind_if_ok.arity3.pul", "C19.try_rebind.arity3.pul");
        rb_chk!(s, a3_put, r, vals, e, init, "C19.rebind_if_ok.arity3.put", "C19.try_rebind.arity3.put");
        rb_chk!(s, a3_puu, r, vals, e, init, "C19.rebind_if_ok.arity3.puu", "C19.try_rebind.arity3.puu");
        cov!(s, r.is_ok() && v0 != init[0] && v1 != init[1] && v2 != init[2], "C19.cover.rebind3b_ok_changes");
        cov!(s, r.is_err(), "C19.cover.rebind3b_err");
    }
}

harness! {
    /// kind=complete tier=quick bound="constant 6-iteration comparison loops; Ok payload (u8,u8,u8) / Err E(u8) and the prior contents of every place over the full domain; arity 3, pattern group c (8 patterns: lpp .. llu)"
    #[kani::unwind(8)]
    fn c19_rebind_arity3_c(s) {
        let init: Places = s.bytes();
        let (v0, v1, v2) = (s.u8(), s.u8(), s.u8());
        let e = E(s.u8());
        let r: Result<(u8, u8, u8), E> = if s.bool() { Ok((v0, v1, v2)) } else { Err(e) };
        let vals: Places = [v0, v1, v2, 0, 0, 0];
        rb_chk!(s, a3_lpp, r, vals, e, init, "C19.rebind_if_ok.arity3.lpp", "C19.try_rebind.arity3.lpp");
        rb_chk!(s, a3_lpl, r, vals, e, init, "C19.rebind_if_ok.arity3.lpl", "C19.try_rebind.arity3.lpl");
        rb_chk!(s, a3_lpt, r, vals, e, init, "C19.rebind_if_ok.arity3.lpt", "C19.try_rebind.arity3.lpt");
        rb_chk!(s, a3_lpu, r, vals, e, init, "C19.rebind_if_ok.arity3.lpu", "C19.try_rebind.arity3.lpu");
        rb_chk!(s, a3_llp, r, vals, e, init, "C19.rebind_if_ok.arity3.llp", "C19.try_rebind.arity3.llp");
        rb_chk!(s, a3_lll, r, vals, e, init, "C19.rebind_if_ok.arity3.lll", "C19.try_rebind.arity3.lll");
        rb_chk!(s, a3_llt, r, vals, e, init, "C19.rebind_if_ok.arity3.llt", "C19.try_rebind.arity3.llt");
        rb_chk!(s, a3_llu, r, vals, e, init, "C19.rebind_if_ok.arity3.llu", "C19.try_rebind.arity3.llu");
        cov!(s, r.is_ok() && v0 != init[0] && v1 != init[1] && v2 != init[2], "C19.cover.rebind3c_ok_changes");
        cov!(s, r.is_err(), "C19.cover.rebind3c_err");
    }
}

harness! {
    /// kind=complete tier=quick bound="constant 6-iteration comparison loops; Ok payload (u8,u8,u8) / Err E(u8) and the prior contents of every place over the full domain; arity 3, pattern group d (8 patterns: ltp .. luu)"
    #[kani::unwind(8)]
    fn c19_rebind_arity3_d(s) {
        let init: Places = s.bytes();
        let (v0, v1, v2) = (s.u8(), s.u8(), s.u8());
        let e = E(s.u8());
        let r: Result<(u8, u8, u8), E> = if s.bool() { Ok((v0, v1, v2)) } else { Err(e) };
        let vals: Places = [v0, v1, v2, 0, 0, 0];
        rb_chk!(s, a3_ltp, r, vals, e, init, "C19.rebind_if_ok.arity3.ltp", "C19.try_rebind.arity3.ltp");
        rb_chk!(s, a3_ltl, r, vals, e, init, "C19.rebind_if_ok.arity3.ltl", "C19.try_rebind.arity3.ltl");
        rb_chk!(s, a3_ltt, r, vals, e, init, "C19.rebind_if_ok.arity3.ltt", "C19.try_rebind.arity3.ltt");
        rb_chk!(s, a3_ltu, r, vals, e, init, "C19.rebind_if_ok.arity3.ltu", "C19.try_rebind.arity3.ltu");
        rb_chk!(s, a3_lup, r, vals, e, init, "C19.rebind_if_ok.arity3.lup", "C19.try_rebind.arity3.lup");
        rb_chk!(s, a3_lul, r, vals, e, init, "C19.rebind_if_ok.arity3.lul", "C19.try_rebind.arity3.lul");
        rb_chk!(s, a3_lut, r, vals, e, init, "C19.rebind_if_ok.arity3.lut", "C19.try_rebind.arity3.lut");
        rb_chk!(s, a3_luu, r, vals, e, init, "C19.rebind_if_ok.arity3.luu", "C19.try_rebind.arity3.luu");
        cov!(s, r.is_ok() && v0 != init[0] && v1 != init[1] && v2 != init[2], "C19.cover.rebind3d_ok_changes");
        cov!(s, r.is_err(), "C19.cover.rebind3d_err");
    }
}

harness! {
    /// kind=complete tier=quick bound="constant 6-iteration comparison loops; Ok payload (u8,u8,u8) / Err E(u8) and the prior contents of every place over the full domain; arity 3, pattern group e (8 patterns: tpp .. tlu)"
    #[kani::unwind(8)]
    fn c19_rebind_arity3_e(s) {
        let init: Places = s.bytes();
        let (v0, v1, v2) = (s.u8(), s.u8(), s.u8());
        let e = E(s.u8());
        let r: Result<(u8, u8, u8), E> = if s.bool() { Ok((v0, v1, v2)) } else { Err(e) };
        let vals: Places = [v0, v1, v2, 0, 0, 0];
        rb_chk!(s, a3_tpp, r, vals, e, init, "C19.rebind_if_ok.arity3.tpp", "C19.try_rebind.arity3.tpp");
        rb_chk!(s, a3_tpl, r, vals, e, init, "C19.rebind_if_ok.arity3.tpl", "C19.try_rebind.arity3.tpl");
        rb_chk!(s, a3_tpt, r, vals, e, init, "C19.rebind_if_ok.arity3.tpt", "C19.try_rebind.arity3.tpt");
        rb_chk!(s, a3_tpu, r, vals, e, init, "C19.rebind_if_ok.arity3.tpu", "C19.try_rebind.arity3.tpu");
        rb_chk!(s, a3_tlp, r, vals, e, init, "C19.rebind_if_ok.arity3.tlp", "C19.try_rebind.arity3.tlp");
        rb_chk!(s, a3_tll, r, vals, e, init, "C19.rebind_if_ok.arity3.tll", "C19.try_rebind.arity3.tll");
        rb_chk!(s, a3_tlt, r, vals, e, init, "C19.rebind_if_ok.arity3.tlt", "C19.try_rebind.arity3.tlt");
        rb_chk!(s, a3_tlu, r, vals, e, init, "C19.rebind_if_ok.arity3.tlu", "C19.try_rebind.arity3.tlu");
        cov!(s, r.is_ok() && v0 != init[0] && v1 != init[1] && v2 != init[2], "C19.cover.rebind3e_ok_changes");
        cov!(s, r.is_err(), "C19.cover.rebind3e_err");
    }
}

harness! {
    /// kind=complete tier=quick bound="constant 6-iteration comparison loops; Ok payload (u8,u8,u8) / Err E(u8) and the prior contents of every place over the full domain; arity 3, pattern group f (8 patterns: ttp .. tuu)"
    #[kani::unwind(8)]
    fn c19_rebind_arity3_f(s) {
        let init: Places = s.bytes();
        let (v0, v1, v2) = (s.u8(), s.u8(), s.u8());
        let e = E(s.u8());
        let r: Result<(u8, u8, u8), E> = if s.bool() { Ok((v0, v1, v2)) } else { Err(e) };
        let vals: Places = [v0, v1, v2, 0, 0, 0];
        rb_chk!(s, a3_ttp, r, vals, e, init, "C19.rebind_if_ok.arity3.ttp", "C19.try_rebind.arity3.ttp");
        rb_chk!(s, a3_ttl, r, vals, e, init, "C19.rebind_if_ok.arity3.ttl", "C19.try_rebind.arity3.ttl");
        rb_chk!(s, a3_ttt, r, vals, e, init, "C19.rebind_if_ok.arity3.ttt", "C19.try_rebind.arity3.ttt");
        rb_chk!(s, a3_ttu, r, vals, e, init, "C19.rebind_if_ok.arity3.ttu", "C19.try_rebind.arity3.ttu");
        rb_chk!(s, a3_tup, r, vals, e, init, "C19.rebind_if_ok.arity3.tup", "C19.try_rebind.arity3.tup");
        rb_chk!(s, a3_tul, r, vals, e, init, "C19.rebind_if_ok.arity3.tul", "C19.try_rebind.arity3.tul");
        rb_chk!(s, a3_tut, r, vals, e, init, "C19.rebind_if_ok.arity3.tut", "C19.try_rebind.arity3.tut");
        rb_chk!(s, a3_tuu, r, vals, e, init, "C19.rebind_if_ok.arity3.tuu", "C19.try_rebind.arity3.tuu");
        cov!(s, r.is_ok() && v0 != init[0] && v1 != init[1] && v2 != init[2], "C19.cover.rebind3f_ok_changes");
        cov!(s, r.is_err(), "C19.cover.rebind3f_err");
    }
}

harness! {
    /// kind=complete tier=quick bound="constant 6-iteration comparison loops; Ok payload (u8,u8,u8) / Err E(u8) and the prior contents of every place over the full domain; arity 3, pattern group g (8 patterns: upp .. ulu)"
    #[kani::unwind(8)]
    fn c19_rebind_arity3_g(s) {
        let init: Places = s.bytes();
        let (v0, v1, v2) = (s.u8(), s.u8(), s.u8());
        let e = E(s.u8());
        let r: Result<(u8, u8, u8), E> = if s.bool() { Ok((v0, v1, v2)) } else { Err(e) };
        let vals: Places = [v0, v1, v2, 0, 0, 0];
        rb_chk!(s, a3_upp, r, vals, e, init, "C19.rebind_if_ok.arity3.upp", "C19.try_rebind.arity3.upp");
        rb_chk!(s, a3_upl, r, vals, e, init, "C19.rebind_if_ok.arity3.upl", "C19.try_rebind.arity3.upl");
        rb_chk!(s, a3_upt, r, vals, e, init, "C19.rebind_if_ok.arity3.upt", "C19.try_rebind.arity3.upt");
        rb_chk!(s, a3_upu, r, vals, e, init, "C19.rebind_if_ok.arity3.upu", "C19.try_rebind.arity3.upu");
        rb_chk!(s, a3_ulp, r, vals, e, init, "C19.rebind_if_ok.arity3.ulp", "C19.try_rebind.arity3.ulp");
        rb_chk!(s, a3_ull, r, vals, e, init, "C19.rebind_if_ok.arity3.ull", "C19.try_rebind.arity3.ull");
        rb_chk!(s, a3_ult, r, vals, e, init, "C19.rebind_if_ok.arity3.ult", "C19.try_rebind.arity3.ult");
        rb_chk!(s, a3_ulu, r, vals, e, init, "C19.rebind_if_ok.arity3.ulu", "C19.try_rebind.arity3.ulu");
        cov!(s, r.is_ok() && v0 != init[0] && v1 != init[1] && v2 != init[2], "C19.cover.rebind3g_ok_changes");
        cov!(s, r.is_err(), "C19.cover.rebind3g_err");
    }
}

harness! {
    /// kind=complete tier=quick bound="constant 6-iteration comparison loops; Ok payload (u8,u8,u8) / Err E(u8) and the prior contents of every place over the full domain; arity 3, pattern group h (8 patterns: utp .. uuu)"
    #[kani::unwind(8)]
    fn c19_rebind_arity3_h(s) {
        let init: Places = s.bytes();
        let (v0, v1, v2) = (s.u8(), s.u8(), s.u8());
        let e = E(s.u8());
        let r: Result<(u8, u8, u8), E> = if s.bool() { Ok((v0, v1, v2)) } else { Err(e) };
        let vals: Places = [v0, v1, v2, 0, 0, 0];
        rb_chk!(s, a3_utp, r, vals, e, init, "C19.rebind_if_ok.arity3.utp", "C19.try_rebind.arity3.utp");
        rb_chk!(s, a3_utl, r, vals, e, init, "C19.rebind_if_ok.arity3.utl", "C19.try_rebind.arity3.utl");
        rb_chk!(s, a3_utt, r, vals, e, init, "C19.rebind_if_ok.arity3.utt", "C19.try_rebind.arity3.utt");
        rb_chk!(s, a3_utu, r, vals, e, init, "C19.rebind_if_ok.arity3.utu", "C19.try_rebind.arity3.utu");
        rb_chk!(s, a3_uup, r, vals, e, init, "C19.rebind_if_ok.arity3.uup", "C19.try_rebind.arity3.uup");
        rb_chk!(s, a3_uul, r, vals, e, init, "C19.rebind_if_ok.arity3.uul", "C19.try_rebind.arity3.uul");
        rb_chk!(s, a3_uut, r, vals, e, init, "C19.rebind_if_ok.arity3.uut", "C19.try_rebind.arity3.uut");
        rb_chk!(s, a3_uuu, r, vals, e, init, "C19.rebind_if_ok.arity3.uuu", "C19.try_rebind.arity3.uuu");
        cov!(s, r.is_ok() && v0 != init[0] && v1 != init[1] && v2 != init[2], "C19.cover.rebind3h_ok_changes");
        cov!(s, r.is_err(), "C19.cover.rebind3h_err");
    }
}

harness! {
    /// kind=complete tier=quick bound="constant 6-iteration comparison loops; Ok payload (u8,u8,u8,u8) / Err E(u8) and the prior contents of every place over the full domain; arity 4, pattern group a (8 patterns: pppp .. plpp)"
    #[kani::unwind(8)]
    fn c19_rebind_arity4_a(s) {
        let init: Places = s.bytes();
        let (v0, v1, v2, v3) = (s.u8(), s.u8(), s.u8(), s.u8());
        let e = E(s.u8());
        let r: Result<(u8, u8, u8, u8), E> = if s.bool() { Ok((v0, v1, v2, v3)) } else { Err(e) };
        let vals: Places = [v0, v1, v2, v3, 0, 0];
        rb_chk!(s, a4_pppp, r, vals, e, init, "C19.rebind_if_ok.arity4.pppp", "C19.try_rebind.arity4.pppp");
        rb_chk!(s, a4_llll, r, vals, e, init, "C19.rebind_if_ok.arity4.llll", "C19.try_rebind.arity4.llll");
        rb_chk!(s, a4_tttt, r, vals, e, init, "C19.rebind_if_ok.arity4.tttt", "C19.try_rebind.arity4.tttt");
        rb_chk!(s, a4_uuuu, r, vals, e, init, "C19.rebind_if_ok.arity4.uuuu", "C19.try_rebind.arity4.uuuu");
        rb_chk!(s, a4_lppp, r, vals, e, init, "C19.rebind_if_ok.arity4.lppp", "C19.try_rebind.arity4.lppp");
        rb_chk!(s, a4_tppp, r, vals, e, init, "C19.rebind_if_ok.arity4.tppp", "C19.try_rebind.arity4.tppp");
        rb_chk!(s, a4_uppp, r, vals, e, init, "C19.rebind_if_ok.arity4.uppp", "C19.try_rebind.arity4.uppp");
        rb_chk!(s, a4_plpp, r, vals, e, init, "C19.rebind_if_ok.arity4.plpp", "C19.try_rebind.arity4.plpp");
        cov!(s, r.is_ok() && v0 != init[0] && v1 != init[1] && v2 != init[2] && v3 != init[3], "C19.cover.rebind4a_ok_changes");
        cov!(s, r.is_err(), "C19.cover.rebind4a_err");
    }
}

harness! {
    /// kind=complete tier=quick bound="constant 6-iteration comparison loops; Ok payload (u8,u8,u8,u8) / Err E(u8) and the prior contents of every place over the full domain; arity 4, pattern group b (8 patterns: ptpp .. pppu)"
    #[kani::unwind(8)]
    fn c19_rebind_arity4_b(s) {
        let init: Places = s.bytes();
        let (v0, v1, v2, v3) = (s.u8(), s.u8(), s.u8(), s.u8());
        let e = E(s.u8());
        let r: Result<(u8, u8, u8, u8), E> = if s.bool() { Ok((v0, v1, v2, v3)) } else { Err(e) };
        let vals: Places = [v0, v1, v2, v3, 0, 0];
        rb_chk!(s, a4_ptpp, r, vals, e, init, "C19.rebind_if_ok.arity4.ptpp", "C19.try_rebind.arity4.ptpp");
        rb_chk!(s, a4_pupp, r, vals, e, init, "C19.rebind_if_ok.arity4.pupp", "C19.try_rebind.arity4.pupp");
        rb_chk!(s, a4_pplp, r, vals, e, init, "C19.rebind_if_ok.arity4.pplp", "C19.try_rebind.arity4.pplp");
        rb_chk!(s, a4_pptp, r, vals, e, init, "C19.rebind_if_ok.arity4.pptp", "C19.try_rebind.arity4.pptp");
        rb_chk!(s, a4_ppup, r, vals, e, init, "C19.rebind_if_ok.arity4.ppup", "C19.try_rebind.arity4.ppup");
        rb_chk!(s, a4_pppl, r, vals, e, init, "C19.rebind_if_ok.arity4.pppl", "C19.try_rebind.arity4.pppl");
        rb_chk!(s, a4_pppt, r, vals, e, init, "C19.rebind_if_ok.arity4.pppt", "C19.try_rebind.arity4.pppt");
        rb_chk!(s, a4_pppu, r, vals, e, init, "C19.rebind_if_ok.arity4.pppu", "C19.try_rebind.arity4.pppu");
        cov!(s, r.is_ok() && v0 != init[0] && v1 != init[1] && v2 != init[2] && v3 != init[3], "C19.cover.rebind4b_ok_changes");
        cov!(s, r.is_err(), "C19.cover.rebind4b_err");
    }
}

harness! {
    /// kind=complete tier=quick bound="constant 6-iteration comparison loops; Ok payload (u8,u8,u8,u8) / Err E(u8) and the prior contents of every place over the full domain; arity 4, pattern group c (4 patterns: plll .. lllp)"
    #[kani::unwind(8)]
    fn c19_rebind_arity4_c(s) {
        let init: Places = s.bytes();
        let (v0, v1, v2, v3) = (s.u8(), s.u8(), s.u8(), s.u8());
        let e = E(s.u8());
        let r: Result<(u8, u8, u8, u8), E> = if s.bool() { Ok((v0, v1, v2, v3)) } else { Err(e) };
        let vals: Places = [v0, v1, v2, v3, 0, 0];
        rb_chk!(s, a4_plll, r, vals, e, init, "C19.rebind_if_ok.arity4.plll", "C19.try_rebind.arity4.plll");
        rb_chk!(s, a4_lpll, r, vals, e, init, "C19.rebind_if_ok.arity4.lpll", "C19.try_rebind.arity4.lpll");
        rb_chk!(s, a4_llpl, r, vals, e, init, "C19.rebind_if_ok.arity4.llpl", "C19.try_rebind.arity4.llpl");
        rb_chk!(s, a4_lllp, r, vals, e, init, "C19.rebind_if_ok.arity4.lllp", "C19.try_rebind.arity4.lllp");
        cov!(s, r.is_ok() && v0 != init[0] && v1 != init[1] && v2 != init[2] && v3 != init[3], "C19.cover.rebind4c_ok_changes");
        cov!(s, r.is_err(), "C19.cover.rebind4c_err");
    }
}

harness! {
    /// kind=complete tier=quick bound="constant 6-iteration comparison loops; Ok payload (u8,u8,u8,u8,u8) / Err E(u8) and the prior contents of every place over the full domain; arity 5, pattern group a (8 patterns: ppppp .. plppp)"
    #[kani::unwind(8)]
    fn c19_rebind_arity5_a(s) {
        let init: Places = s.bytes();
        let (v0, v1, v2, v3, v4) = (s.u8(), s.u8(), s.u8(), s.u8(), s.u8());
        let e = E(s.u8());
        let r: Result<(u8, u8, u8, u8, u8), E> = if s.bool() { Ok((v0, v1, v2, v3, v4)) } else { Err(e) };
        let vals: Places = [v0, v1, v2, v3, v4, 0];
        rb_chk!(s, a5_ppppp, r, vals, e, init, "C19.rebind_if_ok.arity5.ppppp", "C19.try_rebind.arity5.ppppp");
        rb_chk!(s, a5_lllll, r, vals, e, init, "C19.rebind_if_ok.arity5.lllll", "C19.try_rebind.arity5.lllll");
        rb_chk!(s, a5_ttttt, r, vals, e, init, "C19.rebind_if_ok.arity5.ttttt", "C19.try_rebind.arity5.ttttt");
        rb_chk!(s, a5_uuuuu, r, vals, e, init, "C19.rebind_if_ok.arity5.uuuuu", "C19.try_rebind.arity5.uuuuu");
        rb_chk!(s, a5_lpppp, r, vals, e, init, "C19.rebind_if_ok.arity5.lpppp", "C19.try_rebind.arity5.lpppp");
        rb_chk!(s, a5_tpppp, r, vals, e, init, "C19.rebind_if_ok.arity5.tpppp", "C19.try_rebind.arity5.tpppp");
        rb_chk!(s, a5_upppp, r, vals, e, init, "C19.rebind_if_ok.arity5.upppp", "C19.try_rebind.arity5.upppp");
        rb_chk!(s, a5_plppp, r, vals, e, init, "C19.rebind_if_ok.arity5.plppp", "C19.try_rebind.arity5.plppp");
        cov!(s, r.is_ok() && v0 != init[0] && v1 != init[1] && v2 != init[2] && v3 != init[3] && v4 != init[4], "C19.cover.rebind5a_ok_changes");
        cov!(s, r.is_err(), "C19.cover.rebind5a_err");
    }
}

harness! {
    /// kind=complete tier=quick bound="constant 6-iteration comparison loops; Ok payload (u8,u8,u8,u8,u8) / Err E(u8) and the prior contents of every place over the full domain; arity 5, pattern group b (8 patterns: ptppp .. pppup)"
    #[kani::unwind(8)]
    fn c19_rebind_arity5_b(s) {
        let init: Places = s.bytes();
        let (v0, v1, v2, v3, v4) = (s.u8(), s.u8(), s.u8(), s.u8(), s.u8());
        let e = E(s.u8());
        let r: Result<(u8, u8, u8, u8, u8), E> = if s.bool() { Ok((v0, v1, v2, v3, v4)) } else { Err(e) };
        let vals: Places = [v0, v1, v2, v3, v4, 0];
        rb_chk!(s, a5_ptppp, r, vals, e, init, "C19.rebind_if_ok.arity5.ptppp", "C19.try_rebind.arity5.ptppp");
        rb_chk!(s, a5_puppp, r, vals, e, init, "C19.rebind_if_ok.arity5.puppp", "C19.try_rebind.arity5.puppp");
        rb_chk!(s, a5_pplpp, r, vals, e, init, "C19.rebind_if_ok.arity5.pplpp", "C19.try_rebind.arity5.pplpp");
        rb_chk!(s, a5_pptpp, r, vals, e, init, "C19.rebind_if_ok.arity5.pptpp", "C19.try_rebind.arity5.pptpp");
        rb_chk!(s, a5_ppupp, r, vals, e, init, "C19.rebind_if_ok.arity5.ppupp", "C19.try_rebind.arity5.ppupp");
        rb_chk!(s, a5_ppplp, r, vals, e, init, "C19.rebind_if_ok.arity5.ppplp", "C19.try_rebind.arity5.ppplp");
        rb_chk!(s, a5_ppptp, r, vals, e, init, "C19.rebind_if_ok.arity5.ppptp", "C19.try_rebind.arity5.ppptp");
        rb_chk!(s, a5_pppup, r, vals, e, init, "C19.rebind_if_ok.arity5.pppup", "C19.try_rebind.arity5.pppup");
        cov!(s, r.is_ok() && v0 != init[0] && v1 != init[1] && v2 != init[2] && v3 != init[3] && v4 != init[4], "C19.cover.rebind5b_ok_changes");
        cov!(s, r.is_err(), "C19.cover.rebind5b_err");
    }
}

harness! {
    /// kind=complete tier=quick bound="constant 6-iteration comparison loops; Ok payload (u8,u8,u8,u8,u8) / Err E(u8) and the prior contents of every place over the full domain; arity 5, pattern group c (8 patterns: ppppl .. llllp)"
    #[kani::unwind(8)]
    fn c19_rebind_arity5_c(s) {
        let init: Places = s.bytes();
        let (v0, v1, v2, v3, v4) = (s.u8(), s.u8(), s.u8(), s.u8(), s.u8());
        let e = E(s.u8());
        let r: Result<(u8, u8, u8, u8, u8), E> = if s.bool() { Ok((v0, v1, v2, v3, v4)) } else { Err(e) };
        let vals: Places = [v0, v1, v2, v3, v4, 0];
        rb_chk!(s, a5_ppppl, r, vals, e, init, "C19.rebind_if_ok.arity5.ppppl", "C19.try_rebind.arity5.ppppl");
        rb_chk!(s, a5_ppppt, r, vals, e, init, "C19.rebind_if_ok.arity5.ppppt", "C19.try_rebind.arity5.ppppt");
        rb_chk!(s, a5_ppppu, r, vals, e, init, "C19.rebind_if_ok.arity5.ppppu", "C19.try_rebind.arity5.ppppu");
        rb_chk!(s, a5_pllll, r, vals, e, init, "C19.rebind_if_ok.arity5.pllll", "C19.try_rebind.arity5.pllll");
        rb_chk!(s, a5_lplll, r, vals, e, init, "C19.rebind_if_ok.arity5.lplll", "C19.try_rebind.arity5.lplll");
        rb_chk!(s, a5_llpll, r, vals, e, init, "C19.rebind_if_ok.arity5.llpll", "C19.try_rebind.arity5.llpll");
        rb_chk!(s, a5_lllpl, r, vals, e, init, "C19.rebind_if_ok.arity5.lllpl", "C19.try_rebind.arity5.lllpl");
        rb_chk!(s, a5_llllp, r, vals, e, init, "C19.rebind_if_ok.arity5.llllp", "C19.try_rebind.arity5.llllp");
        cov!(s, r.is_ok() && v0 != init[0] && v1 != init[1] && v2 != init[2] && v3 != init[3] && v4 != init[4], "C19.cover.rebind5c_ok_changes");
        cov!(s, r.is_err(), "C19.cover.rebind5c_err");
    }
}

harness! {
    /// kind=complete tier=quick bound="constant 6-iteration comparison loops; Ok payload (u8,u8,u8,u8,u8,u8) / Err E(u8) and the prior contents of every place over the full domain; arity 6, pattern group a (8 patterns: pppppp .. plpppp)"
    #[kani::unwind(8)]
    fn c19_rebind_arity6_a(s) {
        let init: Places = s.bytes();
        let (v0, v1, v2, v3, v4, v5) = (s.u8(), s.u8(), s.u8(), s.u8(), s.u8(), s.u8());
        let e = E(s.u8());
        let r: Result<(u8, u8, u8, u8, u8, u8), E> = if s.bool() { Ok((v0, v1, v2, v3, v4, v5)) } else { Err(e) };
        let vals: Places = [v0, v1, v2, v3, v4, v5];
        rb_chk!(s, a6_pppppp, r, vals, e, init, "C19.rebind_if_ok.arity6.pppppp", "C19.try_rebind.arity6.pppppp");
        rb_chk!(s, a6_llllll, r, vals, e, init, "C19.rebind_if_ok.arity6.llllll", "C19.try_rebind.arity6.llllll");
        rb_chk!(s, a6_tttttt, r, vals, e, init, "C19.rebind_if_ok.arity6.tttttt", "C19.try_rebind.arity6.tttttt");
        rb_chk!(s, a6_uuuuuu, r, vals, e, init, "C19.rebind_if_ok.arity6.uuuuuu", "C19.try_rebind.arity6.uuuuuu");
        rb_chk!(s, a6_lppppp, r, vals, e, init, "C19.rebind_if_ok.arity6.lppppp", "C19.try_rebind.arity6.lppppp");
        rb_chk!(s, a6_tppppp, r, vals, e, init, "C19.rebind_if_ok.arity6.tppppp", "C19.try_rebind.arity6.tppppp");
        rb_chk!(s, a6_uppppp, r, vals, e, init, "C19.rebind_if_ok.arity6.uppppp", "C19.try_rebind.arity6.uppppp");
        rb_chk!(s, a6_plpppp, r, vals, e, init, "C19.rebind_if_ok.arity6.plpppp", "C19.try_rebind.arity6.plpppp");
        cov!(s, r.is_ok() && v0 != init[0] && v1 != init[1] && v2 != init[2] && v3 != init[3] && v4 != init[4] && v5 != init[5], "C19.cover.rebind6a_ok_changes");
        cov!(s, r.is_err(), "C19.cover.rebind6a_err");
    }
}

harness! {
    /// kind=complete tier=quick bound="constant 6-iteration comparison loops; Ok payload (u8,u8,u8,u8,u8,u8) / Err E(u8) and the prior contents of every place over the full domain; arity 6, pattern group b (8 patterns: ptpppp .. pppupp)"
    #[kani::unwind(8)]
    fn c19_rebind_arity6_b(s) {
        let init: Places = s.bytes();
        let (v0, v1, v2, v3, v4, v5) = (s.u8(), s.u8(), s.u8(), s.u8(), s.u8(), s.u8());
        let e = E(s.u8());
        let r: Result<(u8, u8, u8, u8, u8, u8), E> = if s.bool() { Ok((v0, v1, v2, v3, v4, v5)) } else { Err(e) };
        let vals: Places = [v0, v1, v2, v3, v4, v5];
        rb_chk!(s, a6_ptpppp, r, vals, e, init, "C19.rebind_if_ok.arity6.ptpppp", "C19.try_rebind.arity6.ptpppp");
        rb_chk!(s, a6_pupppp, r, vals, e, init, "C19.rebind_if_ok.arity6.pupppp", "C19.try_rebind.arity6.pupppp");
        rb_chk!(s, a6_pplppp, r, vals, e, init, "C19.rebind_if_ok.arity6.pplppp", "C19.try_rebind.arity6.pplppp");
        rb_chk!(s, a6_pptppp, r, vals, e, init, "C19.rebind_if_ok.arity6.pptppp", "C19.try_rebind.arity6.pptppp");
        rb_chk!(s, a6_ppuppp, r, vals, e, init, "C19.rebind_if_ok.arity6.ppuppp", "C19.try_rebind.arity6.ppuppp");
        rb_chk!(s, a6_ppplpp, r, vals, e, init, "C19.rebind_if_ok.arity6.ppplpp", "C19.try_rebind.arity6.ppplpp");
        rb_chk!(s, a6_ppptpp, r, vals, e, init, "C19.rebind_if_ok.arity6.ppptpp", "C19.try_rebind.arity6.ppptpp");
        rb_chk!(s, a6_pppupp, r, vals, e, init, "C19.rebind_if_ok.arity6.pppupp", "C19.try_rebind.arity6.pppupp");
        cov!(s, r.is_ok() && v0 != init[0] && v1 != init[1] && v2 != init[2] && v3 != init[3] && v4 != init[4] && v5 != init[5], "C19.cover.rebind6b_ok_changes");
        cov!(s, r.is_err(), "C19.cover.rebind6b_err");
    }
}

harness! {
    /// kind=complete tier=quick bound="constant 6-iteration comparison loops; Ok payload (u8,u8,u8,u8,u8,u8) / Err E(u8) and the prior contents of every place over the full domain; arity 6, pattern group c (8 patterns: pppplp .. lpllll)"
    #[kani::unwind(8)]
    fn c19_rebind_arity6_c(s) {
        let init: Places = s.bytes();
        let (v0, v1, v2, v3, v4, v5) = (s.u8(), s.u8(), s.u8(), s.u8(), s.u8(), s.u8());
        let e = E(s.u8());
        let r: Result<(u8, u8, u8, u8, u8, u8), E> = if s.bool() { Ok((v0, v1, v2, v3, v4, v5)) } else { Err(e) };
        let vals: Places = [v0, v1, v2, v3, v4, v5];
        rb_chk!(s, a6_pppplp, r, vals, e, init, "C19.rebind_if_ok.arity6.pppplp", "C19.try_rebind.arity6.pppplp");
        rb_chk!(s, a6_pppptp, r, vals, e, init, "C19.rebind_if_ok.arity6.pppptp", "C19.try_rebind.arity6.pppptp");
        rb_chk!(s, a6_ppppup, r, vals, e, init, "C19.rebind_if_ok.arity6.ppppup", "C19.try_rebind.arity6.ppppup");
        rb_chk!(s, a6_pppppl, r, vals, e, init, "C19.rebind_if_ok.arity6.pppppl", "C19.try_rebind.arity6.pppppl");
        rb_chk!(s, a6_pppppt, r, vals, e, init, "C19.rebind_if_ok.arity6.pppppt", "C19.try_rebind.arity6.pppppt");
        rb_chk!(s, a6_pppppu, r, vals, e, init, "C19.rebind_if_ok.arity6.pppppu", "C19.try_rebind.arity6.pppppu");
        rb_chk!(s, a6_plllll, r, vals, e, init, "C19.rebind_if_ok.arity6.plllll", "C19.try_rebind.arity6.plllll");
        rb_chk!(s, a6_lpllll, r, vals, e, init, "C19.rebind_if_ok.arity6.lpllll", "C19.try_rebind.arity6.lpllll");
        cov!(s, r.is_ok() && v0 != init[0] && v1 != init[1] && v2 != init[2] && v3 != init[3] && v4 != init[4] && v5 != init[5], "C19.cover.rebind6c_ok_changes");
        cov!(s, r.is_err(), "C19.cover.rebind6c_err");
    }
}

harness! {
    /// kind=complete tier=quick bound="constant 6-iteration comparison loops; Ok payload (u8,u8,u8,u8,u8,u8) / Err E(u8) and the prior contents of every place over the full domain; arity 6, pattern group d (4 patterns: llplll .. lllllp)"
    #[kani::unwind(8)]
    fn c19_rebind_arity6_d(s) {
        let init: Places = s.bytes();
        let (v0, v1, v2, v3, v4, v5) = (s.u8(), s.u8(), s.u8(), s.u8(), s.u8(), s.u8());
        let e = E(s.u8());
        let r: Result<(u8, u8, u8, u8, u8, u8), E> = if s.bool() { Ok((v0, v1, v2, v3, v4, v5)) } else { Err(e) };
        let vals: Places = [v0, v1, v2, v3, v4, v5];
        rb_chk!(s, a6_llplll, r, vals, e, init, "C19.rebind_if_ok.arity6.llplll", "C19.try_rebind.arity6.llplll");
        rb_chk!(s, a6_lllpll, r, vals, e, init, "C19.rebind_if_ok.arity6.lllpll", "C19.try_rebind.arity6.lllpll");
        rb_chk!(s, a6_llllpl, r, vals, e, init, "C19.rebind_if_ok.arity6.llllpl", "C19.try_rebind.arity6.llllpl");
        rb_chk!(s, a6_lllllp, r, vals, e, init, "C19.rebind_if_ok.arity6.lllllp", "C19.try_rebind.arity6.lllllp");
        cov!(s, r.is_ok() && v0 != init[0] && v1 != init[1] && v2 != init[2] && v3 != init[3] && v4 != init[4] && v5 != init[5], "C19.cover.rebind6d_ok_changes");
        cov!(s, r.is_err(), "C19.cover.rebind6d_err");
    }
}

