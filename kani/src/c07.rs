//! C07 — char iteration and char<->UTF-8/u32 conversions agree with std.
//!
//! Oracles are the real std functions throughout (`char::encode_utf8`, `char::from_u32`,
//! `str::chars`, `str::char_indices`, `str::is_char_boundary`): no hand-written reference.
//!
//! * conversions (`encode_utf8`, `from_u32`, `from_u32_unchecked`, the decoder behind
//!   `chars().next()`/`next_back()`): loop-free or bounded by the 4 UTF-8 bytes, every `char` /
//!   every `u32` — `kind=complete`.
//! * iteration: the decoder `string_to_char` is `pub(super)` in konst::string, so it is reached
//!   through `Chars`/`CharIndices` (and their `rev()`).  Lock-step with the real std iterators from
//!   the fresh iterator over every valid UTF-8 string up to a byte bound, every front/back history
//!   up to a step bound (quick: 5 bytes / 4 steps, thorough: 8 bytes / 6 steps) — `kind=bounded`.
//!   After every step the yielded item (char, or (offset, char)) and the remaining string
//!   (`as_str()`, pointer + length) are compared.  `string::split_at` can reach konst_kernel's
//!   panic formatter (256-byte loops), so `non_char_boundary_panic` is stubbed by a plain `panic!`
//!   (still a failed check if reached).
//! * `__find_next_char_boundary` / `__find_prev_char_boundary`: least boundary after / greatest
//!   boundary before `pos` in std's sense (`str::is_char_boundary`), for the positions the
//!   property's callers can pass on a non-empty string (next: pos < len, prev: 1 <= pos <= len).
use crate::hlib::*;
use konst::{chr, string};
use konst_kernel::string::{__find_next_char_boundary, __find_prev_char_boundary};

harness! {
    /// kind=complete tier=quick bound="every char; loops bounded by the 4 UTF-8 bytes"
    #[kani::unwind(6)]
    fn c07_encode_utf8(s) {
        let c = s.char();
        let mut tmp = [0u8; 4];
        let e: &str = c.encode_utf8(&mut tmp);
        let k = chr::encode_utf8(c);
        chk!(s, eq_bytes(k.as_bytes(), e.as_bytes()), "C07.encode_utf8.as_bytes.eq_std");
        chk!(s, eq_bytes(k.as_str().as_bytes(), e.as_bytes()), "C07.encode_utf8.as_str.eq_std");
        chk!(s, k.as_bytes().len() == c.len_utf8(), "C07.encode_utf8.len.eq_std_len_utf8");
        cov!(s, e.len() == 1, "C07.cover.encode_len1");
        cov!(s, e.len() == 2, "C07.cover.encode_len2");
        cov!(s, e.len() == 3 && c as u32 == 0xFFFF, "C07.cover.encode_len3_last");
        cov!(s, e.len() == 4 && c == char::MAX, "C07.cover.encode_len4_max");
    }
}

harness! {
    /// kind=complete tier=quick bound="every u32 (from_u32); every char as u32 (from_u32_unchecked); loop-free"
    fn c07_from_u32(s) {
        let n = s.u32();
        let k = chr::from_u32(n);
        chk!(s, k == char::from_u32(n), "C07.from_u32.eq_std");
        let scalar = n < 0xD800 || (n >= 0xE000 && n <= 0x10FFFF);
        chk!(s, k.is_some() == scalar, "C07.from_u32.some_iff_scalar_value");
        chk!(s, match k { Some(c) => c as u32 == n, None => true }, "C07.from_u32.returns_that_char");
        let c = s.char();
        let u = unsafe { chr::from_u32_unchecked(c as u32) };
        chk!(s, u == c, "C07.from_u32_unchecked.valid_input.eq_std");
        cov!(s, n == 0xD7FF && k.is_some(), "C07.cover.from_u32_below_surrogates");
        cov!(s, n == 0xD800 && k.is_none(), "C07.cover.from_u32_first_surrogate");
        cov!(s, n == 0xDFFF && k.is_none(), "C07.cover.from_u32_last_surrogate");
        cov!(s, n == 0xE000 && k.is_some(), "C07.cover.from_u32_above_surrogates");
        cov!(s, n == 0x10FFFF && k.is_some(), "C07.cover.from_u32_max");
        cov!(s, n == 0x110000 && k.is_none(), "C07.cover.from_u32_above_max");
        cov!(s, n == u32::MAX && k.is_none(), "C07.cover.from_u32_u32_max");
    }
}

harness! {
    /// kind=complete tier=quick bound="every char: decode(encode(c)) == c through Chars/RChars/CharIndices/RCharIndices next and next_back; loops bounded by the 4 UTF-8 bytes"
    #[kani::unwind(6)]
    fn c07_decode_encode_id(s) {
        let c = s.char();
        // input built by std's encoder only
        let mut tmp = [0u8; 4];
        let e: &str = c.encode_utf8(&mut tmp);
        let which = s.u8();
        s.assume(which < 4);
        match which {
            0 => {
                chk!(s, match string::chars(e).next() { Some((d, r)) => d == c && r.as_str().len() == 0, None => false },
                     "C07.chars.next.decodes_std_encoding");
                chk!(s, match string::chars(e).next_back() { Some((d, r)) => d == c && r.as_str().len() == 0, None => false },
                     "C07.chars.next_back.decodes_std_encoding");
            }
            1 => {
                chk!(s, match string::chars(e).rev().next() { Some((d, r)) => d == c && r.rev().as_str().len() == 0, None => false },
                     "C07.rchars.next.decodes_std_encoding");
                chk!(s, match string::chars(e).rev().next_back() { Some((d, r)) => d == c && r.rev().as_str().len() == 0, None => false },
                     "C07.rchars.next_back.decodes_std_encoding");
            }
            2 => {
                chk!(s, match string::char_indices(e).next() { Some(((0, d), r)) => d == c && r.as_str().len() == 0, _ => false },
                     "C07.char_indices.next.decodes_std_encoding");
                chk!(s, match string::char_indices(e).next_back() { Some(((0, d), r)) => d == c && r.as_str().len() == 0, _ => false },
                     "C07.char_indices.next_back.decodes_std_encoding");
            }
            _ => {
                // konst's own encoder composed with konst's decoder is the identity
                let ke = chr::encode_utf8(c);
                chk!(s, match string::chars(ke.as_str()).next() { Some((d, r)) => d == c && r.as_str().len() == 0, None => false },
                     "C07.decode_encode.identity");
                chk!(s, match string::char_indices(ke.as_str()).rev().next() { Some(((0, d), r)) => d == c && r.rev().as_str().len() == 0, _ => false },
                     "C07.rchar_indices.next.decode_encode_identity");
            }
        }
        cov!(s, e.len() == 1 && which == 0, "C07.cover.decode_len1");
        cov!(s, e.len() == 2 && which == 1, "C07.cover.decode_len2");
        cov!(s, e.len() == 3 && which == 2 && c as u32 == 0xD7FF, "C07.cover.decode_len3");
        cov!(s, e.len() == 4 && which == 3 && c == char::MAX, "C07.cover.decode_len4");
    }
}

// Lock-step bodies, generic in the string bound CAP (bytes) and the history length STEPS.
// A step that yields None leaves both iterators where they were (konst's `next(self)` consumes
// the iterator, so a copy is kept).

fn body_chars<S: Src, const CAP: usize, const STEPS: usize>(s: &mut S) {
    let bs = BStr::<CAP>::any(s);
    let h = bs.as_str();
    let mut k = string::chars(h);
    let mut sd = h.chars();
    chk!(s, same_str(k.as_str(), sd.as_str()), "C07.chars.as_str.fresh_eq_std");
    let mut yielded = 0usize;
    let mut backs = 0usize;
    let mut i = 0;
    while i < STEPS {
        let front = s.bool();
        let keep = k.copy();
        let (kr, si) = if front { (k.next(), sd.next()) } else { (k.next_back(), sd.next_back()) };
        let ki = match kr {
            Some((c, n)) => { k = n; Some(c) }
            None => { k = keep; None }
        };
        chk!(s, ki == si, "C07.chars.step.item_eq_std");
        chk!(s, same_str(k.as_str(), sd.as_str()), "C07.chars.step.as_str_eq_std");
        if ki.is_some() { yielded += 1; if !front { backs += 1; } }
        i += 1;
    }
    cov!(s, yielded == STEPS && backs > 0 && backs < STEPS, "C07.cover.chars_mixed_history");
    cov!(s, yielded == 1 && h.len() == 4, "C07.cover.chars_four_byte_char_then_none");
    cov!(s, h.len() == 0, "C07.cover.chars_empty");
}

fn body_rchars<S: Src, const CAP: usize, const STEPS: usize>(s: &mut S) {
    let bs = BStr::<CAP>::any(s);
    let h = bs.as_str();
    let mut k = string::chars(h).rev();
    let mut sd = h.chars().rev();
    // Rev<Chars> has no accessor for the rest: it is h[a..b] with the yielded chars' std lengths removed
    let (mut a, mut b) = (0usize, h.len());
    let mut yielded = 0usize;
    let mut i = 0;
    while i < STEPS {
        let front = s.bool();
        let keep = k.copy();
        let (kr, si) = if front { (k.next(), sd.next()) } else { (k.next_back(), sd.next_back()) };
        let ki = match kr {
            Some((c, n)) => { k = n; Some(c) }
            None => { k = keep; None }
        };
        chk!(s, ki == si, "C07.rchars.step.item_eq_std_rev");
        if let Some(c) = si { if front { b -= c.len_utf8(); } else { a += c.len_utf8(); } }
        chk!(s, is_subslice_at(h.as_bytes(), k.copy().rev().as_str().as_bytes(), a, b), "C07.rchars.step.remaining_is_unyielded_middle");
        if ki.is_some() { yielded += 1; }
        i += 1;
    }
    cov!(s, yielded == STEPS, "C07.cover.rchars_all_steps_yield");
    cov!(s, yielded == 1 && h.len() == 4, "C07.cover.rchars_four_byte_char_then_none");
}

fn body_char_indices<S: Src, const CAP: usize, const STEPS: usize>(s: &mut S) {
    let bs = BStr::<CAP>::any(s);
    let h = bs.as_str();
    let mut k = string::char_indices(h);
    let mut sd = h.char_indices();
    chk!(s, same_str(k.as_str(), sd.as_str()), "C07.char_indices.as_str.fresh_eq_std");
    let mut yielded = 0usize;
    let mut backs = 0usize;
    let mut last_off = 0usize;
    let mut i = 0;
    while i < STEPS {
        let front = s.bool();
        let keep = k.copy();
        let (kr, si) = if front { (k.next(), sd.next()) } else { (k.next_back(), sd.next_back()) };
        let ki = match kr {
            Some((it, n)) => { k = n; Some(it) }
            None => { k = keep; None }
        };
        chk!(s, ki == si, "C07.char_indices.step.offset_and_char_eq_std");
        chk!(s, same_str(k.as_str(), sd.as_str()), "C07.char_indices.step.as_str_eq_std");
        if let Some((o, _)) = ki { yielded += 1; last_off = o; if !front { backs += 1; } }
        i += 1;
    }
    cov!(s, yielded == STEPS && backs > 0 && backs < STEPS, "C07.cover.char_indices_mixed_history");
    cov!(s, yielded == 2 && h.len() == CAP && last_off == CAP - 4 && backs == 0, "C07.cover.char_indices_wide_offset");
}

fn body_rchar_indices<S: Src, const CAP: usize, const STEPS: usize>(s: &mut S) {
    let bs = BStr::<CAP>::any(s);
    let h = bs.as_str();
    let mut k = string::char_indices(h).rev();
    let mut sd = h.char_indices().rev();
    let (mut a, mut b) = (0usize, h.len());
    let mut yielded = 0usize;
    let mut i = 0;
    while i < STEPS {
        let front = s.bool();
        let keep = k.copy();
        let (kr, si) = if front { (k.next(), sd.next()) } else { (k.next_back(), sd.next_back()) };
        let ki = match kr {
            Some((it, n)) => { k = n; Some(it) }
            None => { k = keep; None }
        };
        chk!(s, ki == si, "C07.rchar_indices.step.offset_and_char_eq_std_rev");
        if let Some((_, c)) = si { if front { b -= c.len_utf8(); } else { a += c.len_utf8(); } }
        chk!(s, is_subslice_at(h.as_bytes(), k.copy().rev().as_str().as_bytes(), a, b), "C07.rchar_indices.step.remaining_is_unyielded_middle");
        if ki.is_some() { yielded += 1; }
        i += 1;
    }
    cov!(s, yielded == STEPS, "C07.cover.rchar_indices_all_steps_yield");
    cov!(s, yielded == 1 && h.len() == 4, "C07.cover.rchar_indices_four_byte_char_then_none");
}

harness! {
    /// kind=bounded tier=quick bound="valid UTF-8 string<=5 bytes, every front/back history of 4 steps of Chars from the fresh iterator"
    #[kani::unwind(8)]
    fn c07_chars_steps(s) { body_chars::<_, 5, 4>(s) }
}

harness! {
    /// kind=bounded tier=quick bound="valid UTF-8 string<=5 bytes, every front/back history of 4 steps of RChars (chars().rev()) against Rev<Chars> from the fresh iterator"
    #[kani::unwind(8)]
    fn c07_rchars_steps(s) { body_rchars::<_, 5, 4>(s) }
}

harness! {
    /// kind=bounded tier=quick bound="valid UTF-8 string<=5 bytes, every front/back history of 4 steps of CharIndices from the fresh iterator"
    #[kani::unwind(8)]
    fn c07_char_indices_steps(s) { body_char_indices::<_, 5, 4>(s) }
}

harness! {
    /// kind=bounded tier=quick bound="valid UTF-8 string<=5 bytes, every front/back history of 4 steps of RCharIndices (char_indices().rev()) against Rev<CharIndices> from the fresh iterator"
    #[kani::unwind(8)]
    fn c07_rchar_indices_steps(s) { body_rchar_indices::<_, 5, 4>(s) }
}

harness! {
    /// kind=bounded tier=quick bound="valid UTF-8 string<=5 bytes; f <= 2 front steps and b <= 1 back steps on CharIndices, then `copy()`, `rev()` and `rev().rev()`: the duplicate / the reversed iterator yields the same (index, char) as core::str::CharIndices advanced the same way (the offset survives copy and rev)"
    #[kani::unwind(8)]
    fn c07_char_indices_copy_rev_after_steps(s) {
        let bs = BStr::<5>::any(s);
        let h = bs.as_str();
        let f = s.upto(2);
        let b = s.upto(1);
        let mut k = konst::string::char_indices(h);
        let mut st = h.char_indices();
        let mut j = 0;
        while j < 2 {
            if j < f {
                if let Some((_, nk)) = k.copy().next() { k = nk; }
                let _ = st.next();
            }
            j += 1;
        }
        if b == 1 {
            if let Some((_, nk)) = k.copy().next_back() { k = nk; }
            let _ = st.next_back();
        }
        let ef = st.clone().next();
        let eb = st.clone().next_back();
        chk!(s, k.copy().next().map(|(x, _)| x) == ef, "C07.char_indices.copy_after_steps.next_eq_std");
        chk!(s, k.copy().next_back().map(|(x, _)| x) == eb, "C07.char_indices.copy_after_steps.next_back_eq_std");
        chk!(s, k.copy().rev().next().map(|(x, _)| x) == eb, "C07.char_indices.rev_after_steps.next_eq_std_next_back");
        chk!(s, k.copy().rev().next_back().map(|(x, _)| x) == ef, "C07.char_indices.rev_after_steps.next_back_eq_std_next");
        chk!(s, k.copy().rev().copy().next().map(|(x, _)| x) == eb, "C07.rchar_indices.copy_after_steps.next_eq_std_next_back");
        chk!(s, k.copy().rev().rev().next().map(|(x, _)| x) == ef, "C07.char_indices.rev_rev_after_steps.next_eq_std");
        chk!(s, same_str(k.copy().rev().rev().as_str(), st.as_str()), "C07.char_indices.rev_rev_after_steps.as_str_eq_std");
        cov!(s, f == 2 && b == 1 && ef.is_some(), "C07.cover.copy_rev_after_three_steps_nonempty");
    }
}

harness! {
    /// kind=bounded tier=thorough bound="valid UTF-8 string<=8 bytes, every front/back history of 6 steps of Chars from the fresh iterator"
    #[kani::unwind(10)]
    fn c07_chars_steps_big(s) { body_chars::<_, 8, 6>(s) }
}

harness! {
    /// kind=bounded tier=thorough bound="valid UTF-8 string<=8 bytes, every front/back history of 6 steps of RChars (chars().rev()) against Rev<Chars> from the fresh iterator"
    #[kani::unwind(10)]
    fn c07_rchars_steps_big(s) { body_rchars::<_, 8, 6>(s) }
}

harness! {
    /// kind=bounded tier=thorough bound="valid UTF-8 string<=8 bytes, every front/back history of 6 steps of CharIndices from the fresh iterator"
    #[kani::unwind(10)]
    fn c07_char_indices_steps_big(s) { body_char_indices::<_, 8, 6>(s) }
}

harness! {
    /// kind=bounded tier=thorough bound="valid UTF-8 string<=8 bytes, every front/back history of 6 steps of RCharIndices (char_indices().rev()) against Rev<CharIndices> from the fresh iterator"
    #[kani::unwind(10)]
    fn c07_rchar_indices_steps_big(s) { body_rchar_indices::<_, 8, 6>(s) }
}

harness! {
    /// kind=bounded tier=quick bound="valid UTF-8 string<=6 bytes; next: every pos < len; prev: every pos in 1..=len (the positions callers pass: 0, len, len-1)"
    #[kani::unwind(9)]
    fn c07_find_char_boundary(s) {
        let bs = BStr::<6>::any(s);
        let h = bs.as_str();
        let b = h.as_bytes();
        let len = b.len();
        let pos = s.usize();
        if s.bool() {
            s.assume(pos < len);
            let r = __find_next_char_boundary(b, pos);
            chk!(s, r > pos && r <= len && h.is_char_boundary(r), "C07.find_next_char_boundary.is_boundary_after_pos");
            let mut i = pos + 1;
            while i < r && i < len {
                chk!(s, !h.is_char_boundary(i), "C07.find_next_char_boundary.least");
                i += 1;
            }
            chk!(s, r - pos <= 4, "C07.find_next_char_boundary.within_4_bytes");
            cov!(s, pos == 2 && r == 6, "C07.cover.next_boundary_four_byte");
            cov!(s, pos == 3 && r == 5 && len == 6, "C07.cover.next_boundary_from_inside_char");
        } else {
            s.assume(pos >= 1 && pos <= len);
            let r = __find_prev_char_boundary(b, pos);
            chk!(s, r < pos && h.is_char_boundary(r), "C07.find_prev_char_boundary.is_boundary_before_pos");
            let mut i = r + 1;
            while i < pos {
                chk!(s, !h.is_char_boundary(i), "C07.find_prev_char_boundary.greatest");
                i += 1;
            }
            chk!(s, pos - r <= 4, "C07.find_prev_char_boundary.within_4_bytes");
            cov!(s, pos == 6 && r == 2, "C07.cover.prev_boundary_four_byte");
            cov!(s, pos == len && len == 5 && r == 2, "C07.cover.prev_boundary_three_byte_tail");
        }
    }
}

// The contract form of `from_u32` (DESIGN §5: `#[kani::requires/ensures]` on a thin wrapper proved with
// `#[kani::proof_for_contract]`) is not present: `harness!` puts `#[kani::proof]` on the generated `k()`
// and Kani rejects `proof` + `proof_for_contract` on one function; a hand-written proof function would
// not be discovered by the runner.  `c07_from_u32` (kind=complete, every u32) states the same postcondition.

// ---------------------------------------------------------------------------------------------
// Function contracts (Kani's modular route): thin monomorphic wrappers around the konst functions
// carry the contract; `proof_for_contract` discharges it over the full input domain.

#[cfg_attr(kani, kani::ensures(|r: &Option<char>| *r == char::from_u32(n)))]
pub fn w_from_u32(n: u32) -> Option<char> {
    konst::chr::from_u32(n)
}

contract_harness! {
    /// kind=contract tier=quick contract_of=konst::chr::from_u32 bound="none: every u32"
    fn c07_contract_from_u32(s) for w_from_u32 {
        let n = s.u32();
        let r = w_from_u32(n);
        // native replay has no contract instrumentation: restate the postcondition
        #[cfg(not(kani))]
        chk!(s, r == char::from_u32(n), "C07.contract.from_u32.ensures");
        let _ = r;
    }
}

fn enc_eq_std(c: char, e: &konst::chr::Utf8Encoded) -> bool {
    let mut tmp = [0u8; 4];
    let st = c.encode_utf8(&mut tmp).as_bytes();
    let b = e.as_bytes();
    b.len() == st.len() && b.len() == c.len_utf8()
        && (b.len() < 1 || b[0] == st[0]) && (b.len() < 2 || b[1] == st[1])
        && (b.len() < 3 || b[2] == st[2]) && (b.len() < 4 || b[3] == st[3])
}

#[cfg_attr(kani, kani::ensures(|r: &konst::chr::Utf8Encoded| enc_eq_std(c, r)))]
pub fn w_encode_utf8(c: char) -> konst::chr::Utf8Encoded {
    konst::chr::encode_utf8(c)
}

contract_harness! {
    /// kind=contract tier=quick contract_of=konst::chr::encode_utf8 bound="none: every char"
    fn c07_contract_encode_utf8(s) for w_encode_utf8 {
        let c = s.char();
        let r = w_encode_utf8(c);
        #[cfg(not(kani))]
        chk!(s, enc_eq_std(c, &r), "C07.contract.encode_utf8.ensures");
        let _ = r;
    }
}
